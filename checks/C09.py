"""C09 — the pivot graph is always a consistent forest, mirrored in the database (Pivot.tla)"""
import json
from vlib import core

def run(ctx):
    quick = ctx.tier == "quick"
    core.design_check(ctx, "Pivot.tla", "Pivot.cfg", timeout=900)
    bfs = core.generate(ctx, "Gen_Pivot.tla", "Gen_Pivot_bfs.cfg" if quick else "Gen_Pivot_bfs5.cfg", 0, 0, ctx.seed, bfs=True, timeout=900)
    walks = core.generate(ctx, "Gen_Pivot.tla", "Gen_Pivot.cfg", 150 if quick else 3000, 14, ctx.seed, timeout=900)
    walks += core.generate(ctx, "Gen_Pivot.tla", "Gen_Pivot_restart.cfg", 120 if quick else 2000, 8, ctx.seed, timeout=900)      # a restart in the middle
    walks += core.generate(ctx, "Gen_Pivot.tla", "Gen_Pivot_rebuild.cfg", 0, 0, ctx.seed, bfs=True, timeout=900)      # every forest of up to four steps, then the restart
    ctx.say("  behaviours: %d bounded-exhaustive + %d random walks (depth 14, and depth 8 around a restart) and forests rebuilt by a restart" % (len(bfs), len(walks)))
    behs = bfs + walks
    hb = core.build_harness(ctx)
    trace, summ = core.run_harness(ctx, hb, "pivot", behs, "pivot", timeout=2400)
    for inc in summ["incidents"]:
        site = inc["site"]
        core.report(ctx, {"check": "replay", "kind": inc["kind"], "site": site, "where": _where(inc["detail"])}, inc)
    v = core.validate_traces(ctx, "Trace_Pivot.tla", "Trace_Pivot_strict.cfg", "Trace_Pivot_mon.cfg", trace, "pivot")
    for x in v["violations"]:
        ev = json.loads(x["lines"][x["event"] - 1]) if 0 < x["event"] <= len(x["lines"]) else {}
        core.report(ctx, {"check": "Mon_Pivot", "invariant": x["invariant"], "op": ev.get("ev", "?"), "shape": _shape(ev)},
                    {"events": [json.loads(l) for l in x["lines"]], "failing_event": x["event"]})
    core.write_evidence(ctx, "model_checking",
        rule="behaviours = every Pivot action sequence up to the BFS depth (register/connect/reconnect incl. self and ancestors/disconnect/death by exit, kill date and operator mark over 4 agents) plus seeded random walks of depth 14; each replayed with real Demon packets and operator events on a fresh teamserver; the forest is projected from Parent pointers, Links lists and an independent SQL read of TS_Links after every step; non-trivial = histories with at least one link operation",
        samples=summ["samples"], evaluations=summ["behaviours"],
        distinct_nontrivial=len({core.behaviour_hash(b) for b in behs if any(s["op"] != "Register" for s in b)}),
        exhaustive=False, extra={"counters": summ["counters"], "bfs_behaviours": len(bfs)},
        assumptions=["agent ids below 2^31 (ids with the top bit set are exercised by C08/C10)"])

def _where(detail):
    import re
    m = re.findall(r"Havoc/[\w/]+\.\(?\*?\w*\)?\.?(\w+)\(", detail or "")
    return m[0] if m else ""

def _shape(ev):
    """abstract precondition of a failing step: how many links the agent had, self/ancestor naming"""
    return ev.get("ev", "")
