"""C20 — rewriting a configuration file never damages it (yaotl/WriteEdit.tla)"""
import json, random
from vlib import core

def run(ctx):
    quick = ctx.tier == "quick"
    core.design_check(ctx, "WriteEdit_Docs.tla", "WriteEdit_MC.cfg", timeout=1500)
    behs = core.generate(ctx, "WriteEdit_Docs.tla", "Gen_WriteEdit_2.cfg", 0, 0, ctx.seed, bfs=True, timeout=2500)      # every sequence of two edits
    if not quick:
        # longer sequences by seeded walks (every sequence of three would be millions with the layouts)
        behs += core.generate(ctx, "WriteEdit_Docs.tla", "Gen_WriteEdit_3.cfg", 5000, 3, ctx.seed, timeout=2500)
        behs += core.generate(ctx, "WriteEdit_Docs.tla", "Gen_WriteEdit_5.cfg", 2500, 5, ctx.seed, timeout=2500)
    total = len(behs)
    cap = 20000 if quick else 160000
    if len(behs) > cap:
        behs = random.Random(ctx.seed).sample(behs, cap)
    # every history of three (thorough: four) edits on the smallest files: item lists that become empty and are filled again
    small = core.generate(ctx, "WriteEdit_Docs.tla", "Gen_WriteEdit_small3.cfg" if quick else "Gen_WriteEdit_small4.cfg", 0, 0, ctx.seed, bfs=True, timeout=2500)
    behs += small; total += len(small)
    ctx.say("  behaviours: %d of %d (every sequence of %d edits (thorough: plus seeded walks of 3 and 5 edits) on each of 9 files in 20 file / layout combinations, plus every history of %d edits on the three smallest files; each file rendered with seeded odd spacing, tabs, blank lines)" % (len(behs), total, 2, 3 if quick else 4))
    hb = core.build_harness(ctx)
    trace, summ = core.run_harness(ctx, hb, "writeedit", behs, "writeedit", timeout=2500)
    for inc in summ["incidents"]:
        core.report(ctx, {"check": "replay", "kind": inc["kind"], "site": inc["site"][:60], "where": (inc["detail"].split("\n") + [""])[0][:100]}, inc)
    v = core.validate_traces(ctx, "Trace_WriteEdit.tla", "Trace_WriteEdit_strict.cfg", "Trace_WriteEdit_mon.cfg", trace, "writeedit", timeout=2500, collect_cfg="Trace_WriteEdit_collect.cfg")
    for x in v["violations"]:
        if x["invariant"] == "MonNoCrash" and any(json.loads(l).get("crashed") for l in x["lines"]):
            continue
        evs = [json.loads(l) for l in x["lines"]]
        ev = evs[x["event"] - 1] if 0 < x["event"] <= len(evs) else evs[-1]
        failing = sorted(k for k, val in ev.get("m", {}).items() if val is False) if x["invariant"] in ("MonLoad", "MonFormat") else []
        lay = evs[1].get("o", {}).get("lay", "") if len(evs) > 1 else ""
        # was the item this edit set or appended glued to the end of an existing line (instead of starting a line of its own)?
        o, glued = ev.get("o", {}), False
        tok = o.get("name") if o.get("op") in ("SetAttr", "SetAttrRaw") else o.get("type") if o.get("op") == "AppendBlock" else None
        if tok:
            import re
            for ln in (ev.get("text") or "").replace("\r", "").split("\n"):
                if re.search(r"\S.*[ \t{}\"]" + re.escape(tok) + r"\s*(=|\{|\")", ln):
                    glued = True
        why = "output-does-not-parse" if ev.get("parse_error") else ""
        core.report(ctx, {"check": "Mon_WriteEdit", "invariant": x["invariant"], "op": ev.get("o", {}).get("op"), "failing": failing, "lay": lay, "why": why, "glued": glued},
                    {"events": [{k: e.get(k) for k in ("ev", "o", "doc", "m", "text", "parse_error")} for e in evs], "failing_event": x["event"]})
    core.write_evidence(ctx, "model_checking",
        rule="behaviours = every sequence of N edits (set an existing / new attribute to a number, string, list or traversal; remove an attribute; append a block with / without label; remove a block; format) at the top level or inside a block, on each of 6 files (lead / line / standalone comments in three styles, heredoc, multi-line list, template, nested and labelled blocks, empty file); each file rendered with seeded odd spacing, tabs and blank lines; after loading and after every edit the output is re-read into the abstract body and measured (token stream = input modulo tabs, formatting blank-only / idempotent / same tree / same values, serialised bytes = formatted token stream); non-trivial = behaviours",
        samples=summ["samples"], evaluations=summ["behaviours"], distinct_nontrivial=len(behs), exhaustive=quick is False and len(behs) < 80000 or quick,
        extra={"counters": summ["counters"]},
        assumptions=["the renderer (abstract body -> text) and the reader (text -> abstract body: lead comments are the comment lines directly above an item, a line comment follows it on its last line) are trusted base (drive/writeedit.go)",
                     "expression texts and comments come from small fixed tables; source files are 6 shapes x seeded layouts, not all source texts"])
