"""C04 — every queued task is delivered exactly once, in order, in bounded batches (JobQueue.tla)"""
import json, os
from vlib import core

def run(ctx):
    quick = ctx.tier == "quick"
    # 1. the design: exhaustive TLC
    core.design_check(ctx, "JobQueue.tla", "JobQueue_quick.cfg" if quick else "JobQueue.cfg", timeout=1500)
    # 2. behaviours from the specification
    behs = core.generate(ctx, "Gen_JobQueue.tla", "Gen_JobQueue_bfs.cfg", 0, 0, ctx.seed, bfs=True, timeout=600)
    walks = core.generate(ctx, "Gen_JobQueue.tla", "Gen_JobQueue.cfg", 40 if quick else 600, 8, ctx.seed, timeout=600)
    ctx.say("  behaviours: %d bounded-exhaustive (depth 2) + %d random walks (depth 8)" % (len(behs), len(walks)))
    allb = behs + walks
    # 3. replay into the real code
    hb = core.build_harness(ctx)
    trace, summ = core.run_harness(ctx, hb, "jobqueue", allb, "seq", timeout=1500)
    for inc in summ["incidents"]:
        core.report(ctx, {"check": "replay", "kind": inc["kind"], "site": inc["site"], "detail": inc["detail"][:200]}, inc)
    # 5. TLC validates what the code did
    v = core.validate_traces(ctx, "Trace_JobQueue.tla", "Trace_JobQueue_strict.cfg", "Trace_JobQueue_mon.cfg", trace, "seq")
    for x in v["violations"]:
        ev = json.loads(x["lines"][x["event"] - 1]) if 0 < x["event"] <= len(x["lines"]) else {}
        core.report(ctx, {"check": "Mon_JobQueue", "invariant": x["invariant"], "op": ev.get("ev", "?")},
                    {"events": [json.loads(l) for l in x["lines"]], "failing_event": x["event"]})
    # 5b. the agent behind an SMB pivot: its tasks wait, wrapped, in the first hop's queue; same rules, sizes of the wrapped jobs
    pw = core.generate(ctx, "Gen_JobQueue.tla", "Gen_JobQueue_pivot.cfg", 40 if quick else 600, 8, ctx.seed, timeout=600)
    ptrace, psumm = core.run_harness(ctx, hb, "jobqueue", pw, "pivot", timeout=1500, mode="pivot")
    for inc in psumm["incidents"]:
        core.report(ctx, {"check": "replay-pivot", "kind": inc["kind"], "site": inc["site"], "detail": inc["detail"][:200]}, inc)
    pv = core.validate_traces(ctx, "Trace_JobQueue.tla", "Trace_JobQueue_pivot_strict.cfg", "Trace_JobQueue_pivot_mon.cfg", ptrace, "pivot")
    for x in pv["violations"]:
        ev = json.loads(x["lines"][x["event"] - 1]) if 0 < x["event"] <= len(x["lines"]) else {}
        core.report(ctx, {"check": "Mon_JobQueue", "invariant": x["invariant"], "op": ev.get("ev", "?"), "pivot": True},
                    {"events": [json.loads(l) for l in x["lines"]], "failing_event": x["event"]})
    # 6. schedules: concurrent producers against the agent's check-ins on the real queue (JobQueueConc.tla)
    core.design_check(ctx, "JobQueueConc.tla", "JobQueueConc.cfg", timeout=900)
    runs = [[{"op": "Run", "producers": p, "per": (1500 if quick else 3000)}] for p in ([2, 4, 8, 8] if quick else [2, 3, 4, 6, 8, 8, 12, 16] * 2)]
    ctrace, csumm = core.run_harness(ctx, hb, "jobconc", runs, "jobconc", shards=min(4, len(runs)), timeout=1500)
    for inc in csumm["incidents"]:
        core.report(ctx, {"check": "replay-concurrent", "kind": inc["kind"], "site": inc["site"]}, inc)
    cv = core.validate_traces(ctx, "Trace_JobQueueConc.tla", "Trace_JobQueueConc_strict.cfg", "Trace_JobQueueConc_mon.cfg", ctrace, "jobconc", timeout=3000, max_viol=4)
    for x in cv["violations"]:
        if x["invariant"] == "MonNoCrash":
            continue
        ev = [json.loads(l) for l in x["lines"]][-1]
        core.report(ctx, {"check": "Mon_JobQueueConc", "invariant": x["invariant"]},
                    {"producers": ev["producers"], "per_producer": ev["per"], "added": ev["producers"] * ev["per"], "delivered": len(ev["got"]), "distinct_delivered": len({tuple(t) for t in ev["got"]})})
    distinct = len({core.behaviour_hash(b) for b in allb})
    core.write_evidence(ctx, "model_checking",
        rule="behaviours = every JobQueue action sequence of length 2 (BFS) plus seeded random walks of length 8 from TLC -simulate, each replayed on a fresh real teamserver and drained; distinct = distinct histories; non-trivial = contains a check-in that delivered a task",
        samples=summ["samples"], evaluations=summ["behaviours"], distinct_nontrivial=min(distinct, summ["counters"].get("delivered", 0)),
        exhaustive=False,
        assumptions=["refdemon (independent decoder written from the Demon sources) is the byte-level oracle",
                     "relay-style producers are represented by direct AddJobToQueue calls with socket-write shaped jobs"],
        extra={"counters": summ["counters"], "events": summ["events"], "bounded_exhaustive_depth": 2, "concurrent_runs": csumm["counters"], "pivot_walks": psumm["counters"]})
