"""C15 — the SOCKS5 and port-forward relays speak the protocol and move bytes intact (Socks.tla, SocksTable.tla)"""
import json
from vlib import core

def run(ctx):
    quick = ctx.tier == "quick"
    core.design_check(ctx, "Socks.tla", "Socks.cfg", timeout=900)
    if quick:
        d = ctx.specdir("gen_socks")
        res = core.tlc(ctx, d, "Gen_Socks.tla", "Gen_Socks_sample.cfg", timeout=900, extra=["-seed", str(ctx.seed)])
        behs = res.behaviours + core.generate(ctx, "Gen_Socks.tla", "Gen_Socks_core.cfg", 0, 0, ctx.seed, bfs=True, timeout=900)
    else:
        behs = core.generate(ctx, "Gen_Socks.tla", "Gen_Socks_all.cfg", 0, 0, ctx.seed, bfs=True, timeout=1800)
    slow = core.generate(ctx, "Gen_Socks.tla", "Gen_Socks_slow.cfg", 0, 0, ctx.seed, bfs=True, timeout=900)      # a pause of 6 s in the middle of a connection's life
    if quick:
        import random
        random.Random(ctx.seed).shuffle(slow); slow = slow[:32]
    behs += slow
    ctx.say("  scenarios: %d behaviours, %d of them with a pause (client stream x segmentation x truncation x agent answer, each to its end)" % (len(behs), len(slow)))
    hb = core.build_harness(ctx)
    trace, summ = core.run_harness(ctx, hb, "socks", behs, "socks", timeout=900 if quick else 3000)
    for inc in summ["incidents"]:
        core.report(ctx, {"check": "replay", "kind": inc["kind"], "site": inc["site"]}, inc)
    v = core.validate_traces(ctx, "Trace_Socks.tla", "Trace_Socks_strict.cfg", "Trace_Socks_mon.cfg", trace, "socks", timeout=3000)
    for x in v["violations"]:
        evs = [json.loads(l) for l in x["lines"]]
        ev = evs[x["event"] - 1] if 0 < x["event"] <= len(evs) else {}
        sc = evs[0].get("sc", {})
        what = ""
        obs = ev.get("res", {})
        for lab in obs.get("toClient", []) + obs.get("toAgent", []):
            if lab.startswith("?"): what = lab.split(":")[0]
        core.report(ctx, {"check": "Mon_Socks", "invariant": x["invariant"], "op": ev.get("ev", "?"), "seg": sc.get("seg") if ev.get("ev") == "Handshake" else "", "atyp": sc.get("atyp") if ev.get("ev") == "Handshake" else "", "what": what},
                    {"events": evs, "failing_event": x["event"]})
    return behs, summ

def main_evidence(ctx, behs, summ, extra=None):
    core.write_evidence(ctx, "model_checking",
        rule="scenarios = method list (6) x command (3) x address type (1,3,4,invalid) x domain length (0,1,255) x where the client's stream ends (5) x segmentation (separate, pipelined, address split, byte-wise) x agent answer (6); each runs over real loopback TCP against a proxy started by the operator command, the reference Demon plays the agent (connect task decoded, connect result, read/close callbacks); relayed data: 10 B, 70 000 B, 5 B up and 1000 B, 50 000 B down; non-trivial = scenarios replayed",
        samples=summ["samples"], evaluations=summ["behaviours"], distinct_nontrivial=len(behs), exhaustive=(ctx.tier != "quick"),
        extra=dict({"counters": summ["counters"]}, **(extra or {})),
        assumptions=["segment boundaries are produced with TCP_NODELAY and 25 ms gaps on loopback", "SOCKS version 5 greetings only"])

def _table(ctx, hb, quick):
    """the proxy table under operator commands (SocksTable.tla)"""
    core.design_check(ctx, "SocksTable.tla", "SocksTable.cfg", timeout=600)
    tb = core.generate(ctx, "Gen_SocksTable.tla", "Gen_SocksTable_bfs.cfg", 0, 0, ctx.seed, bfs=True, timeout=600)
    if quick:
        import random
        random.Random(ctx.seed).shuffle(tb); tb = tb[:250]
    tb += core.generate(ctx, "Gen_SocksTable.tla", "Gen_SocksTable.cfg", 40 if quick else 800, 10, ctx.seed, timeout=600)
    trace, ts = core.run_harness(ctx, hb, "sockstable", tb, "sockstable", timeout=3000)
    for inc in ts["incidents"]:
        core.report(ctx, {"check": "replay", "kind": inc["kind"], "site": inc["site"]}, inc)
    v = core.validate_traces(ctx, "Trace_SocksTable.tla", "Trace_SocksTable_strict.cfg", "Trace_SocksTable_mon.cfg", trace, "sockstable", timeout=3000)
    for x in v["violations"]:
        evs = [json.loads(l) for l in x["lines"]]
        ev = evs[x["event"] - 1] if 0 < x["event"] <= len(evs) else {}
        core.report(ctx, {"check": "Mon_SocksTable", "invariant": x["invariant"], "op": ev.get("ev", "?")}, {"events": evs, "failing_event": x["event"]})
    return tb, ts

def _portfwd(ctx, hb, quick):
    """the reverse port forward relay (PortFwd.tla): agent <-> target, both directions, closes from either side;
    once as the code runs by itself (the reader goroutine acts at once), once with the reader held at its hook point so
    that TLC's interleavings of its turns with callbacks, check-ins and the target are the schedule"""
    import random
    core.design_check(ctx, "PortFwd.tla", "PortFwd.cfg", timeout=900)
    allb, summ = [], {"behaviours": 0, "counters": {}}
    for mode, bfs_cfg, walk_cfg in (("", "Gen_PortFwd_bfs.cfg", "Gen_PortFwd.cfg"), ("gated", "Gen_PortFwd_gated_bfs.cfg", "Gen_PortFwd_gated.cfg")):
        pb = core.generate(ctx, "Gen_PortFwd.tla", bfs_cfg, 0, 0, ctx.seed, bfs=True, timeout=600)
        if quick:
            random.Random(ctx.seed).shuffle(pb); pb = pb[:240]
        pb += core.generate(ctx, "Gen_PortFwd.tla", walk_cfg, 120 if quick else 1500, 60, ctx.seed, timeout=600)
        ctx.say("  port forward histories (%s): %d" % (mode or "free-running reader", len(pb)))
        name = "portfwd" + mode
        trace, ps = core.run_harness(ctx, hb, "portfwd", pb, name, timeout=3000, mode=mode)
        for inc in ps["incidents"]:
            core.report(ctx, {"check": "replay", "kind": inc["kind"], "site": inc["site"]}, inc)
        v = core.validate_traces(ctx, "Trace_PortFwd.tla", "Trace_PortFwd_strict.cfg", "Trace_PortFwd_mon.cfg", trace, name, timeout=3000)
        for x in v["violations"]:
            evs = [json.loads(l) for l in x["lines"]]
            ev = evs[x["event"] - 1] if 0 < x["event"] <= len(evs) else {}
            prev = [e.get("ev") for e in evs[max(0, x["event"] - 3):x["event"] - 1]]
            core.report(ctx, {"check": "Mon_PortFwd", "invariant": x["invariant"], "op": ev.get("ev", "?"), "after": prev[-1] if prev else "", "gated": mode == "gated"}, {"events": evs, "failing_event": x["event"]})
        allb += pb
        summ["behaviours"] += ps["behaviours"]
        for k, n in ps["counters"].items():
            summ["counters"][(mode or "free") + "." + k] = n
    return allb, summ

_run = run
def run(ctx):
    import os
    quick = ctx.tier == "quick"
    only = os.environ.get("VERIF_ONLY", "")          # development aid: one part of the check
    hb = core.build_harness(ctx)
    behs, summ = _run(ctx) if only in ("", "socks") else ([], {"behaviours": 0, "samples": [], "counters": {}})
    tb, ts = _table(ctx, hb, quick) if only in ("", "table") else ([], {"behaviours": 0, "counters": {}})
    pb, ps = _portfwd(ctx, hb, quick) if only in ("", "portfwd") else ([], {"behaviours": 0, "counters": {}})
    summ["behaviours"] += ts["behaviours"] + ps["behaviours"]
    if only:
        ctx.say("  VERIF_ONLY=%s: evidence not written" % only)
        return
    main_evidence(ctx, behs + tb + pb, summ, {"table_counters": ts["counters"], "portfwd_counters": ps["counters"]})
