"""C16 — listener and service registries never hold duplicates or leftovers (Registry.tla)"""
import json
from vlib import core

def run_registry(ctx, mon_cfg, nl, ns):
    core.design_check(ctx, "Registry.tla", "Registry.cfg", timeout=1500)
    lsn = core.generate(ctx, "Gen_Registry.tla", "Gen_Registry_Lsn.cfg", nl, 9, ctx.seed, timeout=900) if nl > 0 else []
    svc = core.generate(ctx, "Gen_Registry.tla", "Gen_Registry_Svc.cfg", ns, 9, ctx.seed, timeout=900)
    if nl > 0:
        import random
        ed = core.generate(ctx, "Gen_Registry.tla", "Gen_Registry_Edit.cfg", 0, 0, ctx.seed, bfs=True, timeout=900)
        random.Random(ctx.seed).shuffle(ed)
        lsn += ed[:nl * 3]
    svc += core.generate(ctx, "Gen_Registry.tla", "Gen_Registry_Dup.cfg", 0, 0, ctx.seed, bfs=True, timeout=900)
    svc += core.generate(ctx, "Gen_Registry.tla", "Gen_Registry_Churn.cfg", 0, 0, ctx.seed, bfs=True, timeout=900)
    svc += core.generate(ctx, "Gen_Registry.tla", "Gen_Registry_Together.cfg", 0, 0, ctx.seed, bfs=True, timeout=900) * (4 if ctx.tier == "quick" else 16)      # connections cut at the same moment
    if nl > 0:
        lsn += core.generate(ctx, "Gen_Registry.tla", "Gen_Registry_Restart.cfg", 0, 0, ctx.seed, bfs=True, timeout=900)      # listeners across restarts
        lsn += core.generate(ctx, "Gen_Registry.tla", "Gen_Registry_Shared.cfg", 0, 0, ctx.seed, bfs=True, timeout=900)      # two External listeners on one endpoint
    ctx.say("  behaviours: %d listener walks (<= 2 HTTP listeners each) + %d service-connection walks" % (len(lsn), len(svc)))
    behs = lsn + svc
    hb = core.build_harness(ctx)
    trace, summ = core.run_harness(ctx, hb, "registry", behs, "registry", timeout=3000)
    for inc in summ["incidents"]:
        core.report(ctx, {"check": "replay", "kind": inc["kind"], "site": inc["site"], "where": _where(inc["detail"])}, inc)
    v = core.validate_traces(ctx, "Trace_Registry.tla", "Trace_Registry_strict.cfg", mon_cfg, trace, "registry", timeout=3000)
    for x in v["violations"]:
        evs = [json.loads(l) for l in x["lines"]]
        ev = evs[x["event"] - 1] if 0 < x["event"] <= len(evs) else {}
        core.report(ctx, {"check": "Mon_Registry", "invariant": x["invariant"], "op": ev.get("ev", "?"), "b": str(ev.get("b", "")).split(":")[0]},
                    {"events": evs, "failing_event": x["event"]})
    return behs, summ

def run_restart_family(ctx, hb, tag="regrestart"):
    """listeners across a real restart (Registry.tla Restart): the running set, the stored set and every restored listener's configuration"""
    behs = core.generate(ctx, "Gen_Registry.tla", "Gen_Registry_Restart.cfg", 0, 0, ctx.seed, bfs=True, timeout=900)
    trace, summ = core.run_harness(ctx, hb, "registry", behs, tag, timeout=3000)
    for inc in summ["incidents"]:
        core.report(ctx, {"check": "replay-restart", "kind": inc["kind"], "site": inc["site"], "where": _where(inc["detail"])}, inc)
    v = core.validate_traces(ctx, "Trace_Registry.tla", "Trace_Registry_strict.cfg", "Trace_Registry_mon16.cfg", trace, tag, timeout=3000)
    for x in v["violations"]:
        evs = [json.loads(l) for l in x["lines"]]
        ev = evs[x["event"] - 1] if 0 < x["event"] <= len(evs) else {}
        core.report(ctx, {"check": "Mon_Registry", "invariant": x["invariant"], "op": ev.get("ev", "?"), "b": str(ev.get("b", "")).split(":")[0]},
                    {"events": evs, "failing_event": x["event"]})
    return behs, summ

def _where(detail):
    import re
    m = re.findall(r"Havoc/[\w/]+\.\(?\*?\w*\)?\.?(\w+)\(", detail or "")
    return m[0] if m else ""

def run(ctx):
    quick = ctx.tier == "quick"
    behs, summ = run_registry(ctx, "Trace_Registry_mon16.cfg", 40 if quick else 300, 120 if quick else 2000)
    core.write_evidence(ctx, "model_checking",
        rule="behaviours = seeded TLC walks of 9 steps: (a) listener walks over add (HTTP on free loopback ports, HTTP on an occupied port, SMB, External), duplicate and unknown names, remove, edit, serve with the old/new user agent; (b) service walks over connect (good/bad password), register agent type / listener type / external-C2 endpoint, start a listener of a service-defined type, disconnect in every order; after every step the running list, TS_Listeners, the retained add-events, TCP connectability of every HTTP port, the service agent/listener lists and the endpoint table are read; non-trivial = distinct histories",
        samples=summ["samples"], evaluations=summ["behaviours"], distinct_nontrivial=len({core.behaviour_hash(b) for b in behs}),
        extra={"counters": summ["counters"]},
        assumptions=["each HTTP Stop() costs 5 s by construction of the code, so listener walks hold at most two HTTP listeners", "ports are loopback ports found free at run time"])
