"""C12 — an HTTP listener serves only requests that match its profile (HttpListener.tla)"""
import json, random
from vlib import core

def run(ctx):
    quick = ctx.tier == "quick"
    core.design_check(ctx, "HttpListener.tla", "HttpListener.cfg", timeout=1500)
    near = core.generate(ctx, "Gen_HttpListener.tla", "Gen_HttpListener_near.cfg", 0, 0, ctx.seed, bfs=True, timeout=900)
    rand = []
    for i in range(1 if quick else 12):
        d = ctx.specdir("gen_http_rand%d" % i)
        res = core.tlc(ctx, d, "Gen_HttpListener.tla", "Gen_HttpListener_rand.cfg", timeout=900, extra=["-seed", str(ctx.seed * 100 + i)])
        rand += res.behaviours
    ctx.say("  cells: %d near-admission (every configuration x matching request and every single deviation) + %d random cells of the full product (3.3M cells model-checked)" % (len(near), len(rand)))
    cells = near + rand
    hb = core.build_harness(ctx)
    trace, summ = core.run_harness(ctx, hb, "http", cells, "http", timeout=2400)
    for inc in summ["incidents"]:
        core.report(ctx, {"check": "replay", "kind": inc["kind"], "site": inc["site"]}, inc)
    v = core.validate_traces(ctx, "Trace_HttpListener.tla", "Trace_HttpListener_strict.cfg", "Trace_HttpListener_mon.cfg", trace, "http", timeout=2400)
    for x in v["violations"]:
        evs = [json.loads(l) for l in x["lines"]]
        cfg, req, res = evs[0]["cfg"], evs[0]["req"], evs[-1]["res"]
        detail = {"AnswersCarryHeaders": "resp=" + cfg["resp"], "AddressAttribution": "peer=%s redir=%s" % (req["peer"], cfg["redir"]),
                  "OnlyIfMatches": "multi=%s hMulti=%s plain=%s ua=%s method=%s" % (req["multi"], cfg["hMulti"], req["plain"], req["ua"], req["method"])}.get(x["invariant"], "")
        core.report(ctx, {"check": "Mon_HttpListener", "invariant": x["invariant"], "detail": detail}, {"events": evs, "failing_event": x["event"]})
    core.write_evidence(ctx, "model_checking",
        rule="cells = listener configuration features (URIs none/['']/one/two incl. a query, request headers plain/ignored-name/value containing ': '/entry without separator, user agent, redirector flag, response header none/plain/value containing ':') x request features (method, path, header presence/value/name case, multi-part value full/prefix/absent, ignored headers, user agent, IPv4/IPv6 peer, forwarded-for); TLC model-checks the full product; replayed: every configuration with the matching request and each single deviation, plus seeded random cells; each request carries a valid registration so admission is observable as a new session; non-trivial = cells replayed",
        samples=summ["samples"], evaluations=summ["behaviours"], distinct_nontrivial=len(cells), exhaustive=False,
        extra={"counters": summ["counters"], "cells_in_model": 3317760},
        assumptions=["requests are served in-process through the listener's own gin engine (RemoteAddr set by the harness); TLS and real sockets are not involved", "header values are compared case-insensitively by design of the code; value-case variants are not generated"])
