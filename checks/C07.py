"""C07 — loot stays inside the agent's loot folder and equals what was sent (Loot.tla)"""
import json
from vlib import core

def run(ctx):
    quick = ctx.tier == "quick"
    core.design_check(ctx, "Loot_MC.tla", "Loot.cfg" if quick else "Loot_deep.cfg", timeout=1500)
    names = core.generate(ctx, "Gen_Loot.tla", "Gen_Loot_names.cfg", 0, 0, ctx.seed, bfs=True, timeout=900)
    svc = core.generate(ctx, "Gen_Loot.tla", "Gen_Loot_svc.cfg", 0, 0, ctx.seed, bfs=True, timeout=900)
    walks = core.generate(ctx, "Gen_Loot.tla", "Gen_Loot.cfg", 150 if quick else 3000, 10, ctx.seed, timeout=900)
    walks += core.generate(ctx, "Gen_Loot.tla", "Gen_Loot_restart.cfg", 0, 0, ctx.seed, bfs=True, timeout=900)      # a restart in the middle
    ctx.say("  behaviours: %d names (complete alphabet, open/write/close) + %d service files + %d interleaving walks" % (len(names), len(svc), len(walks)))
    behs = names + svc + walks
    hb = core.build_harness(ctx)
    trace, summ = core.run_harness(ctx, hb, "loot", behs, "loot", timeout=2400)
    for inc in summ["incidents"]:
        core.report(ctx, {"check": "replay", "kind": inc["kind"], "site": inc["site"]}, inc)
    v = core.validate_traces(ctx, "Trace_Loot.tla", "Trace_Loot_strict.cfg", "Trace_Loot_mon.cfg", trace, "loot", timeout=2400)
    for x in v["violations"]:
        evs = [json.loads(l) for l in x["lines"]]
        ev = evs[x["event"] - 1] if 0 < x["event"] <= len(evs) else {}
        kind = "sibling-prefix" if any("Download_x" in str(o) or "Downloadx" in str(o) for o in ev.get("st", {}).get("other", [])) else "other"
        core.report(ctx, {"check": "Mon_Loot", "invariant": x["invariant"], "op": ev.get("ev", "?"), "kind": kind},
                    {"events": evs, "failing_event": x["event"]})
    core.write_evidence(ctx, "model_checking",
        rule="(1) every file name of <= 3 components over {.., ., empty, Download, Download_x, sub, f} (399 names, separators / and \\ chosen per joint by the seed, optional trailing NUL) through download open/write/write/close/stray write; (2) the same alphabet through the third-party service file path for both agents; (3) seeded interleavings of open/write/close/service-file over 2 agents x 2 file ids; after every step the whole scratch tree is listed and read back; non-trivial = distinct behaviours",
        samples=summ["samples"], evaluations=summ["behaviours"], distinct_nontrivial=len({core.behaviour_hash(b) for b in behs}),
        exhaustive=True, extra={"counters": summ["counters"], "names": len(names)},
        assumptions=["crafted third-party agent ids are not exercised (a failing log-file open ends in log.Fatal, which would take the harness down with it; see DESIGN.md)"])
