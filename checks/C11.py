"""C11 — operators get the full event stream in order; a dead one blocks nobody (Operators.tla, Stall.tla)"""
import json, random
from vlib import core
from checks.ops_common import run_ops

def run(ctx):
    quick = ctx.tier == "quick"
    behs, summ = run_ops(ctx, "C11", "Trace_Operators_mon11.cfg", lambda inc, pre_auth: not (pre_auth and inc["kind"] == "panic"))
    # ---- a connection that stays open but stops reading (Stall.tla)
    core.design_check(ctx, "Stall.tla", "Stall.cfg", timeout=600)
    sb = core.generate(ctx, "Gen_Stall.tla", "Gen_Stall.cfg", 0, 0, ctx.seed, bfs=True, timeout=600)
    sb = random.Random(ctx.seed).sample(sb, min(len(sb), 8 if quick else 64))
    ctx.say("  stall histories: %d (one operator stops reading; big broadcasts, an agent registration and a closing line follow)" % len(sb))
    hb = core.build_harness(ctx)
    strace, ssumm = core.run_harness(ctx, hb, "stall", sb, "stall", shards=min(8, len(sb)), timeout=2500)
    for inc in ssumm["incidents"]:
        core.report(ctx, {"check": "replay-stall", "kind": inc["kind"], "site": inc["site"]}, inc)
    sv = core.validate_traces(ctx, "Trace_Stall.tla", "Trace_Stall_strict.cfg", "Trace_Stall_mon.cfg", strace, "stall", timeout=600, max_viol=4)
    for x in sv["violations"]:
        evs = [json.loads(l) for l in x["lines"]]
        ev = evs[x["event"] - 1] if 0 < x["event"] <= len(evs) else evs[-1]
        core.report(ctx, {"check": "Mon_Stall", "invariant": x["invariant"], "op": ev.get("o", {}).get("op")},
                    {"history": [e.get("o") for e in evs if e.get("ev") == "Step"][:x["event"]], "observed": {k: v for k, v in ev.get("obs", {}).items()}})
    core.write_evidence(ctx, "model_checking",
        rule="behaviours = handshake matrices + seeded random walks of Operators.tla (connect, first message of 11 kinds, chat, agent output, registration, listener add by server/operator, removal, clean close, transport cut racing a broadcast) replayed with real websocket clients against the real per-connection loop; every frame every socket received is labelled and compared; plus stall histories of Stall.tla: one of three authenticated operators stops reading (connection stays open, small receive buffer), then 3 MiB broadcasts, an agent registration and a closing line, each waited for up to 45 s; non-trivial = distinct histories",
        samples=summ["samples"], evaluations=summ["behaviours"] + ssumm["behaviours"], distinct_nontrivial=len({core.behaviour_hash(b) for b in behs}) + len(sb),
        extra={"counters": summ["counters"], "stall_counters": ssumm["counters"]},
        assumptions=["transport faults are connection resets and one kind of stall (a peer that never reads again)", "frame labelling in drive/operators.go"])
