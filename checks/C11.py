"""C11 — operators get the full event stream in order; a dead one blocks nobody (Operators.tla)"""
from vlib import core
from checks.ops_common import run_ops

def run(ctx):
    behs, summ = run_ops(ctx, "C11", "Trace_Operators_mon11.cfg", lambda inc, pre_auth: not (pre_auth and inc["kind"] == "panic"))
    core.write_evidence(ctx, "model_checking",
        rule="behaviours = handshake matrices + seeded random walks of Operators.tla (connect, first message of 11 kinds, chat, agent output, registration, listener add by server/operator, removal, clean close, transport cut racing a broadcast) replayed with real websocket clients against the real per-connection loop; every frame every socket received is labelled and compared; non-trivial = distinct histories",
        samples=summ["samples"], evaluations=summ["behaviours"], distinct_nontrivial=len({core.behaviour_hash(b) for b in behs}),
        extra={"counters": summ["counters"]},
        assumptions=["transport faults are connection resets; a stalled-but-open peer (full TCP window) is not produced", "frame labelling in drive/operators.go"])
