"""C01 — untrusted listener traffic can never crash or wedge the teamserver (Robust.tla)"""
import json, re
from vlib import core

def run(ctx):
    quick = ctx.tier == "quick"
    core.design_check(ctx, "Robust_small.tla", "Robust_small.cfg", timeout=1500)
    core_cells = core.generate(ctx, "Gen_Robust.tla", "Gen_Robust_core.cfg", 0, 0, ctx.seed, bfs=True, timeout=900)
    rand = []
    for i in range(1 if quick else 20):
        d = ctx.specdir("gen_rob%d" % i)
        rand += core.tlc(ctx, d, "Gen_Robust.tla", "Gen_Robust_rand.cfg", timeout=900, extra=["-seed", str(ctx.seed * 1000 + i)]).behaviours
    ctx.say("  cells: %d dispatcher cells (every command id x sub id x body shape, past the request-id gate) + %d random cells of the full product" % (len(core_cells), len(rand)))
    cells = core_cells + rand
    hb = core.build_harness(ctx)
    trace, summ = core.run_harness(ctx, hb, "robust", cells, "robust", timeout=3000)
    for inc in summ["incidents"]:
        site = inc["site"]
        m = re.search(r"cmd=(\d+) sub=(\d+) shape=(\S+)", site)
        where = _where(inc["detail"])
        core.report(ctx, {"check": "replay", "kind": inc["kind"], "where": where, "cmd": m.group(1) if m and where == "TaskDispatch" else "", "shape": m.group(3) if m and where == "TaskDispatch" else ""}, inc)
    v = core.validate_traces(ctx, "Trace_Robust.tla", "Trace_Robust_strict.cfg", "Trace_Robust_mon.cfg", trace, "robust", timeout=3000)
    for x in v["violations"]:
        evs = [json.loads(l) for l in x["lines"]]
        c = evs[0]["cell"]
        if x["invariant"] == "TerminatesCleanly":
            continue   # reported above with its stack
        core.report(ctx, {"check": "Mon_Robust", "invariant": x["invariant"], "first": c["first"], "agent": c["agent"], "magic": c["magic"], "hdr": c["hdr"]}, {"events": evs})
    # ---- histories: agent resource tables under well-formed callbacks with boundary values (Tables.tla)
    core.design_check(ctx, "Tables.tla", "Tables.cfg", timeout=900)
    hbehs = core.generate(ctx, "Gen_Tables.tla", "Gen_Tables_one.cfg" if quick else "Gen_Tables_two.cfg", 0, 0, ctx.seed, bfs=True, timeout=900)
    ctx.say("  histories: %d (shortest callback history to every reachable (download table, port-forward table, last callback))" % len(hbehs))
    ttrace, tsumm = core.run_harness(ctx, hb, "tables", hbehs, "tables", timeout=1500)
    for inc in tsumm["incidents"]:
        m = re.search(r"op=(\w+) history=\[(.*?)\]", inc["site"])
        core.report(ctx, {"check": "replay-history", "kind": inc["kind"], "where": _where(inc["detail"]) if inc["kind"] == "panic" else inc["detail"], "op": m.group(1) if m else "", "after": m.group(2) if m else ""}, inc)
    tv = core.validate_traces(ctx, "Trace_Tables.tla", "Trace_Tables_strict.cfg", "Trace_Tables_mon.cfg", ttrace, "tables", timeout=1500)
    for x in tv["violations"]:
        if x["invariant"] == "MonClean":
            continue   # reported above with its stack
        evs = [json.loads(l) for l in x["lines"]]
        core.report(ctx, {"check": "Mon_Tables", "invariant": x["invariant"], "ops": [e["o"]["op"] for e in evs if e.get("ev") == "Step"][:x["event"]]}, {"events": evs, "failing_event": x["event"]})
    # ---- simultaneous requests for one session: answered, and no session mutex left locked
    bursts = [[{"op": "Burst", "width": wd, "rounds": (1000 if quick else 8000), "queue": q}] for q in ("one", "none", "alternate") for wd in (16, 4)]
    btrace, bsumm = core.run_harness(ctx, hb, "burst", bursts, "burst", shards=3, timeout=1500)
    for inc in bsumm["incidents"]:
        core.report(ctx, {"check": "replay-burst", "kind": inc["kind"], "where": inc["detail"] if inc["kind"] == "lock-held" else "", "site": inc["site"]}, inc)
    bv = core.validate_traces(ctx, "Trace_Tables.tla", "Trace_Tables_strict.cfg", "Trace_Tables_mon.cfg", btrace, "burst", timeout=600, max_viol=3)
    # ---- requests under the magic value of an agent type a service has registered (ThirdParty.tla)
    core.design_check(ctx, "ThirdParty.tla", "ThirdParty.cfg", timeout=600)
    tp = core.generate(ctx, "Gen_ThirdParty.tla", "Gen_ThirdParty.cfg", 0, 0, ctx.seed, bfs=True, timeout=600)
    import random
    rnd = random.Random(ctx.seed); rnd.shuffle(tp)
    gu = [b for b in tp if any(s["op"] == "GiveUp" for s in b)][:16 if quick else 64]        # a silent service costs the handler's whole patience
    tp = [b for b in tp if not any(s["op"] == "GiveUp" for s in b)][:300 if quick else 4000] + gu
    tp += [[{"op": "SvcUp"}] + [{"op": "Burst", "n": 16}, {"op": "BurstAnswered"}] * 12 for _ in range(4 if quick else 16)]      # many bursts in a row
    ctx.say("  third-party histories: %d (%d with a service that never answers)" % (len(tp), len(gu)))
    ptrace, psumm = core.run_harness(ctx, hb, "thirdparty", tp, "thirdparty", timeout=2400)
    for inc in psumm["incidents"]:
        core.report(ctx, {"check": "replay-thirdparty", "kind": inc["kind"], "site": inc["site"][:120]}, inc)
    pv = core.validate_traces(ctx, "Trace_ThirdParty.tla", "Trace_ThirdParty_strict.cfg", "Trace_ThirdParty_mon.cfg", ptrace, "thirdparty", timeout=1500)
    for x in pv["violations"]:
        evs = [json.loads(l) for l in x["lines"]]
        ev = evs[x["event"] - 1] if 0 < x["event"] <= len(evs) else {}
        core.report(ctx, {"check": "Mon_ThirdParty", "invariant": x["invariant"], "op": ev.get("ev", "?"), "after": [e.get("ev") for e in evs[1:x["event"] - 1]][-2:]}, {"events": evs, "failing_event": x["event"]})
    core.write_evidence(ctx, "model_checking",
        rule="cells = state class (fresh / outstanding tasks / open download / two-hop pivot, each with and without a Service block) x packet class (header length 0..19, 20, full; Demon / foreign magic; known / unknown / zero / pivot-child agent id; first command init / get-job / callback / both; 34 command ids incl. unknown x 31 sub ids x 16 body shapes incl. truncations, odd UTF-16 lengths, 2^32-1 length prefixes, nested valid and invalid registrations, random bytes; right / wrong key; relayed 0..2 hops); every (command, sub, shape) cell goes past the request-id gate of a tasked agent, the rest is sampled; each request runs under a watchdog with panic capture, mutex probes and a full state diff; non-trivial = cells; plus histories = for every reachable state of the agent's download and port-forward tables (ids known/unknown, empty file, forward target up/down, dialled or not) every well-formed callback, replayed as the shortest history reaching it on a fresh agent with the same probes after every step; plus bursts = rounds of 4 / 16 simultaneous check-ins for one session (queue empty / one task / alternating), every request answered and every session mutex free afterwards; plus third-party histories = service up / down, requests under its magic value answered, left unanswered (handler patience 20 s), in flight when the service goes away, bursts of 16 at the same moment (12 in a row), each followed by a liveness probe",
        samples=summ["samples"], evaluations=summ["behaviours"] + tsumm["behaviours"], distinct_nontrivial=len(cells) + len(hbehs), exhaustive=False,
        extra={"counters": summ["counters"], "history_counters": tsumm["counters"], "histories": len(hbehs), "burst_counters": bsumm["counters"], "thirdparty_counters": psumm["counters"], "thirdparty_histories": len(tp)},
        assumptions=["the packet class partition stands for 'all request bodies' (plus random bytes inside the 'random' shape); HTTP(S) listeners share parseAgentRequest with the External endpoint used here", "third-party traffic: one registered agent type, the harness is the service; the service's own frames are well-formed"])

def _where(detail):
    m = re.findall(r"Havoc/[\w/]+\.(?:\(\*?\w+\)\.)?(\w+)\(", detail or "")
    return m[0] if m else ""
