"""C08 — tasks and callbacks for pivot agents are routed to the right session (Route.tla)"""
import json, random
from vlib import core

def run(ctx):
    quick = ctx.tier == "quick"
    core.design_check(ctx, "Route.tla", "Route.cfg", timeout=900)
    behs = core.generate(ctx, "Gen_Route.tla", "Gen_Route.cfg", 0, 0, ctx.seed, bfs=True, timeout=900)
    rehang = core.generate(ctx, "Gen_Route.tla", "Gen_Route_rehang.cfg", 0, 0, ctx.seed, bfs=True, timeout=900)      # the chain re-hung under the traffic
    life = core.generate(ctx, "Gen_Route.tla", "Gen_Route_life.cfg", 0, 0, ctx.seed, bfs=True, timeout=900)      # a hop re-keys, the teamserver restarts, a middle hop's queue is cleared
    # the BFS emits every (chain, id-class assignment, 3 routing steps); keep one behaviour per configuration
    rnd = random.Random(ctx.seed)
    byconf = {}
    for b in behs:
        k = json.dumps([b[0]["chain"], [b[0]["cls"][h] for h in b[0]["chain"]]])
        byconf.setdefault(k, []).append(b)
    confs = sorted(byconf)
    picked = [rnd.choice(byconf[k]) for k in confs]
    total_confs = len(picked)
    if quick:
        rnd.shuffle(picked); picked = picked[:400]
    rnd.shuffle(rehang)
    picked += rehang[:150 if quick else 2000]
    rnd.shuffle(life)
    picked += life[:120 if quick else 2000]
    ctx.say("  configurations: %d chains x id classes in the model, %d replayed (with %d histories in which the chain is re-hung under the traffic and %d of %d in which a hop re-keys and the teamserver restarts or a middle hop's queue is cleared)"
            % (total_confs, len(picked), min(len(rehang), 150 if quick else 2000), min(len(life), 120 if quick else 2000), len(life)))
    hb = core.build_harness(ctx)
    trace, summ = core.run_harness(ctx, hb, "route", picked, "route", timeout=2400)
    for inc in summ["incidents"]:
        core.report(ctx, {"check": "replay", "kind": inc["kind"], "site": inc["site"]}, inc)
    v = core.validate_traces(ctx, "Trace_Route.tla", "Trace_Route_strict.cfg", "Trace_Route_mon.cfg", trace, "route")
    for x in v["violations"]:
        evs = [json.loads(l) for l in x["lines"]]
        ev = evs[x["event"] - 1] if 0 < x["event"] <= len(evs) else {}
        cls = [evs[0]["cls"][h] for h in evs[0]["chain"]]
        core.report(ctx, {"check": "Mon_Route", "invariant": x["invariant"], "op": ev.get("ev", "?"),
                          "high_id_below_first_hop": any(c in ("topbit", "max") for c in cls[1:])},
                    {"events": evs, "failing_event": x["event"]})
    core.write_evidence(ctx, "model_checking",
        rule="configurations = every chain of 2..6 hops x id class per hop (one/small/topbit/max, singleton classes used once) enumerated by TLC; each replayed configuration builds the chain on a real teamserver with SMB-connect callbacks (plus a sibling), routes an operator task down (first hop's check-in is unwrapped layer by layer with each hop's own key by the reference Demon) and relays a callback up with the request id outstanding for a TLC-chosen owner; non-trivial = configurations (all have >= 1 pivot hop)",
        samples=summ["samples"], evaluations=summ["behaviours"], distinct_nontrivial=len(picked), exhaustive=(not quick),
        extra={"counters": summ["counters"], "configurations_in_model": total_confs},
        assumptions=["AES/byte-level codec fidelity is decided by the reference Demon (trusted base), the specification decides which frames nest how"])
