"""C13 — a generated payload is configured for exactly the chosen listener and options (ConfigLayout.tla, ShellSafe.tla)"""
import json
from vlib import core

def run(ctx):
    quick = ctx.tier == "quick"
    core.design_check(ctx, "ConfigLayout.tla", "ConfigLayout.cfg", timeout=1500)
    core.design_check(ctx, "ShellSafe.tla", "ShellSafe.cfg", timeout=300)
    if quick:
        d = ctx.specdir("gen_cfg")
        res = core.tlc(ctx, d, "Gen_ConfigLayout.tla", "Gen_ConfigLayout_sample.cfg", timeout=900, extra=["-seed", str(ctx.seed)])
        cells = res.behaviours
    else:
        # all 3.3M cells do not fit one run (the cell list, the harness input and the trace are held at once): 14 seeded samples
        cells, seen = [], set()
        for i in range(14):
            d = ctx.specdir("gen_cfg%d" % i)
            for b in core.tlc(ctx, d, "Gen_ConfigLayout.tla", "Gen_ConfigLayout_sample.cfg", timeout=900, extra=["-seed", str(ctx.seed * 100 + i)]).behaviours:
                k = json.dumps(b, sort_keys=True)
                if k not in seen:
                    seen.add(k); cells.append(b)
    ctx.say("  cells: %d (option cells with a fixed listener + listener cells with fixed options; 3.3M in the model)" % len(cells))
    hb = core.build_harness(ctx)
    trace, summ = core.run_harness(ctx, hb, "config", cells, "config", timeout=3000)
    for inc in summ["incidents"]:
        core.report(ctx, {"check": "replay", "kind": inc["kind"], "site": inc["site"]}, inc)
    v = core.validate_traces(ctx, "Trace_ConfigLayout.tla", "Trace_ConfigLayout_strict.cfg", "Trace_ConfigLayout_mon.cfg", trace, "config", timeout=3000)
    for x in v["violations"]:
        evs = [json.loads(l) for l in x["lines"]]
        opt, lst, res = evs[0]["opt"], evs[0]["lst"], evs[-1]["res"]
        detail = ""
        if x["invariant"] == "ConfigIsWhatWasChosen" and isinstance(res.get("o"), dict):
            if res["o"].get("gadget") is not None and opt["gadget"] == "jmp rax": detail = "gadget=jmp rax"
        if x["invariant"] == "UnencodableFails": detail = "hosts=%s wh=%s method=%s portconn=%s" % (lst["hosts"], lst["wh"], lst["method"], lst["portconn"])
        core.report(ctx, {"check": "Mon_ConfigLayout", "invariant": x["invariant"], "detail": detail}, {"events": evs, "failing_event": x["event"]})
    # ---- build strings as data: stub compiler/assembler record their argv
    trace2, summ2 = core.run_harness(ctx, hb, "config", [[{"op": "x"}]], "shell", shards=1, mode="shell", timeout=600)
    v2 = core.validate_traces(ctx, "Trace_ShellSafe.tla", "Trace_ShellSafe_strict.cfg", "Trace_ShellSafe_mon.cfg", trace2, "shell", timeout=600)
    for x in v2["violations"]:
        evs = [json.loads(l) for l in x["lines"]]
        core.report(ctx, {"check": "Mon_ShellSafe", "invariant": x["invariant"], "class": evs[0].get("cls", "?")}, {"events": evs})
    core.write_evidence(ctx, "model_checking",
        rule="cells = build-option combinations (sleep technique x jump gadget x stack duplication x proxy loading x alloc x execute x syscall x AMSI/ETW x sleep x jitter) with a fixed listener, and listener configurations (HTTP/SMB, host lists with/without ports incl. non-numeric and IPv6, port fallback, 0..2 headers, host header, 0..2 URIs, proxy, 10 working-hours strings, method, rotation, TLS, kill date, strings in ASCII / with a basic-plane character / with a character beyond it) with fixed options; each cell goes through the real PatchConfig and the block is read back field by field by a reader written from DemonConfig(); plus 10 service-name classes through a real Build() with stub compiler/assembler that record argv; non-trivial = cells",
        samples=(summ["samples"] + summ2["samples"])[:8], evaluations=summ["behaviours"] + summ2["behaviours"], distinct_nontrivial=len(cells) + summ2["behaviours"],
        exhaustive=False, extra={"counters": summ["counters"], "shell": summ2["samples"]},
        assumptions=["the real mingw/nasm toolchain is replaced by stubs; only the command line is observed", "numeric codes and field order are transcribed from payloads/Demon (Demon.c, SleepObf.h, Defines.h)"])
