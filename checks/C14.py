"""C14 — a profile file means what it says (Profile.tla)"""
import json
from vlib import core

def _atoms(o, acc):
    if isinstance(o, dict):
        if "a" in o and "s" in o:
            acc.add((o["a"], o["s"]))
        for v in o.values():
            _atoms(v, acc)
    elif isinstance(o, list):
        for v in o:
            _atoms(v, acc)

def run(ctx):
    quick = ctx.tier == "quick"
    core.design_check(ctx, "Profile_small.tla", "Profile_small.cfg", timeout=1500)
    sweep = core.generate(ctx, "Gen_Profile.tla", "Gen_Profile_sweep.cfg", 0, 0, ctx.seed, bfs=True, timeout=900)
    fault = core.generate(ctx, "Gen_Profile.tla", "Gen_Profile_fault.cfg", 0, 0, ctx.seed, bfs=True, timeout=900)
    rand = []
    for i in range(1 if quick else 12):
        d = ctx.specdir("gen_prof%d" % i)
        rand += core.tlc(ctx, d, "Gen_Profile.tla", "Gen_Profile_rand.cfg", timeout=900, extra=["-seed", str(ctx.seed * 1000 + i)]).behaviours
    ctx.say("  documents: %d spelling sweeps + %d single-fault / minimal documents over every block type + %d seeded random documents (half of them mutated)" % (len(sweep), len(fault), len(rand)))
    docs = sweep + fault + rand
    docs.sort(key=lambda b: 0 if '"cmb"' in json.dumps(b) else 1)   # the recorded finding's document first: its counterexample trace stays short
    hb = core.build_harness(ctx)
    trace, summ = core.run_harness(ctx, hb, "profile", docs, "profile", timeout=1500)
    for inc in summ["incidents"]:
        core.report(ctx, {"check": "replay", "kind": inc["kind"], "site": inc["site"], "where": (inc["detail"].split("\n") + [""])[0][:120]}, inc)
    v = core.validate_traces(ctx, "Trace_Profile.tla", "Trace_Profile_strict.cfg", "Trace_Profile_mon.cfg", trace, "profile", timeout=1500)
    for x in v["violations"]:
        if x["invariant"] == "MonNoCrash":
            continue
        evs = [json.loads(l) for l in x["lines"]]
        acc = set()
        _atoms([e.get("o") for e in evs if e.get("ev") == "Item"], acc)
        load = [e for e in evs if e.get("ev") == "Load"]
        sig = {"check": "Mon_Profile", "invariant": x["invariant"], "decomposed_unicode": any(a == "cmb" for a, _ in acc)}
        if x["invariant"] == "MonAcceptsValid" and load and load[-1]["obs"]["err"]:
            sig["why"] = "valid profile rejected"
        core.report(ctx, sig, {"profile": load[-1].get("src") if load else None, "observed": load[-1]["obs"] if load else None, "items": [e.get("o") for e in evs if e.get("ev") == "Item"]})
    core.write_evidence(ctx, "model_checking",
        rule="documents = (a) spelling sweeps: every ordered pair of string atoms x every legal spelling of each (raw, backslash escape, \\xHH, $${ / %%{) in quoted literals and heredocs, every atom alone and between letters, every accepted integer / flag spelling, lists and maps in every layout; (b) for every block type of the schema every single fault (each required attribute omitted, unknown attribute, attribute written as block and block as attribute, attribute set twice, every attribute with every non-convertible kind of value, each single block repeated, wrong label count) and the minimal valid document; (c) seeded random documents over the whole schema (random presence, order, repeated blocks, spellings, layouts, comments), half of them with one random mutation; each rendered to a file and loaded by the real profile loader; non-trivial = documents",
        samples=summ["samples"], evaluations=summ["behaviours"], distinct_nontrivial=len(docs), exhaustive=False,
        extra={"counters": summ["counters"]},
        assumptions=["the renderer (spelled value -> bytes) and the reader of loaded strings back into atoms are trusted base (drive/profile.go)", "string values are sequences over 25 atom classes, not all Unicode strings"])
