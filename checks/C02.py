"""C02 — an operator's task reaches the agent exactly as issued (TaskGrammar.tla)"""
import json
from vlib import core

def run(ctx):
    quick = ctx.tier == "quick"
    core.design_check(ctx, "TaskGrammar.tla", "TaskGrammar.cfg", timeout=900)
    single = core.generate(ctx, "Gen_TaskGrammar.tla", "Gen_TaskGrammar_single.cfg", 0, 0, ctx.seed, bfs=True, timeout=900)
    mix = []
    for i in range(1 if quick else 10):
        d = ctx.specdir("gen_tasks_mix%d" % i)
        mix += core.tlc(ctx, d, "Gen_TaskGrammar.tla", "Gen_TaskGrammar_mix.cfg", timeout=900, extra=["-seed", str(ctx.seed * 100 + i)]).behaviours
    ctx.say("  cells: %d single-task cells (every grammar row x value class x key class) + %d mixed batches of 2-3 tasks" % (len(single), len(mix)))
    # batches above what one check-in hands out (30 MB): delivered over several check-ins
    import random
    long = core.generate(ctx, "Gen_TaskGrammar.tla", "Gen_TaskGrammar_long.cfg", 0, 0, ctx.seed, bfs=True, timeout=900)
    random.Random(ctx.seed).shuffle(long)
    long = long[:8 if quick else 72]
    ctx.say("  long batches: %d (2-3 tasks with byte parameters of 8 MiB each)" % len(long))
    cells = single + mix + long
    hb = core.build_harness(ctx)
    trace, summ = core.run_harness(ctx, hb, "tasks", cells, "tasks", timeout=3000)
    for inc in summ["incidents"]:
        core.report(ctx, {"check": "replay", "kind": inc["kind"], "site": inc["site"]}, inc)
    v = core.validate_traces(ctx, "Trace_TaskGrammar.tla", "Trace_TaskGrammar_strict.cfg", "Trace_TaskGrammar_mon.cfg", trace, "tasks", timeout=3000)
    for x in v["violations"]:
        evs = [json.loads(l) for l in x["lines"]]
        rows = [t["row"] + "/" + t["pclass"] for t in evs[0]["batch"]]
        got = evs[-1]["res"]["tasks"]
        why = "missing-task" if len(got) < len(rows) else "value"
        core.report(ctx, {"check": "Mon_TaskGrammar", "invariant": x["invariant"], "rows": rows if len(rows) == 1 else "batch", "why": why}, {"events": evs, "failing_event": x["event"]})
    core.write_evidence(ctx, "model_checking",
        rule="cells = every row of the task grammar (74 command/sub-command rows transcribed from the Demon's Command.c) x 4 value classes (boundary integers incl. 2^31-1 / 2^31+1 / 2^32-1, empty / path / 70 000-character / non-ASCII+astral text, 0 / 37 / 200 000 byte blobs) x zero / non-zero session key, plus seeded mixed batches of 2-3 tasks, plus batches of 2-3 tasks with 8 MiB byte parameters that exceed what one check-in hands out (the agent checks in until nothing is left); the operator package goes through DispatchEvent -> TaskPrepare -> queue, the check-in reply is decoded by the reference Demon (per-task AES-CTR from the IV, little-endian framing, typed fields in handler order); non-trivial = cells",
        samples=summ["samples"], evaluations=summ["behaviours"], distinct_nontrivial=len(cells), exhaustive=False,
        extra={"counters": summ["counters"], "rows": 74},
        assumptions=["the operator-side encoding of each row (drive/tasks.go taskInfo) stands for the Qt client", "rows that need files on disk or staged memory files (dll inject/spawn, inline-execute, dotnet, upload) are not in the table; upload chunking is C04's"])
