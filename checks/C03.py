"""C03 — what an agent reports is what the teamserver records and shows (Wire.tla, Sessions.tla)"""
import json, random
from vlib import core

def run(ctx):
    quick = ctx.tier == "quick"
    hb = core.build_harness(ctx)
    # ---- (a) reader semantics: every (field list, residue, cut) case of the model on the real parser
    core.design_check(ctx, "Wire.tla", "Wire_quick.cfg" if quick else "Wire.cfg", timeout=1200)
    cases = core.generate(ctx, "Gen_Wire.tla", "Gen_Wire_quick.cfg" if quick else "Gen_Wire.cfg", 0, 0, ctx.seed, bfs=True, timeout=1200)
    ncases = len(cases)
    if quick:
        random.Random(ctx.seed).shuffle(cases); cases = cases[:6000]
    ctx.say("  reader cases: %d in the model, %d replayed on pkg/common/parser" % (ncases, len(cases)))
    trace, summ = core.run_harness(ctx, hb, "wire", cases, "wire", timeout=1800)
    for inc in summ["incidents"]:
        core.report(ctx, {"check": "replay", "kind": inc["kind"], "site": inc["site"]}, inc)
    v = core.validate_traces(ctx, "Trace_Wire.tla", "Trace_Wire_strict.cfg", "Trace_Wire_mon.cfg", trace, "wire", timeout=1800)
    for x in v["violations"]:
        evs = [json.loads(l) for l in x["lines"]]
        ev = evs[x["event"] - 1] if 0 < x["event"] <= len(evs) else {}
        sig = {"check": "Mon_Wire", "invariant": x["invariant"], "op": ev.get("ev", "?")}
        if ev.get("ev") == "Read":
            left = ev["res"].get("left")
            sig["what"] = "value" if not ev["res"].get("ok") else "cursor"
        core.report(ctx, sig, {"events": evs, "failing_event": x["event"]})
    wire_n = summ["behaviours"]; samples = summ["samples"]; counters = dict(summ["counters"])
    # ---- (b) session table histories
    core.design_check(ctx, "Sessions.tla", "Sessions.cfg", timeout=900)
    behs = core.generate(ctx, "Gen_Sessions.tla", "Gen_Sessions_bfs.cfg", 0, 0, ctx.seed, bfs=True, timeout=900)
    behs += core.generate(ctx, "Gen_Sessions.tla", "Gen_Sessions.cfg", 200 if quick else 4000, 8, ctx.seed, timeout=900)
    behs += core.generate(ctx, "Gen_Sessions.tla", "Gen_Sessions_restart.cfg", 150 if quick else 3000, 7, ctx.seed, timeout=900)      # a restart in the middle
    trace, summ = core.run_harness(ctx, hb, "sessions", behs, "sessions", timeout=1800)
    for inc in summ["incidents"]:
        core.report(ctx, {"check": "replay", "kind": inc["kind"], "site": inc["site"]}, inc)
    v = core.validate_traces(ctx, "Trace_Sessions.tla", "Trace_Sessions_strict.cfg", "Trace_Sessions_mon.cfg", trace, "sessions", timeout=1800)
    for x in v["violations"]:
        evs = [json.loads(l) for l in x["lines"]]
        ev = evs[x["event"] - 1] if 0 < x["event"] <= len(evs) else {}
        core.report(ctx, {"check": "Mon_Sessions", "invariant": x["invariant"], "op": ev.get("ev", "?"),
                          "header_zero": ev.get("h") == "zero", "inner_differs": ev.get("h") != ev.get("j")},
                    {"events": evs, "failing_event": x["event"]})
    for k, val in summ["counters"].items(): counters[k] = counters.get(k, 0) + val
    core.write_evidence(ctx, "model_checking",
        rule="(a) every (typed field list <= %d fields, residue 0..9, cut point) case of Wire.tla, values drawn per seed from boundary classes, encoded by the independent Demon-side encoder and read by the real parser; (b) all Sessions action sequences of length 2 plus seeded walks of length 8 (registration with header/inner id combinations incl. header id 0, re-registration, check-in, metadata refresh) replayed as real packets; non-trivial = reader cases with at least one field fully inside the cut + session histories" % (2 if quick else 3),
        samples=samples + summ["samples"], evaluations=wire_n + summ["behaviours"], distinct_nontrivial=counters.get("read", 0) + len({core.behaviour_hash(b) for b in behs}),
        exhaustive=(not quick), extra={"counters": counters, "reader_cases_in_model": ncases},
        assumptions=["the Demon-side encoder in harness/refdemon is the byte-level oracle", "console formatting is not compared here (values reach the session record; console text is covered for sleep/pivot by C05/C08 observations)"])
