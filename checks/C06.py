"""C06 — nothing is given to, or accepted from, an unauthenticated connection (Operators.tla, ServiceAuth.tla)"""
from vlib import core
from checks.ops_common import run_ops
from checks.C16 import run_registry

def run(ctx):
    behs, summ = run_ops(ctx, "C06", "Trace_Operators_mon06.cfg", lambda inc, pre_auth: pre_auth and inc["kind"] == "panic")
    quick = ctx.tier == "quick"
    sb, ss = run_registry(ctx, "Trace_Registry_mon06.cfg", 0 if quick else 40, 150 if quick else 2000)
    behs = behs + sb
    for k, v in ss["counters"].items(): summ["counters"]["svc." + k] = v
    summ["behaviours"] += ss["behaviours"]
    core.write_evidence(ctx, "model_checking",
        rule="behaviours = for every first-message kind (good, extra fields, wrong digest, clear-text password, unknown user, not JSON, no password, password not a string, no info, wrong event, wrong sub-event) every placement of chat/agent-output broadcasts and follow-up messages around the handshake, plus seeded random walks; real websocket clients; the service endpoint: seeded walks of connect (good/bad password), registrations sent before/without/after the password, disconnects; an unauthenticated socket may have received nothing but one error frame; non-trivial = distinct histories",
        samples=summ["samples"], evaluations=summ["behaviours"], distinct_nontrivial=len({core.behaviour_hash(b) for b in behs}),
        extra={"counters": summ["counters"]},
        assumptions=["panics of the per-connection goroutine are caught by the harness wrapper (in the real binary they end the process)"])
