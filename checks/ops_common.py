"""shared by C06 and C11: both are decided on Operators.tla with different monitors"""
import json
from vlib import core

def run_ops(ctx, prop, mon_cfg, mine):
    quick = ctx.tier == "quick"
    core.design_check(ctx, "Operators.tla", "Operators.cfg" if quick else "Operators_deep.cfg", timeout=1500)
    hs = core.generate(ctx, "Gen_Operators.tla", "Gen_Operators_hs.cfg", 0, 0, ctx.seed, bfs=True, timeout=900)
    hs += core.generate(ctx, "Gen_Operators.tla", "Gen_Operators_lsn.cfg", 0, 0, ctx.seed, bfs=True, timeout=900)
    hs += core.generate(ctx, "Gen_Operators.tla", "Gen_Operators_race.cfg", 0, 0, ctx.seed, bfs=True, timeout=900)
    walks = core.generate(ctx, "Gen_Operators.tla", "Gen_Operators.cfg", 120 if quick else 2500, 12, ctx.seed, timeout=900)
    ctx.say("  behaviours: %d handshake matrices (every first-message kind x broadcast timing) + %d random walks (12 steps)" % (len(hs), len(walks)))
    # bursts of refused strangers around authenticated operators
    burst = core.generate(ctx, "Gen_Operators.tla", "Gen_Operators_str.cfg", 0, 0, ctx.seed, bfs=True, timeout=900) * (1 if quick else 4)
    behs = hs + walks + burst
    hb = core.build_harness(ctx)
    trace, summ = core.run_harness(ctx, hb, "operators", behs, "ops", timeout=3000)
    for inc in summ["incidents"]:
        pre_auth = inc["site"].startswith("Auth:") or inc["site"].startswith("FollowUp")
        if inc["kind"] == "fatal":     # the process ended: both properties forbid that
            core.report(ctx, {"check": "replay", "kind": "fatal", "site": inc["site"][:120]}, inc)
        elif mine(inc, pre_auth):
            core.report(ctx, {"check": "replay", "kind": inc["kind"], "site": inc["site"] if pre_auth else inc["site"].split(":")[0], "where": _where(inc["detail"])}, inc)
    v = core.validate_traces(ctx, "Trace_Operators.tla", "Trace_Operators_strict.cfg", mon_cfg, trace, "ops", timeout=3000)
    for x in v["violations"]:
        evs = [json.loads(l) for l in x["lines"]]
        ev = evs[x["event"] - 1] if 0 < x["event"] <= len(evs) else {}
        core.report(ctx, {"check": "Mon_Operators", "invariant": x["invariant"], "op": ev.get("ev", "?"), "x": ev.get("x", "") if ev.get("ev") == "Auth" else ""},
                    {"events": evs, "failing_event": x["event"]})
    return behs, summ

def _where(detail):
    import re
    m = re.findall(r"Havoc/[\w/]+\.\(?\*?\w*\)?\.?(\w+)\(", detail or "")
    return m[0] if m else ""
