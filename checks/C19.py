"""C19 — equivalent configurations decode to the same result (yaotl/Rewrite.tla)"""
import json
from vlib import core

def run(ctx):
    quick = ctx.tier == "quick"
    core.design_check(ctx, "Rewrite_Cfgs.tla", "Rewrite_MC.cfg", timeout=1500)
    reps = core.generate(ctx, "Gen_Rewrite.tla", "Gen_Rewrite_3.cfg" if quick else "Gen_Rewrite_5.cfg", 0, 0, ctx.seed, bfs=True, timeout=2500)
    ctx.say("  representations: %d (every representation reachable from 14 base configurations by up to %d composed rewrites)" % (len(reps), 3 if quick else 5))
    hb = core.build_harness(ctx)
    trace, summ = core.run_harness(ctx, hb, "rewrite", reps, "rewrite", timeout=1500)
    for inc in summ["incidents"]:
        core.report(ctx, {"check": "replay", "kind": inc["kind"], "where": (inc["detail"].split("\n") + [""])[0][:100]}, inc)
    v = core.validate_traces(ctx, "Trace_Rewrite.tla", "Trace_Rewrite_strict.cfg", "Trace_Rewrite_mon.cfg", trace, "rewrite", timeout=1500, max_viol=12)
    for x in v["violations"]:
        if x["invariant"] == "MonNoCrash":
            continue
        ev = [json.loads(l) for l in x["lines"]][-1]
        bad = sorted(d for d, r in ev["res"].items() if r["err"]) if x["invariant"] == "MonValidityKept" else []
        core.report(ctx, {"check": "Mon_Rewrite", "invariant": x["invariant"], "config": ev["cid"], "rewrites": sorted({r["rw"] for r in ev["rws"]}), "failing": bad},
                    {"texts": ev["texts"], "res": ev["res"], "rws": ev["rws"]})
    core.write_evidence(ctx, "model_checking",
        rule="representations = every distinct (files x syntax x layout x items) reachable from each of 14 base configurations (8 valid, 6 invalid: required attribute missing in a block and at top level, wrong type, repeated single block, unknown attribute, unterminated template directive) by up to N composed rewrites (other syntax, item split into a new file, files merged, blocks replaced by a dynamic block and back, attributes reordered at top level and inside blocks, layout / comments / formatter); each rendered to files, parsed by the native or JSON parser, merged with MergeBodies, expanded with dynblock.Expand (before or after merging), decoded by hcldec.Decode and by gohcl.DecodeBody; non-trivial = representations",
        samples=summ["samples"], evaluations=summ["behaviours"], distinct_nontrivial=len(reps), exhaustive=True,
        extra={"counters": summ["counters"], "max_rewrites": 3 if quick else 5},
        assumptions=["one fixed schema (five attribute kinds, a repeated labelled block with an optional attribute and a nested single block, a single block with a required attribute); schemas are not generated",
                     "the renderers (representation -> native / JSON text) and the projections of cty values and Go structs are trusted base (drive/rewrite.go)"])
