"""C17 — the yaotl parsers accept any input without crashing and report sane positions (yaotl/ScanModes.tla)"""
import json, random
from vlib import core

def run(ctx):
    quick = ctx.tier == "quick"
    core.design_check(ctx, "ScanModes_MC.tla", "ScanModes_MC.cfg", timeout=1500)
    rng = random.Random(ctx.seed)
    seqs = core.generate(ctx, "Gen_ScanModes.tla", "Gen_ScanModes_bfs3.cfg" if quick else "Gen_ScanModes_bfs4.cfg", 0, 0, ctx.seed, bfs=True, timeout=1500)
    if quick:
        seqs = [b for b in seqs if rng.random() < 0.2]
    elif len(seqs) > 60000:
        seqs = rng.sample(seqs, 60000)
    walks = core.generate(ctx, "Gen_ScanModes.tla", "Gen_ScanModes_walk.cfg", 600 if quick else 6000, 15, ctx.seed, timeout=900)
    d = ctx.specdir("gen_scan_expr")
    exprs = core.tlc(ctx, d, "Gen_Expr.tla", "Gen_Expr_rand.cfg", timeout=900, extra=["-seed", str(ctx.seed * 1000 + 17)]).behaviours
    exprs += core.generate(ctx, "Gen_Expr.tla", "Gen_Expr_tmpl.cfg", 0, 0, ctx.seed, bfs=True, timeout=900)
    d = ctx.specdir("gen_scan_prof")
    docs = core.tlc(ctx, d, "Gen_Profile.tla", "Gen_Profile_rand.cfg", timeout=900, extra=["-seed", str(ctx.seed * 1000 + 17)]).behaviours
    fors = core.generate(ctx, "Gen_Expr.tla", "Gen_Expr_for.cfg", 0, 0, ctx.seed, bfs=True, timeout=900)     # tuple / object for expressions
    if quick:
        exprs = rng.sample(exprs, min(len(exprs), 850)) + rng.sample(fors, min(len(fors), 250)); docs = rng.sample(docs, min(len(docs), 250))
    else:
        exprs += fors
    jsons = [[{"json": i}] for i in range(300 if quick else 3000)]
    ctx.say("  inputs: %d token-kind sequences of the mode machine (all of length %d%s) + %d random walks, %d expression / template trees, %d profile documents, %d JSON documents; each as written and in %d seeded mutations (truncation, byte change, insertion, repetition, nesting, random bytes)"
            % (len(seqs), 3 if quick else 4, ", sampled" if quick else "", len(walks), len(exprs), len(docs), len(jsons), 3 if quick else 10))
    cells = seqs + walks + exprs + docs + jsons
    rng.shuffle(cells)
    hb = core.build_harness(ctx)
    trace, summ = core.run_harness(ctx, hb, "scan", cells, "scan", timeout=3000, mode=ctx.tier)
    for inc in summ["incidents"]:
        det = inc["detail"]
        frames = [l for l in det.split("\n") if "Havoc/pkg/profile/yaotl" in l and "(" in l]
        where = frames[0].strip().split("(")[0].split("/")[-1] if frames else det.split("\n")[0][:80]
        core.report(ctx, {"check": "replay", "kind": inc["kind"], "entry": inc["site"], "where": where}, inc)
    v = core.validate_traces(ctx, "Trace_Scan.tla", "Trace_Scan_strict.cfg", "Trace_Scan_mon.cfg", trace, "scan", timeout=3000, max_viol=6)
    for x in v["violations"]:
        if x["invariant"] == "MonNoCrash":
            continue
        evs = [json.loads(l) for l in x["lines"]]
        ev = evs[-1]
        bad = []
        for name, c in ev.get("calls", {}).items():
            bad.append(name)
        core.report(ctx, {"check": "Mon_Scan", "invariant": x["invariant"], "kind": ev.get("kind")}, {"input": ev.get("src"), "len": ev.get("len"), "calls": ev.get("calls")})
    core.write_evidence(ctx, "model_checking",
        rule="inputs = token-kind sequences produced by the scanner's mode machine (bounded-exhaustive and random walks, concretised with seeded lexemes), printed expression / template trees (C18's generator), rendered profile documents (C14's generator), random JSON documents, each as written and mutated (truncated, one byte changed, fragments inserted, slices repeated, nested up to depth %d, random bytes); every text goes through LexConfig, LexExpression, LexTemplate, ParseConfig, ParseExpression, ParseTemplate, ParseTraversalAbs and json.Parse under panic capture and a watchdog; inputs without error diagnostics are evaluated and decoded; TLC validates token streams against the mode machine and the lexing / range contracts; non-trivial = texts" % (150 if quick else 1500),
        samples=summ["samples"][:2], evaluations=summ["counters"].get("texts", 0), distinct_nontrivial=summ["counters"].get("texts", 0), exhaustive=False,
        extra={"counters": summ["counters"]},
        assumptions=["coverage is what the generated and mutated inputs reach: this is exploration of an input space driven and judged by the specification, not model checking of the parser",
                     "records of inputs longer than 4096 bytes (deep nesting) are judged by the harness probes (panic, hang, time) only"])
