"""C18 — yaotl expressions and templates evaluate as the language defines (yaotl/Expr.tla)"""
import json, random
from vlib import core

def _kinds(n, acc):
    if isinstance(n, dict):
        if "k" in n:
            acc.add(n["k"] + (":" + n["op"] if n.get("k") in ("bin", "un") else ""))
        for v in n.values():
            _kinds(v, acc)
    elif isinstance(n, list):
        for v in n:
            _kinds(v, acc)

def run(ctx):
    quick = ctx.tier == "quick"
    core.design_check(ctx, "Gen_Expr.tla", "Expr_laws.cfg", timeout=900)
    fams = {}
    for fam in ("flat", "prec", "for", "tmpl", "flush"):
        fams[fam] = core.generate(ctx, "Gen_Expr.tla", "Gen_Expr_%s.cfg" % fam, 0, 0, ctx.seed, bfs=True, timeout=900)
    rand = []
    for i in range(1 if quick else 10):
        d = ctx.specdir("gen_expr%d" % i)
        rand += core.tlc(ctx, d, "Gen_Expr.tla", "Gen_Expr_rand.cfg", timeout=900, extra=["-seed", str(ctx.seed * 1000 + i)]).behaviours
    if quick:   # every operator/leaf pair is kept in thorough; quick keeps a seeded third of the flat family
        rng = random.Random(ctx.seed)
        fams["flat"] = [b for b in fams["flat"] if rng.random() < 0.34]
        fams["flush"] = [b for b in fams["flush"] if rng.random() < 0.15]
    ctx.say("  trees: " + ", ".join("%d %s" % (len(v), k) for k, v in fams.items()) + ", %d random (each in 2 variable environments, printed with minimal / redundant parentheses / no spaces / heredoc)" % len(rand))
    trees = sum(fams.values(), []) + rand
    want = {}
    for b in trees:
        want[b[0].get("want", "?")] = want.get(b[0].get("want", "?"), 0) + 1
    ctx.say("  expected results by kind: " + ", ".join("%s %d" % kv for kv in sorted(want.items())))
    hb = core.build_harness(ctx)
    trace, summ = core.run_harness(ctx, hb, "expr", trees, "expr", timeout=1500)
    for inc in summ["incidents"]:
        core.report(ctx, {"check": "replay", "kind": inc["kind"], "site": inc["site"], "where": (inc["detail"].split("\n") + [""])[0][:100]}, inc)
    v = core.validate_traces(ctx, "Trace_Expr.tla", "Trace_Expr_strict.cfg", "Trace_Expr_mon.cfg", trace, "expr", timeout=1500)
    for x in v["violations"]:
        evs = [json.loads(l) for l in x["lines"]]
        ev = evs[x["event"] - 1] if 0 < x["event"] <= len(evs) else evs[-1]
        ks = set()
        _kinds(ev.get("tree"), ks)
        core.report(ctx, {"check": "Mon_Expr", "invariant": x["invariant"], "nodes": sorted(ks)[:8], "results": sorted({o["t"] for o in ev.get("obs", [])})},
                    {"texts": ev.get("texts"), "observed": ev.get("obs"), "tree": ev.get("tree"), "env": ev.get("env")})
    core.write_evidence(ctx, "model_checking",
        rule="trees = (flat) every binary operator on every ordered pair of 21 leaves (numbers, strings incl. numeric and boolean text, flags, null, 9 variables incl. an undefined one), unary operators, conditionals, indexing / attribute / splat on every leaf, function calls with every argument shape; (prec) every ordered pair of operators on three operands in both association shapes, unary against binary, nested conditionals; (for) tuple and object for-expressions over 10 collections x bodies x filters x key variable x grouping; (tmpl) templates of up to three parts: literals, interpolations with both strip markers, if / else and for directives with strip markers; seeded random trees of depth 2-4 over all node kinds; each in two variable environments, printed with minimal parentheses, with redundant parentheses and line breaks, without optional spaces, and (templates ending in a newline) as heredoc; non-trivial = trees",
        samples=summ["samples"], evaluations=summ["behaviours"], distinct_nontrivial=len(trees), exhaustive=False,
        extra={"counters": summ["counters"], "expected_by_kind": want},
        assumptions=["the printer (tree -> text, precedence table) and the reader of cty values into the specification's value representation are trusted base (drive/expr.go)",
                     "results the specification leaves open (non-terminating decimal text, unification of collection-typed conditional branches, numeric strings other than plain integers) are not compared"])
