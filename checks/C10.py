"""C10 — sessions, links and listeners survive a restart or crash unchanged (Persist.tla)"""
import json
from vlib import core

def run(ctx):
    quick = ctx.tier == "quick"
    core.design_check(ctx, "Persist.tla", "Persist.cfg", timeout=1200)
    bfs = core.generate(ctx, "Gen_Persist.tla", "Gen_Persist_bfs.cfg", 0, 0, ctx.seed, bfs=True, timeout=900)
    walks = core.generate(ctx, "Gen_Persist.tla", "Gen_Persist.cfg", 150 if quick else 2500, 40, ctx.seed, timeout=900)
    ctx.say("  behaviours: %d bounded-exhaustive (3 operations) + %d random walks (9 operations)" % (len(bfs), len(walks)))
    behs = bfs + walks
    hb = core.build_harness(ctx)
    trace, summ = core.run_harness(ctx, hb, "persist", behs, "persist", timeout=2400)
    for inc in summ["incidents"]:
        core.report(ctx, {"check": "replay", "kind": inc["kind"], "site": inc["site"]}, inc)
    v = core.validate_traces(ctx, "Trace_Persist.tla", "Trace_Persist_strict.cfg", "Trace_Persist_mon.cfg", trace, "persist", timeout=2400)
    for x in v["violations"]:
        evs = [json.loads(l) for l in x["lines"]]
        ev = evs[x["event"] - 1] if 0 < x["event"] <= len(evs) else {}
        op = ""
        for e in evs[:x["event"]]:
            if e.get("ev") == "Begin": op = e["op"]
        bad = [r["meta"] for r in ev.get("st", {}).get("R", []) if str(r.get("meta", "")).startswith("?")]
        core.report(ctx, {"check": "Mon_Persist", "invariant": x["invariant"], "op": op, "at": ev.get("ev", "?") + ":" + str(ev.get("name", "")),
                          "field": (bad[0].split(":")[-1] if bad else "")},
                    {"events": evs, "failing_event": x["event"]})
    # the restart itself: the real Start() on the stored listeners (Registry.tla Restart), every restored field compared
    from checks import C16
    rb, rsumm = C16.run_restart_family(ctx, hb)
    core.write_evidence(ctx, "model_checking",
        rule="behaviours = all Persist operation sequences of length 3 plus seeded walks of 9 operations (register, refresh, connect new, reparent, disconnect, death, listener add/remove over 3 agents with boundary metadata strings and a top-bit id); a hook after every write statement in pkg/db copies the database file (= the state a kill at that point leaves) and reopens it with the real AgentAll/ParentOf/LinksOf/ListenerAll; every copy is one kill point; non-trivial = kill points examined",
        samples=summ["samples"], evaluations=summ["counters"].get("kill-points", 0) + summ["events"], distinct_nontrivial=summ["counters"].get("kill-points", 0),
        exhaustive=False, extra={"counters": summ["counters"], "behaviours": summ["behaviours"], "restart_family": {"behaviours": len(rb), "counters": rsumm["counters"]}},
        assumptions=["a process kill between two statements leaves exactly the file contents visible at that point (SQLite autocommit; page cache survives SIGKILL); kills inside one statement rely on SQLite's atomic commit",
                     "at kill points the restore loop of Start() is represented by the reader calls it makes; the Restart family of Registry.tla runs the real Start() on a cleanly stopped teamserver"])
