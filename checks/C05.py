"""C05 — only callbacks to outstanding tasks have any effect (Gate.tla)"""
import json
from vlib import core

def run(ctx):
    quick = ctx.tier == "quick"
    core.design_check(ctx, "Gate.tla", "Gate.cfg", timeout=900)
    core.design_check(ctx, "Gate.tla", "Gate_logs.cfg", timeout=900)
    hb = core.build_harness(ctx)
    total_b, total_eff, samples, counters = 0, 0, [], {}
    allhash = set()
    for variant, mode, name in (("", "", "gate"), ("_logs", "logs", "gate_logs"), ("", "pivot", "gate_pivot")):
        behs = core.generate(ctx, "Gen_Gate.tla", "Gen_Gate%s.cfg" % variant, 150 if quick else 3000, 12, ctx.seed + (7 if mode == "pivot" else 0), timeout=600)
        if name == "gate":
            behs = core.generate(ctx, "Gen_Gate.tla", "Gen_Gate_bfs.cfg", 0, 0, ctx.seed, bfs=True, timeout=600) + behs
        if mode != "logs":     # the life of one task in every order of issue / hand-out / answer, then any second callback
            behs = core.generate(ctx, "Gen_Gate.tla", "Gen_Gate_life.cfg", 0, 0, ctx.seed, bfs=True, timeout=600) + behs
        trace, summ = core.run_harness(ctx, hb, "gate", behs, name, mode=mode, timeout=1500)
        for inc in summ["incidents"]:
            core.report(ctx, {"check": "replay", "kind": inc["kind"], "site": inc["site"]}, inc)
        v = core.validate_traces(ctx, "Trace_Gate.tla", "Trace_Gate_strict%s.cfg" % variant, "Trace_Gate_mon%s.cfg" % variant, trace, name)
        for x in v["violations"]:
            ev = json.loads(x["lines"][x["event"] - 1]) if 0 < x["event"] <= len(x["lines"]) else {}
            core.report(ctx, {"check": "Mon_Gate", "invariant": x["invariant"], "class": ev.get("c", "?"), "sendlogs": mode == "logs", "pivot": mode == "pivot"},
                        {"events": [json.loads(l) for l in x["lines"]], "failing_event": x["event"]})
        total_b += summ["behaviours"]; total_eff += summ["counters"].get("effects", 0); samples += summ["samples"]
        for k, val in summ["counters"].items(): counters[k] = counters.get(k, 0) + val
        allhash |= {core.behaviour_hash(b) for b in behs}
    core.write_evidence(ctx, "model_checking",
        rule="behaviours = all Gate action sequences of length 2 plus seeded TLC random walks of length 12 (with and without log forwarding) over 2 agents x 3 request ids x 10 callback classes, forged ids included; replayed as real Demon packets; effect = any difference in retained events, session records, outstanding ids, loot tree, TS_Agents/TS_Links; non-trivial = distinct histories, capped by the number of callbacks that had an effect",
        samples=samples, evaluations=total_b, distinct_nontrivial=min(len(allhash), total_eff),
        assumptions=["callback classes are concretised by harness/drive/gate.go; which callback is final is protocol knowledge taken from the Demon sources"],
        extra={"counters": counters})
