"""Shared machinery of the /verif checks: running TLC, building and running the Go
harness, classifying outcomes, writing evidence.  Python standard library only."""
import json, os, re, shutil, subprocess, sys, time, hashlib, random, glob

VERIF = os.path.dirname(os.path.dirname(os.path.abspath(__file__)))
SPEC = os.path.join(VERIF, "spec")
BUILD = os.path.join(VERIF, ".build")
# development aid (seeded-change runs in scratch worktrees, in parallel with work on /repo): VERIF_REPO names another
# tree to build against; evidence and replay files of such runs go to VERIF_OUT, never to /verif.  Registered
# commands do not set it: they always rebuild from /repo.
REPO = os.environ.get("VERIF_REPO", "/repo")
ALT = REPO != "/repo"
OUT = os.environ.get("VERIF_OUT", "/tmp/verif-out-" + hashlib.sha1(REPO.encode()).hexdigest()[:8]) if ALT else VERIF
GOENV = dict(GOFLAGS="-mod=mod", GOPROXY="off", GOSUMDB="off", GOTOOLCHAIN="local")
NPROC = os.cpu_count() or 4


class Infra(Exception):
    """Infrastructure / model error: exit 2, never a verdict."""


class Ctx:
    def __init__(self, prop, tier, seed):
        self.prop, self.tier, self.seed = prop, tier, seed
        self.t0 = time.time()
        root = os.environ.get("VERIF_SCRATCH", os.path.join(VERIF, ".scratch") if "VERIF_REPO" not in os.environ else "/tmp/verif-scratch")
        self.scratch = os.path.join(root, "%s.%d" % (prop, os.getpid()))
        shutil.rmtree(self.scratch, ignore_errors=True)
        os.makedirs(self.scratch)
        self.cov = {"tlc_cmds": [], "notes": []}
        self.violations = []      # (signature dict, replay path)
        self.known_seen = []
        self.drift = 0
        self.log = open(os.path.join(self.scratch, "check.log"), "w")

    def say(self, *a):
        msg = " ".join(str(x) for x in a)
        print(msg, flush=True)
        self.log.write(msg + "\n"); self.log.flush()

    def specdir(self, name):
        """fresh copy of the spec tree (TLC litters its directory)"""
        d = os.path.join(self.scratch, name)
        shutil.rmtree(d, ignore_errors=True)
        os.makedirs(d)
        for sub in ("", "mc", "gen", "trace", "yaotl"):
            for f in glob.glob(os.path.join(SPEC, sub, "*")):
                if os.path.isfile(f):
                    shutil.copy(f, d)
        return d

    def cleanup(self):
        self.log.close()
        if not os.environ.get("VERIF_KEEP"):
            shutil.rmtree(self.scratch, ignore_errors=True)


# ----------------------------------------------------------------------------- TLC

class TlcResult:
    def __init__(self, out, rc, wall):
        self.out, self.rc, self.wall = out, rc, wall
        m = re.search(r"(\d[\d,]*) states generated, (\d[\d,]*) distinct states found", out)
        self.generated = int(m.group(1).replace(",", "")) if m else 0
        self.distinct = int(m.group(2).replace(",", "")) if m else 0
        m = re.search(r"The depth of the complete state graph search is (\d+)", out)
        self.depth = int(m.group(1)) if m else 0
        self.ok = ("Model checking completed. No error has been found." in out) or \
                  ("Finished computing" in out and rc == 0 and "Error:" not in out)
        self.inv_violated = re.findall(r"Invariant (\S+) is violated", out)
        self.prop_violated = re.findall(r"(?:Action|Temporal) propert(?:y|ies) (\S+)?.*violated", out)
        self.post_false = "POSTCONDITION" in out.upper() and ("evaluated to a non-TRUE value" in out or "is violated" in out and "ostcondition" in out)
        self.behaviours = []
        for line in out.splitlines():
            if line.startswith('<<"BEHAVIOUR", '):
                try:
                    s = line[len('<<"BEHAVIOUR", '):-2]
                    self.behaviours.append(json.loads(json.loads(s)))
                except Exception:
                    pass

    def last_state_var(self, var):
        """value text of `var` in the last printed state of a counterexample"""
        vals = re.findall(r"^/\\ %s = (.*)$" % re.escape(var), self.out, re.M)
        return vals[-1] if vals else None


def tlc(ctx, d, module, cfg, workers=None, timeout=600, simulate=None, depth=None, env=None,
        coverage=False, dfs=False, extra=None, heap=None):
    workers = workers or NPROC
    meta = os.path.join(d, "meta.%s.%d" % (os.path.basename(cfg), int(time.time() * 1000) % 100000))
    cmd = ["tlc", "-workers", str(workers), "-metadir", meta, "-config", cfg]
    if simulate:
        cmd += ["-simulate", simulate]
    if depth:
        cmd += ["-depth", str(depth)]
    if coverage:
        cmd += ["-coverage", "1"]
    if extra:
        cmd += extra
    cmd += [module]
    e = dict(os.environ)
    if env:
        e.update(env)
    jto = e.get("JAVA_TOOL_OPTIONS", "")
    if dfs:
        jto += " -Dtlc2.tool.queue.IStateQueue=StateDeque"
    jto += " -Xss256m"
    # TLC unpacks its standard modules into java.io.tmpdir on every start: keep that inside the run's scratch directory, which is removed
    jt = os.path.join(d, "jtmp")
    os.makedirs(jt, exist_ok=True)
    jto += " -Djava.io.tmpdir=" + jt
    e["JAVA_TOOL_OPTIONS"] = jto.strip()
    t = time.time()
    try:
        p = subprocess.run(["timeout", str(timeout)] + cmd, cwd=d, env=e, stdout=subprocess.PIPE,
                           stderr=subprocess.STDOUT, text=True, errors="replace")
    except Exception as ex:
        raise Infra("cannot run tlc: %s" % ex)
    wall = time.time() - t
    ctx.cov["tlc_cmds"].append("%s  [%.1fs rc=%d]" % (" ".join(cmd[0:1] + cmd[1:]).replace(meta, "<meta>"), wall, p.returncode))
    shutil.rmtree(meta, ignore_errors=True)
    out = p.stdout
    with open(os.path.join(d, "tlc.%s.%d.out" % (os.path.basename(cfg), len(ctx.cov["tlc_cmds"]))), "w") as f:
        f.write(out)
    if p.returncode == 124:
        raise Infra("TLC timeout (%ds) on %s %s" % (timeout, module, cfg))
    if "java.lang.OutOfMemoryError" in out or "StackOverflowError" in out:
        raise Infra("TLC resource error on %s: %s" % (module, out[-400:]))
    if re.search(r"(Parsing or semantic analysis failed|\*\*\* Errors|Error: .*(?:config|parse)|Unknown operator|Could not)", out) and "is violated" not in out:
        if "Semantic errors" in out or "Parsing or semantic analysis failed" in out or "configuration file" in out:
            raise Infra("TLC spec/config error in %s:\n%s" % (module, out[-1500:]))
    return TlcResult(out, p.returncode, wall)


def coverage_zero(res, ignore=()):
    """names of actions with 0 count in a -coverage run (vacuity check)"""
    zero = []
    for m in re.finditer(r"^<(\w+) line \d+, col \d+ to line \d+, col \d+ of module (\w+)>: (\d+):(\d+)", res.out, re.M):
        if int(m.group(4)) == 0 and m.group(1) not in ignore and m.group(1) != "Init":
            zero.append(m.group(1))
    return sorted(set(zero))


def design_check(ctx, module, cfg, timeout=600, workers=None, must_hold=True, env=None):
    """step 1: exhaustive TLC on the design config; records states/transitions."""
    d = ctx.specdir("mc_" + os.path.splitext(cfg)[0])
    res = tlc(ctx, d, module, cfg, timeout=timeout, workers=workers, env=env)
    if must_hold and not res.ok:
        raise Infra("design model %s/%s does not satisfy its own properties (model error):\n%s" % (module, cfg, res.out[-3000:]))
    ctx.cov["states"] = ctx.cov.get("states", 0) + res.distinct
    ctx.cov["transitions"] = ctx.cov.get("transitions", 0) + res.generated
    ctx.cov.setdefault("design_runs", []).append({"module": module, "cfg": cfg, "distinct": res.distinct, "generated": res.generated, "depth": res.depth, "wall_s": round(res.wall, 1)})
    ctx.say("  design %s/%s: %d distinct states, %d generated, depth %d, %.1fs" % (module, cfg, res.distinct, res.generated, res.depth, res.wall))
    return res


def vacuity_check(ctx, module, cfg, timeout=600, ignore=(), env=None):
    d = ctx.specdir("cov_" + os.path.splitext(cfg)[0])
    res = tlc(ctx, d, module, cfg, timeout=timeout, coverage=True, workers=4, env=env)
    z = coverage_zero(res, ignore)
    if z:
        raise Infra("vacuous: actions never taken in %s/%s: %s" % (module, cfg, z))
    return res


def generate(ctx, module, cfg, n, depth, seed, timeout=300, bfs=False, env=None, group_prefix=True):
    """step 2: behaviours from the specification (hist as JSON)."""
    d = ctx.specdir("gen_" + os.path.splitext(cfg)[0] + ("_bfs" if bfs else "_sim"))
    if bfs:
        res = tlc(ctx, d, module, cfg, timeout=timeout, env=env)
    else:
        res = tlc(ctx, d, module, cfg, workers=1, timeout=timeout, simulate="num=%d" % n, depth=depth + 1,
                  extra=["-seed", str(seed)], env=env)
    behs = res.behaviours
    if "TLC threw an unexpected exception" in res.out:
        raise Infra("generation ended with an evaluation error (%s/%s):\n%s" % (module, cfg, res.out[-2500:]))
    if not behs:
        raise Infra("generation produced no behaviours (%s/%s):\n%s" % (module, cfg, res.out[-2000:]))
    seen, uniq = set(), []
    for b in behs:
        k = json.dumps(b, sort_keys=True)
        if k not in seen:
            seen.add(k); uniq.append(b)
    if not bfs and group_prefix:
        # simulation prints every successor of the last step: keep one per walk prefix
        groups = {}
        for b in uniq:
            groups.setdefault(json.dumps(b[:-1], sort_keys=True), []).append(b)
        rnd = random.Random(seed)
        uniq = [rnd.choice(g) for g in groups.values()]
    return uniq


# ----------------------------------------------------------------------------- Go harness

def build_harness(ctx, race=False):
    """rebuilds the harness against /repo's current working tree with -tags verif"""
    hdir = os.path.join(VERIF, "harness")
    bdir = BUILD if not ALT else os.path.join(BUILD, "alt-" + hashlib.sha1(REPO.encode()).hexdigest()[:8])
    os.makedirs(bdir, exist_ok=True)
    modflag = []
    if ALT:
        mod = open(os.path.join(hdir, "go.mod")).read().replace("=> /repo/teamserver", "=> %s/teamserver" % REPO)
        with open(os.path.join(bdir, "go.alt.mod"), "w") as f:
            f.write(mod)
        shutil.copy(os.path.join(REPO, "teamserver/go.sum"), os.path.join(bdir, "go.alt.sum"))
        modflag = ["-modfile", os.path.join(bdir, "go.alt.mod")]
    else:
        shutil.copy("/repo/teamserver/go.sum", os.path.join(hdir, "go.sum"))
    out = os.path.join(bdir, "vharness-race" if race else "vharness")
    cmd = ["go", "build", "-tags", "verif"] + modflag + (["-race"] if race else []) + ["-o", out, "./cmd/vharness"]
    e = dict(os.environ); e.update(GOENV)
    t = time.time()
    p = subprocess.run(cmd, cwd=hdir, env=e, stdout=subprocess.PIPE, stderr=subprocess.STDOUT, text=True)
    if p.returncode != 0:
        raise Infra("harness build failed (is %s compiling?):\n" % REPO + p.stdout[-3000:])
    ctx.say("  harness built in %.1fs%s" % (time.time() - t, " (against %s)" % REPO if ALT else ""))
    return out


def run_harness(ctx, binpath, module, behaviours, name, shards=None, timeout=900, mode="", n=0, extra_env=None):
    """step 3: replay behaviours in parallel shards; returns (trace path, merged summary)."""
    # a restarted in-process teamserver keeps its operator endpoint's port for the life of the process (gin's RunTLS cannot be closed from
    # outside): histories of modules that restart are replayed in rounds, so that no process goes through more than 1200 of them
    per_round = 1200 * (shards or NPROC)
    if module in ("pivot", "sessions", "loot", "registry", "route", "persist") and len(behaviours) > per_round:
        merged = {"behaviours": 0, "events": 0, "incidents": [], "counters": {}, "samples": []}
        trace = os.path.join(ctx.scratch, "run_" + name + ".rounds.ndjson")
        with open(trace, "w") as tf:
            for r, lo in enumerate(range(0, len(behaviours), per_round)):
                t1, s1 = run_harness(ctx, binpath, module, behaviours[lo:lo + per_round], "%s.r%d" % (name, r), shards, timeout, mode, n, extra_env)
                with open(t1) as f:
                    shutil.copyfileobj(f, tf)
                os.remove(t1)
                for inc in s1["incidents"]:
                    if isinstance(inc.get("behaviour"), int) and inc["behaviour"] >= 0:
                        inc["round"] = r
                    merged["incidents"].append(inc)
                merged["behaviours"] += s1["behaviours"]; merged["events"] += s1["events"]
                for k, v in s1["counters"].items():
                    merged["counters"][k] = merged["counters"].get(k, 0) + v
                merged["samples"] = (merged["samples"] + s1["samples"])[:4]
        return trace, merged
    d = os.path.join(ctx.scratch, "run_" + name)
    shutil.rmtree(d, ignore_errors=True); os.makedirs(d)
    inp = os.path.join(d, "behaviours.json")
    with open(inp, "w") as f:
        json.dump(behaviours, f)
    shards = shards or min(NPROC, max(1, len(behaviours)))
    procs = []
    e = dict(os.environ)
    if extra_env:
        e.update(extra_env)
    for i in range(shards):
        cmd = [binpath, module, "-in", inp, "-out", os.path.join(d, "trace.%d.ndjson" % i), "-summary", os.path.join(d, "sum.%d.json" % i),
               "-seed", str(ctx.seed), "-scratch", os.path.join(d, "w%d" % i), "-shard", "%d/%d" % (i, shards), "-mode", mode, "-n", str(n)]
        lf = open(os.path.join(d, "out.%d.log" % i), "w")
        procs.append((subprocess.Popen(["timeout", str(timeout)] + cmd, stdout=lf, stderr=subprocess.STDOUT, env=e), lf, i))
    merged = {"behaviours": 0, "events": 0, "incidents": [], "counters": {}, "samples": []}
    trace = os.path.join(d, "trace.ndjson")
    with open(trace, "w") as tf:
        for p, lf, i in procs:
            rc = p.wait(); lf.close()
            sp = os.path.join(d, "sum.%d.json" % i)
            if rc == 124:
                raise Infra("harness shard %d timed out after %ds" % (i, timeout))
            if not os.path.exists(sp):
                log = open(os.path.join(d, "out.%d.log" % i), errors="replace").read()
                m = re.search(r"^(?:fatal error|panic): (.*)$", log, re.M)
                if m and "harness-error" not in m.group(1):
                    # the process ended: a Go runtime fatal error (concurrent map writes, ...) or a panic in a goroutine nobody
                    # recovers (a listener's, a relay's).  It counts as the teamserver's own end when the goroutine that ran
                    # into it was in its code
                    # the block after the message is the faulting goroutine's stack; a throw on the system stack (stack overflow, out of
                    # memory) prints a "runtime stack:" block first
                    blks = [b for b in log[m.start():].split("\n\n")[1:] if not b.startswith("runtime stack:")]
                    blk = blks[0] if blks else ""
                    frames = re.findall(r"^([\w./*()\-]+)\(", blk, re.M)
                    first = next((f for f in frames if not f.startswith(("runtime.", "sync.", "internal/"))), "")
                    if first.startswith("Havoc/"):
                        merged["incidents"].append({"kind": "fatal", "site": "%s in %s" % (m.group(1), first), "detail": log[m.start():m.start() + 3000], "shard": i, "behaviour": -1, "step": -1})
                        shutil.rmtree(os.path.join(d, "w%d" % i), ignore_errors=True)
                        continue
                raise Infra("harness shard %d died (rc=%d): %s" % (i, rc, log[-2000:]))
            s = json.load(open(sp))
            for inc in s.get("incidents") or []:
                if inc["kind"] == "harness-error":
                    raise Infra("harness error in shard %d: %s" % (i, inc["detail"][:3000]))
                inc["shard"] = i
                merged["incidents"].append(inc)
            merged["behaviours"] += s["behaviours"]; merged["events"] += s["events"]
            for k, v in (s.get("counters") or {}).items():
                merged["counters"][k] = merged["counters"].get(k, 0) + v
            merged["samples"] += (s.get("samples") or [])[:2]
            with open(os.path.join(d, "trace.%d.ndjson" % i)) as f:
                shutil.copyfileobj(f, tf)
            shutil.rmtree(os.path.join(d, "w%d" % i), ignore_errors=True)
    return trace, merged


# ----------------------------------------------------------------------------- trace validation

def split_trace(path):
    """list of behaviours, each a list of raw ndjson lines starting with its Reset line"""
    behs = []
    for line in open(path):
        if not line.strip():
            continue
        if '"ev":"Reset"' in line or not behs:
            behs.append([])
        behs[-1].append(line)
    return behs


def validate_traces(ctx, module, strict_cfg, mon_cfg, trace, name, timeout=900, max_drift=6, env_extra=None, max_viol=40, collect_cfg=None):
    """step 5: TLC validates the recorded trace.  Strict conformance first; behaviours the
    strict spec cannot explain are re-judged by the monitor (the property alone).
    returns dict(validated, drift=[...], violations=[(invariant, behaviour lines, event index)])"""
    behs = split_trace(trace)
    total = len(behs)
    drift, viol = [], []
    remaining = list(range(total))
    rounds = 0

    def mon_round(todo, rnd):
        d = ctx.specdir("mon_%s_%d" % (name, rnd))
        tp = os.path.join(d, "trace.ndjson")
        with open(tp, "w") as f:
            for i in todo:
                f.writelines(behs[i])
        env = {"VERIF_TRACE": tp, "VERIF_STRICT": "0", "VERIF_COLLECT": "0"}
        if env_extra: env.update(env_extra)
        return tlc(ctx, d, module, mon_cfg, workers=1, timeout=timeout, env=env, dfs=True)
    def collect_round():
        """collecting mode of a trace module: one run evaluates the monitors at every event and prints every failing one
        (<<line, failing monitors>>), so recorded findings that fail in many behaviours cannot crowd out anything else"""
        d = ctx.specdir("col_%s" % name)
        tp = os.path.join(d, "trace.ndjson")
        with open(tp, "w") as f:
            for b in behs:
                f.writelines(b)
        env = {"VERIF_TRACE": tp, "VERIF_STRICT": "0", "VERIF_COLLECT": "1"}
        if env_extra: env.update(env_extra)
        res = tlc(ctx, d, module, collect_cfg, workers=1, timeout=timeout, env=env, dfs=True)
        m = re.search(r'^<<"COLLECTED", (.*)>>$', res.out, re.M)
        if not (res.ok and m):
            raise Infra("collecting monitor %s did not finish:\n%s" % (collect_cfg, res.out[-2500:]))
        bad = json.loads(json.loads(m.group(1)))
        starts, acc = [], 0
        for b in behs:
            starts.append(acc); acc += len(b)
        out, seenb = [], set()
        import bisect
        for line, names in bad:
            bi = bisect.bisect_right(starts, line - 1) - 1
            if bi in seenb:
                continue
            seenb.add(bi)
            out.append({"invariant": sorted(names)[0], "behaviour": bi, "event": line - starts[bi], "lines": behs[bi]})
        return out
    # the first monitor pass runs alongside the strict passes (two single-worker TLC processes)
    import concurrent.futures
    pool = concurrent.futures.ThreadPoolExecutor(1)
    if collect_cfg:
        first_mon = pool.submit(collect_round) if total else None
    else:
        first_mon = pool.submit(mon_round, list(range(total)), 1) if total else None
    while remaining:
        rounds += 1
        d = ctx.specdir("tr_%s_%d" % (name, rounds))
        tp = os.path.join(d, "trace.ndjson")
        with open(tp, "w") as f:
            for i in remaining:
                f.writelines(behs[i])
        nlines = sum(len(behs[i]) for i in remaining)
        env = {"VERIF_TRACE": tp, "VERIF_STRICT": "1", "VERIF_COLLECT": "0"}
        if env_extra: env.update(env_extra)
        res = tlc(ctx, d, module, strict_cfg, workers=1, timeout=timeout, env=env, dfs=True)
        if res.ok and not res.inv_violated:
            break
        if not res.inv_violated and re.search(r"TLC threw an unexpected exception|Error: Evaluating|was not in the domain|Attempted to|attempted to", res.out):
            raise Infra("strict trace specification %s could not be evaluated (specification error, not drift):\n%s" % (strict_cfg, res.out[-2500:]))
        # position of the first unexplained event
        if res.inv_violated:
            lv = res.last_state_var("l")
            pos = int(lv) - 1 if lv and lv.isdigit() else res.depth
        else:
            pos = res.depth          # diameter = matched prefix + 1  => index (1-based) of the failing event
        if pos <= 0 or pos > nlines:
            raise Infra("trace validation failed without a usable position (%s):\n%s" % (module, res.out[-2500:]))
        acc = 0; bad = None
        for i in remaining:
            if acc + len(behs[i]) >= pos:
                bad = i; break
            acc += len(behs[i])
        if bad is None:
            raise Infra("cannot map trace position %d to a behaviour" % pos)
        drift.append({"behaviour": bad, "event": pos - acc, "line": behs[bad][min(pos - acc, len(behs[bad])) - 1].strip()[:600],
                      "strict_invariant": res.inv_violated[:1]})
        remaining.remove(bad)
        if len(drift) > max_drift:
            ctx.say("  more than %d behaviours unexplained by the strict spec; judging the rest with the monitor only" % max_drift)
            drift += [{"behaviour": i, "event": 0, "line": "", "strict_invariant": []} for i in remaining]
            remaining = []
    # monitor: the property alone, on every behaviour (cheap), one run; bisect on failure
    todo = list(range(total))
    rounds = 0
    if collect_cfg and total:
        viol = first_mon.result()
        todo = []
    while todo:
        rounds += 1
        res = first_mon.result() if rounds == 1 else mon_round(todo, rounds)
        if res.ok and not res.inv_violated:
            break
        if not res.inv_violated:
            raise Infra("monitor %s rejected the trace format itself (harness/monitor mismatch):\n%s" % (mon_cfg, res.out[-2500:]))
        lv = res.last_state_var("l")
        if not (lv and lv.isdigit()):
            raise Infra("monitor counterexample without position:\n" + res.out[-2000:])
        pos = int(lv) - 1
        acc = 0; bad = None
        for i in todo:
            if acc + len(behs[i]) >= pos:
                bad = i; break
            acc += len(behs[i])
        if bad is None:
            raise Infra("cannot map monitor position %d" % pos)
        viol.append({"invariant": res.inv_violated[0], "behaviour": bad, "event": pos - acc, "lines": behs[bad]})
        todo.remove(bad)
        if len(viol) >= max_viol:
            break
    vb = {v["behaviour"] for v in viol}
    pure_drift = [x for x in drift if x["behaviour"] not in vb]
    ctx.drift += len(pure_drift)
    for x in pure_drift[:5]:
        ctx.say("  NOTE drift: behaviour %d event %d not explained by strict %s: %s" % (x["behaviour"], x["event"], module, x["line"][:300]))
    validated = total - len(drift)
    ctx.cov["traces_validated_against_impl"] = ctx.cov.get("traces_validated_against_impl", 0) + validated
    ctx.cov["trace_events"] = ctx.cov.get("trace_events", 0) + sum(len(b) for b in behs)
    return {"validated": validated, "total": total, "drift": pure_drift, "violations": viol}


# ----------------------------------------------------------------------------- verdicts

def load_known():
    p = os.path.join(VERIF, "known_findings.json")
    if not os.path.exists(p):
        return []
    return json.load(open(p)).get("findings", [])


def match_known(prop, sig):
    """a recorded finding matches when every key of its signature equals (or regex-matches) the observed one"""
    for k in load_known():
        if k.get("property") != prop or k.get("status") != "recorded":
            continue
        ok = True
        for key, want in k.get("signature", {}).items():
            got = str(sig.get(key, ""))
            if key.endswith("_re"):
                if not re.search(want, str(sig.get(key[:-3], ""))):
                    ok = False; break
            elif got != str(want):
                ok = False; break
        if ok:
            return k
    return None


def report(ctx, sig, replay_obj):
    """classify one observed failure of the property on the real code"""
    k = match_known(ctx.prop, sig)
    if k:
        if k["id"] not in [x["id"] for x in ctx.known_seen]:
            ctx.known_seen.append(k)
            print("KNOWN-FINDING: property=%s %s" % (ctx.prop, k["what"]), flush=True)
        return
    rd = os.path.join(OUT, "replays")
    os.makedirs(rd, exist_ok=True)
    h = hashlib.sha1(json.dumps(sig, sort_keys=True).encode()).hexdigest()[:10]
    path = os.path.join(rd, "%s-%s.json" % (ctx.prop, h))
    if not any(json.dumps(s, sort_keys=True) == json.dumps(sig, sort_keys=True) for s, _ in ctx.violations):
        with open(path, "w") as f:
            json.dump({"property": ctx.prop, "signature": sig, "seed": ctx.seed, "tier": ctx.tier, "replay": replay_obj}, f, indent=1)
        ctx.violations.append((sig, path))
        print("VIOLATION property=%s replay=%s" % (ctx.prop, path), flush=True)
        print("  signature: %s" % json.dumps(sig)[:800], flush=True)


def stale_known(ctx, expected_ids):
    """recorded findings this check is supposed to reproduce but did not"""
    seen = {k["id"] for k in ctx.known_seen}
    for k in load_known():
        if k.get("property") == ctx.prop and k.get("status") == "recorded" and k["id"] in expected_ids and k["id"] not in seen:
            ctx.say("  NOTE stale known finding %s: not reproduced in this run" % k["id"])


def write_evidence(ctx, level, rule, samples, evaluations, distinct_nontrivial, exhaustive=False, assumptions=None, extra=None):
    cov = dict(ctx.cov)
    cov.setdefault("states", 0); cov.setdefault("transitions", 0); cov.setdefault("traces_validated_against_impl", 0)
    cov.update({"evaluations": evaluations, "distinct_nontrivial": distinct_nontrivial, "rule": rule,
                "samples": samples[:6] if samples else ["(none)"], "exhaustive": exhaustive, "drift": ctx.drift,
                "known_findings_seen": [k["id"] for k in ctx.known_seen]})
    if extra:
        cov.update(extra)
    ev = {"property_id": ctx.prop, "tier": ctx.tier, "seed": ctx.seed, "level": level, "coverage": cov,
          "assumptions": assumptions or [], "wall_s": round(time.time() - ctx.t0, 1), "violations": len(ctx.violations)}
    os.makedirs(os.path.join(OUT, "evidence"), exist_ok=True)
    with open(os.path.join(OUT, "evidence", ctx.prop + ".json"), "w") as f:
        json.dump(ev, f, indent=1)


def behaviour_hash(b):
    return hashlib.sha1(json.dumps(b, sort_keys=True).encode()).hexdigest()
