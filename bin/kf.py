#!/usr/bin/env python3
"""kf.py add-fixed <prop> <commit> <id> <what>   |   kf.py add-recorded <prop> <id> <what> <signature-json>
maintains /verif/known_findings.json (never touched at check run time)"""
import json, sys, os
P = os.path.join(os.path.dirname(os.path.dirname(os.path.abspath(__file__))), "known_findings.json")
d = json.load(open(P)) if os.path.exists(P) else {"findings": []}
cmd = sys.argv[1]
if cmd == "add-fixed":
    prop, commit, fid, what = sys.argv[2:6]
    d["findings"] = [f for f in d["findings"] if f["id"] != fid]
    d["findings"].append({"id": fid, "property": prop, "status": "fixed", "commit": commit, "what": what,
                          "line": "fixed: property=%s %s %s" % (prop, commit, what)})
elif cmd == "add-recorded":
    prop, fid, what, sig = sys.argv[2:6]
    d["findings"] = [f for f in d["findings"] if f["id"] != fid]
    d["findings"].append({"id": fid, "property": prop, "status": "recorded", "what": what, "signature": json.loads(sig)})
json.dump(d, open(P, "w"), indent=1)
print(len(d["findings"]), "findings")
