#!/bin/bash
# seedtest2.sh <worktree-id> <X> [check-id] [tier]: apply the seeded change /tmp/seed/<worktree-id>.out/<X>/patch.diff (or the stored
# /verif/seeded/<check>-<X>) inside its scratch worktree /tmp/seed/<worktree-id>, run the check against that tree
# (VERIF_REPO), undo.  /repo is not touched, so several can run at once and alongside other work.
id=$1; x=$2; chk=${3:-${id:0:3}}; tier=${4:-quick}
wt=/tmp/seed/$id; p=/tmp/seed/$id.out/$x/patch.diff; [ -f $p ] || p=/verif/seeded/$id-$x/patch.diff
cd $wt || exit 2
git checkout -q -- . && git clean -qfd
git apply $p || { echo "$id/$x: patch does not apply"; exit 3; }
log=/tmp/seed/$id.$x.$chk.check.log
( cd /verif && VERIF_REPO=$wt VERIF_OUT=/tmp/seed/out.$id.$x ./vcheck run $chk --tier $tier > $log 2>&1 ); rc=$?
git checkout -q -- . && git clean -qfd
echo "$id/$x on $chk: rc=$rc  $(grep -c '^VIOLATION' $log) violations: $(grep -A1 '^VIOLATION' $log | grep signature | head -2 | tr '\n' ' ')"
