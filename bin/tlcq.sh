#!/bin/bash
# quick TLC run in a throw-away copy of the spec tree: tlcq.sh <Module.tla> <cfg> [extra tlc args...]
d=$(mktemp -d /tmp/tlcq.XXXXXX)
cp /verif/spec/*.tla /verif/spec/mc/* /verif/spec/gen/* /verif/spec/trace/* "$d"/ 2>/dev/null
cp /verif/spec/yaotl/* "$d"/ 2>/dev/null
mod=$1; cfg=$2; shift 2
( cd "$d" && JAVA_TOOL_OPTIONS="-Xss256m" timeout ${TLC_TIMEOUT:-900} tlc -workers ${TLC_WORKERS:-16} -metadir "$d/meta" -config "$cfg" "$@" "$mod" 2>&1 | grep -v "^Linting\|^Semantic proc\|^Parsing file\|^Semantic processing" )
rc=$?
rm -rf "$d"
exit $rc
