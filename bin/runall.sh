#!/bin/bash
# runall.sh [tier] [ids...] : run checks sequentially, print one line per check
tier=${1:-quick}; shift
ids=${@:-$(python3 -c "import json;print(' '.join(c['property_id'] for c in json.load(open('/verif/MANIFEST.json'))['checks']))")}
for id in $ids; do
  s=$(date +%s); out=$(cd /verif && ./vcheck run $id --tier $tier 2>&1); rc=$?
  echo "$id rc=$rc $(( $(date +%s) - s ))s $(echo "$out" | grep -c '^VIOLATION') violations, $(echo "$out" | grep -c 'NOTE drift') drift, $(echo "$out" | grep -c '^KNOWN-FINDING') known"
  [ $rc -ne 0 ] && echo "$out" | tail -15
done
