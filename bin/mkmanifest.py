#!/usr/bin/env python3
"""Regenerates /verif/MANIFEST.json from the table below (single source of truth)."""
import json, os, subprocess
V = os.path.dirname(os.path.dirname(os.path.abspath(__file__)))
props = [json.loads(l) for l in open(os.path.join(V, "properties.jsonl"))]

CLAIMED = {
 "C04": dict(
   text="Exhaustive TLC model checking of JobQueue.tla (all action sequences to a fixed depth, real byte sizes around the 30 MB limit) plus conformance: TLC-generated behaviours (bounded-exhaustive and random walks) are replayed on a real in-process teamserver through the operator dispatch entry point and the External-C2 handler, check-in replies are decoded by an independent reference Demon codec, and the recorded executions are validated by TLC against the specification (strict) and against the property alone (monitor).",
   note="Trusted: the reference Demon codec in harness/refdemon (written from the Demon C sources), TLC, Go's crypto/aes. Relay producers are represented by direct AddJobToQueue calls. Schedules finer than a Go statement are reached only by the stress driver.",
   technique="TLA+ spec + TLC exhaustive check; TLC-generated behaviours replayed into the real code; TLC trace validation (strict + property monitor)",
   design="DESIGN.md §5 C04"),
 "C05": dict(
   text="Gate.tla models the request-id gate (issue, callback of 10 classes incl. final/relay/beacon-output, forged ids of all three kinds); TLC explores its complete state space for both settings of log forwarding. TLC-generated behaviours are replayed as real Demon packets through the External-C2 handler; the effect recorder diffs retained events, session records, outstanding ids, loot tree and the TS_Agents/TS_Links tables around every callback; TLC validates the recorded executions strictly and with the property monitor (effect => outstanding id or exempt kind, with outstanding ids rebuilt from the calls alone).",
   note="Trusted: reference Demon encoder, the effect recorder's projection (world/snapshot.go). Which callbacks are final is protocol knowledge from the Demon sources. Callback classes covered are the ones concretised in drive/gate.go; outbound dials are covered by C15's socket checks, not here.",
   technique="TLA+ spec + exhaustive TLC; generated behaviours replayed into the real code; TLC trace validation (strict + monitor)",
   design="DESIGN.md §5 C05"),
 "C09": dict(
   text="Pivot.tla models the pivot forest as two separately projected relations (children's parent pointers and parents' link lists) plus TS_Links and the activity flags, with register, SMB connect/reconnect (naming new agents, existing agents, the sender itself, ancestors), disconnect and death by exit, kill date and operator mark. TLC explores the complete state space for 4 agents. Every action sequence to depth 4 (quick) / 5 (thorough) and seeded random walks of depth 14 are replayed with real Demon packets and operator events on a fresh teamserver; after every step the forest is projected from the real pointers and from an independent SQL read of TS_Links, and TLC validates the recorded executions strictly and against the property monitor. Panics and non-returning calls are observed directly.",
   note="Trusted: reference Demon encoder, the projection in drive/pivot.go, SQLite. Agent ids are below 2^31 here (top-bit ids are C08/C10 material). Universe of 4 agents.",
   technique="TLA+ spec + exhaustive TLC; bounded-exhaustive and random behaviours replayed into the real code; TLC trace validation (strict + monitor)",
   design="DESIGN.md §5 C09"),
 "C08": dict(
   text="Route.tla defines the frame algebra of pivot routing (per-hop encryption terms, pipe frames, pivot tasks) and proves by exhaustive TLC enumeration that unwrapping what the wrapping rule builds visits exactly the chain's hops and ends with the original task under the target's key, for every chain of 2..6 agents and every id-class assignment (1, small, top-bit, 0xFFFFFFFF). Each configuration is replayed on a real teamserver: the chain is built with SMB-connect callbacks (plus a sibling), an operator task is routed down and the first hop's check-in is unwrapped layer by layer with each hop's own AES key by the reference Demon; a callback is relayed upward through every hop with its request id outstanding for a TLC-chosen owner (target, another hop, nobody) and attribution/decryption/gating are read from the session records and console events. TLC validates the recorded observations (strict + monitor).",
   note="Trusted: the reference Demon codec (AES-CTR via Go's crypto/aes, pipe frame from TransportSmb.c). Quick replays a seeded sample of 400 of the 1466 configurations, thorough all of them. Ids inside a class are sampled, not enumerated.",
   technique="TLA+ frame algebra + exhaustive TLC; all configurations replayed into the real code; TLC trace validation",
   design="DESIGN.md §5 C08"),
 "C03": dict(
   text="Two specifications. Wire.tla gives the reader semantics (bytes needed per typed field, when the pre-flight check must succeed, where the cursor ends) over every field list of <= 3 fields (int32, int64, bool, byte strings of 0..3 bytes, NUL-terminated and UTF-16LE text) x every residue 0..9 x every cut point; TLC enumerates all cases and each is executed on the real parser with boundary values from the independent Demon-side encoder (quick: a 6000-case seeded slice of the 2-field model; thorough: all ~63k cases of the 3-field model). Sessions.tla models the session table under registration (header id / inner id / key / metadata combinations incl. header id 0 and the zero key), re-registration, check-in and metadata refresh, with UniqueIds, MetaAsSent, RegCreatesOne as invariants and IdImmutable as an action property; its complete state space is checked and all length-2 sequences plus seeded walks are replayed as real packets, the table being projected after every step and validated by TLC (strict + monitor).",
   note="Trusted: the Demon-side encoder (refdemon), Go's unicode/utf16 as the meaning of UTF-16. Console text is compared only where other checks read it (sleep, pivot messages); the operator-visible copy of a new session is covered by C11's replay checks.",
   technique="TLA+ specs + exhaustive TLC; model-enumerated cases and behaviours executed on the real parser/server; TLC trace validation",
   design="DESIGN.md §5 C03"),
 "C10": dict(
   text="Persist.tla models every write statement of pkg/db as its own step (session insert/update, link insert/delete, listener insert/delete) inside the operations that issue them (register, metadata refresh, SMB connect of a new or known agent, disconnect, death, listener add/remove), with the running server's view, the acknowledged registrations and the in-flight operation kept apart from the three tables. Every reachable state is a crash point; the invariants state what reopening may show there (quiescent equality; acknowledged sessions survive; only known sessions; the dead stay dead; a restored parent never lists a non-restored child). TLC checks the complete state space for 3 agents. On the real server a hook after every write statement copies the database file and reopens the copy with the real DatabaseNew/AgentAll/ParentOf/LinksOf/ListenerAll: every statement of every replayed behaviour is one kill point (8.5k per quick run), metadata drawn from boundary strings (digit-only, exponent-like, padded, empty, non-ASCII) and a top-bit id. TLC validates the kill-point sequence strictly and with the monitor.",
   note="Assumes: a process kill between two statements leaves exactly the file contents visible at that point (SQLite autocommit, page cache survives SIGKILL); kills inside one statement rely on SQLite's atomic commit. The restore loop of Start() is represented by the reader calls it makes. HTTP listener rows are C16 material; here listeners are External ones.",
   technique="TLA+ spec with crash points + exhaustive TLC; statement-level hooks give every kill point of replayed behaviours; TLC trace validation",
   design="DESIGN.md §5 C10"),
 "C07": dict(
   text="Loot.tla is a path algebra over component sequences (lexical clean, component-wise containment, the directories a recursive mkdir makes on the way, name/directory clashes) plus the open/write/close life cycle per file id and the third-party service file path; TLC checks OwnFolderOnly over all interleavings to depth 5-7 for 2 agents x 2 file ids. Conformance: all 399 file names of <= 3 components over {.., ., empty, Download, Download_x, sub, f} (separators / and \\ per joint and an optional trailing NUL chosen by the seed) go through a real download open/write/write/close/stray-write sequence; the alphabet also goes through the service file writer; seeded interleavings cover several ids and agents. After every step the entire scratch tree above the loot directory is listed and every file read back; TLC validates the listings strictly (tree equals the model's) and with the monitor (nothing outside agents/<id>/Download, nothing unexpected elsewhere, content equals the chunks sent).",
   note="Trusted: the tree lister/decoder in drive/loot.go. Two writers holding the same target file at once are outside the property (content is defined per file id) and excluded from generation. Crafted third-party agent ids are not exercised: a failing log-file open in pkg/logr ends in log.Fatal, which would terminate the harness process (recorded in DESIGN.md as an observation, not as a C07 finding).",
   technique="TLA+ path-algebra spec + TLC; complete name alphabet and interleavings replayed into the real code; TLC trace validation of tree listings",
   design="DESIGN.md §5 C07"),
 "C06": dict(
   text="Operators.tla models every socket's received frames, the retained list and the fan-out; Registry.tla the service endpoint. TLC checks NothingBeforeAuth/ErrorOnlyAfterRefusal over the bounded state space. Conformance with real websocket clients against the real per-connection loops (operator loop via the guarded export, service loop likewise): for each of 11 first-message kinds (good, extra fields, wrong digest, clear-text password, unknown user, non-JSON, missing/ill-typed password, no info, wrong event, wrong sub-event) every placement of chat and agent-output broadcasts and of follow-up messages around the handshake (399 matrices), plus random walks; service walks with good/bad passwords and registrations sent before/without the password. Every frame each socket received is labelled and TLC validates: an unauthenticated socket has received nothing but at most one error frame, and nothing it sent was dispatched. Panics of the connection goroutine are caught and reported.",
   note="Trusted: frame labelling in drive/operators.go, gorilla/websocket client. In the real binary a panic of the connection goroutine ends the process; the harness wrapper catches it instead. First messages are the listed kinds, not arbitrary bytes.",
   technique="TLA+ spec + TLC; handshake matrices and walks replayed with real websockets; TLC trace validation (strict + monitor)",
   design="DESIGN.md §5 C06"),
 "C11": dict(
   text="Operators.tla: retained list (with pruning of removed listeners, one-shots never retained), replay on authentication (retained events in order, then live sessions), fan-out of chat / agent output / registrations / listener events to every authenticated operator, clean close, and a transport reset racing a broadcast. TLC checks the bounded state space; handshake matrices, listener add/remove/replay scenarios and seeded 12-step walks are replayed with real websocket clients; every frame of every socket is compared with the model (unknown frame kinds ignored), the server's send mutexes are probed after every step and every synchronous call runs under a watchdog, so a blocked broadcaster shows up as a held lock or a hang.",
   note="Transport faults are connection resets and server-side closes; a stalled-but-open peer (full TCP window) is not produced. The order of the two frames produced by a reset racing a chat line is canonicalised by the harness (both orders are legal). Concurrent broadcasters are not scheduled deterministically.",
   technique="TLA+ spec + TLC; behaviours replayed with real websockets; TLC trace validation (strict + monitor)",
   design="DESIGN.md §5 C11"),
 "C16": dict(
   text="Registry.tla: running / persisted / advertised listener sets with duplicate and unknown names, HTTP listeners on free and on occupied ports, edit + serve, and service connections registering agent types, listener types and external-C2 endpoints and leaving in any order. TLC explores the complete state space (858k states). Walks are replayed on the real server: HTTP listeners bind real loopback ports (TCP connect probes after every step), edits are checked by real HTTP requests with the old/new user agent, service connections are real websockets. After each step the running list, TS_Listeners, retained add-events, ports, service agent/listener lists and the endpoint table are projected and TLC validates them strictly and against the monitor (unique names, three views equal for built-in kinds, removed listener not accepting, edit applies, owner-scoped cleanup, process keeps running).",
   note="HTTP Stop() waits 5 s by construction, so listener walks use at most two HTTP listeners. Ports are whatever loopback ports are free at run time. Service-defined listener start messages are sent to the service client but not answered.",
   technique="TLA+ spec + exhaustive TLC; walks replayed into the real code incl. real sockets; TLC trace validation",
   design="DESIGN.md §5 C16"),
 "C12": dict(
   text="HttpListener.tla defines admission as a function of configuration features and request features (Admit, ExtIP) with the four clauses as invariants; TLC model-checks the complete product of 768 configurations x 4320 requests (3.3M cells). Replayed on the listener's own gin engine in-process: every configuration with the matching request and each single-feature deviation (13k cells) plus seeded random cells of the product (9k per quick run, 110k thorough); each request carries a valid registration of a fresh agent so that reaching the agent protocol is observable as a new session whose recorded address is read back; rejected requests are checked to be 404 and to change nothing (full snapshot diff); response headers are compared with their configured full values. TLC validates every observation strictly and with the monitor.",
   note="In-process serving (RemoteAddr set by the harness), no TLS, no real sockets for this property (C16 uses real ports). Header values are compared case-insensitively by design of the code; value-case variants are not generated. The run-time edit clause is exercised in C16.",
   technique="TLA+ admission function + exhaustive TLC over the feature product; cells replayed into the real handler; TLC trace validation",
   design="DESIGN.md §5 C12"),
 "C13": dict(
   text="ConfigLayout.tla gives the configuration block as a function of build options and listener settings in the order and with the numeric codes the Demon reads (transcribed from Demon.c, SleepObf.h, Defines.h), including which listener settings are encodable at all (working-hours grammar and packing, GET, non-numeric ports, IPv6 host literals); TLC checks all 696k cells (81k option combinations, 615k listener configurations). Each replayed cell runs the real PatchConfig twice (two builds for one listener object) and the block is read back field by field by an independent reader of the Demon's layout; thorough replays every cell, quick a seeded 8.5k sample. ShellSafe.tla covers operator build strings: 10 service-name classes go through the real Build() with stub compiler/assembler scripts that record argv, a marker file detects anything else that ran, and the define must decode (as a C string literal) to the name.",
   note="The real mingw/nasm toolchain is replaced by stubs, only the command line is observed. Option and listener parts are enumerated separately (they do not interact in the block). Zero-host lists and out-of-range ports are not classified as unencodable.",
   technique="TLA+ layout function + exhaustive TLC; cells replayed through the real packer and read back by an independent reader; TLC trace validation",
   design="DESIGN.md §5 C13"),
}
NOT_BUILT = "machinery not built yet (construction order in DESIGN.md §8); not claimed until its check runs clean on the unchanged tree"

hooks_commits = subprocess.run(["git", "-C", "/repo", "log", "--format=%H %s", "--grep=^verif:"], stdout=subprocess.PIPE, text=True).stdout.strip().splitlines()
m = {
 "version": 1,
 "setup_cmd": "./vcheck setup",
 "hooks": {"guard": "verif (Go build tag)", "enable": "go build -tags verif (the harness module replaces Havoc => /repo/teamserver)",
           "baseline_off_cmd": "bin/baseline_off.sh", "source_commits": [c.split()[0] for c in hooks_commits], "add_only": True},
 "engines": [{"name": "vcheck", "path": "/verif/vcheck", "serves_properties": sorted(CLAIMED),
              "kind_free_text": "Python orchestrator: TLC (design check, behaviour generation, trace validation) + Go conformance harness (/verif/harness, built against /repo with -tags verif)"}],
 "checks": [], "not_applicable": [],
 "notes": "Verdicts come only from the real code: exit 1 needs the property monitor (or an observed panic/hang/held lock) to fail on a recorded execution; model-only counterexamples, timeouts and harness errors are exit 2.",
}
for p in props:
    i = p["id"]
    if i in CLAIMED:
        c = CLAIMED[i]
        m["checks"].append({"property_id": i, "quick_cmd": "./vcheck run %s --tier quick" % i, "thorough_cmd": "./vcheck run %s --tier thorough" % i,
            "evidence_file": "/verif/evidence/%s.json" % i, "replay_cmd_template": "./vcheck replay {path}", "engine": "vcheck",
            "level_claimed": {"category": "model_checking", "text": c["text"], "design_ref": c["design"]}, "level_note": c["note"], "technique": c["technique"]})
    else:
        m["not_applicable"].append({"property_id": i, "reason": NOT_BUILT})
json.dump(m, open(os.path.join(V, "MANIFEST.json"), "w"), indent=1)
print("MANIFEST: %d claimed, %d not applicable" % (len(m["checks"]), len(m["not_applicable"])))
