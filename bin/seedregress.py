#!/usr/bin/env python3
"""seedregress.py [workers] : runs every stored seeded change (/verif/seeded/*/patch.diff) against the check that is recorded as
detecting it, each in a pooled scratch worktree of /repo's HEAD (VERIF_REPO); prints one line per change.
A patch that no longer applies to HEAD (a later repair rewrote the same lines) is reported as such."""
import json, glob, os, subprocess, sys, re, threading, queue
V = os.path.dirname(os.path.dirname(os.path.abspath(__file__)))
workers = int(sys.argv[1]) if len(sys.argv) > 1 else 3
only = sys.argv[2:]
jobs = queue.Queue()
for m in sorted(glob.glob(os.path.join(V, "seeded/*/meta.json"))):
    x = json.load(open(m)); sid = x["seed"]
    if only and sid not in only and sid.split("-")[0] not in only:
        continue
    chk = x["property"]
    mm = re.match(r"\s*(C\d\d)\b", x.get("detected_by", ""))
    if mm:
        chk = mm.group(1)
    jobs.put((sid, chk, os.path.join(os.path.dirname(m), "patch.diff")))
lock = threading.Lock()
def work(i):
    wt = "/tmp/seed/pool%d" % i
    subprocess.run(["git", "-C", "/repo", "worktree", "remove", "--force", wt], stdout=subprocess.DEVNULL, stderr=subprocess.DEVNULL)
    subprocess.run(["git", "-C", "/repo", "worktree", "add", "-q", "--detach", wt, "HEAD"], check=True)
    while True:
        try:
            sid, chk, patch = jobs.get_nowait()
        except queue.Empty:
            break
        subprocess.run("git checkout -q -- . && git clean -qfd", shell=True, cwd=wt)
        if subprocess.run(["git", "apply", patch], cwd=wt, stdout=subprocess.DEVNULL, stderr=subprocess.DEVNULL).returncode != 0:
            with lock: print("%s on %s: patch does not apply to HEAD" % (sid, chk), flush=True)
            continue
        env = dict(os.environ, VERIF_REPO=wt, VERIF_OUT="/tmp/seed/out.pool%d" % i, VERIF_SCRATCH="/tmp/verif-scratch-pool%d" % i)
        p = subprocess.run(["./vcheck", "run", chk, "--tier", "quick"], cwd=V, env=env, stdout=subprocess.PIPE, stderr=subprocess.STDOUT, text=True)
        nv = len(re.findall(r"^VIOLATION", p.stdout, re.M))
        sig = re.findall(r"signature: (.*)", p.stdout)
        with lock: print("%s on %s: rc=%d %d violations %s" % (sid, chk, p.returncode, nv, (sig[0][:160] if sig else "")), flush=True)
    subprocess.run("git checkout -q -- . && git clean -qfd", shell=True, cwd=wt)
    subprocess.run(["git", "-C", "/repo", "worktree", "remove", "--force", wt], stdout=subprocess.DEVNULL, stderr=subprocess.DEVNULL)
ts = [threading.Thread(target=work, args=(i,)) for i in range(workers)]
[t.start() for t in ts]; [t.join() for t in ts]
