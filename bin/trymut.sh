#!/bin/bash
# usage: trymut.sh <prop> <file-relative-to-/repo> <sed-expr> [tier]   -- apply a mutation, run the check, restore
set -u
prop=$1; file=$2; expr=$3; tier=${4:-quick}
cd /repo || exit 2
if ! git diff --quiet; then echo "repo dirty, refusing"; exit 2; fi
sed -i -E "$expr" "$file"
if git diff --quiet; then echo "MUTATION DID NOT APPLY"; exit 3; fi
git diff | head -30
( cd /repo/teamserver && GOFLAGS=-mod=mod GOPROXY=off GOSUMDB=off GOTOOLCHAIN=local go build ./... ) || { echo "DOES NOT COMPILE"; git checkout -- .; exit 3; }
cd /verif && ./vcheck run $prop --tier $tier; rc=$?
cd /repo && git checkout -- .
echo "RC=$rc"
