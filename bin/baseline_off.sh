#!/bin/bash
# Runs the repository's pinned baseline with the verif guard OFF and checks that every
# test listed as stable_pass in /root/.vp/BASELINE.json still passes.
export GOFLAGS=-mod=mod GOPROXY=off GOSUMDB=off GOTOOLCHAIN=local
out=$(mktemp)
( cd /repo/teamserver && go test -json -vet=off -count=1 -timeout 25m ./... ) > "$out" 2>/dev/null
python3 - "$out" <<'PY'
import json, sys
passed=set()
for line in open(sys.argv[1]):
    try: e=json.loads(line)
    except Exception: continue
    if e.get("Action")=="pass" and e.get("Test"):
        passed.add(e["Package"]+"::"+e["Test"])
base=json.load(open("/root/.vp/BASELINE.json"))["stable_pass"]
missing=[t for t in base if t not in passed]
print("baseline: %d stable tests, %d passed now, %d missing" % (len(base), len(base)-len(missing), len(missing)))
for t in missing[:20]: print("  MISSING", t)
sys.exit(1 if missing else 0)
PY
rc=$?; rm -f "$out"; exit $rc
