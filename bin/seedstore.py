#!/usr/bin/env python3
"""seedstore.py <worktree-id> <X> <new seed id, e.g. C02-C> <change> <needs> <detected_by> <missed 0|1> [strengthened]
copies /tmp/seed/<worktree-id>.out/<X>/ to /verif/seeded/<new id>/ and writes meta.json"""
import sys, os, shutil, json
wt, x, sid, change, needs, by, missed = sys.argv[1:8]
strengthened = sys.argv[8] if len(sys.argv) > 8 else ""
src = "/tmp/seed/%s.out/%s" % (wt, x)
dst = os.path.join(os.path.dirname(os.path.dirname(os.path.abspath(__file__))), "seeded", sid)
shutil.rmtree(dst, ignore_errors=True)
shutil.copytree(src, dst, ignore=shutil.ignore_patterns("suite_*.txt", "baseline*.txt"))
meta = {"property": sid.split("-")[0], "seed": sid, "change": change, "needs_to_manifest": needs,
        "origin": "independent sub-agent (third round) given only the property text and a scratch worktree",
        "confirmed": "bin/seedconfirm.sh %s %s" % (wt, x), "check_run": "bin/seedtest2.sh %s %s %s" % (wt, x, sid.split("-")[0]),
        "detected": True, "detected_by": by, "missed_by_first_version_of_check": missed == "1"}
if strengthened:
    meta["strengthened"] = strengthened
json.dump(meta, open(os.path.join(dst, "meta.json"), "w"), indent=1)
print("stored", sid)
