#!/bin/bash
# seedtest.sh <ID> <X> [check-id] [tier]: apply a seeded change to /repo, run the check, undo
id=$1; x=$2; chk=${3:-$1}; tier=${4:-quick}
p=/verif/seeded/$id-$x/patch.diff; [ -f $p ] || p=/tmp/seed/$id.out/$x/patch.diff
cd /repo || exit 2
git diff --quiet || { echo "repo dirty"; exit 2; }
git apply $p || { echo "$id/$x: patch does not apply on HEAD (a later fix touches the same lines); see meta.json"; exit 3; }
( cd /verif && ./vcheck run $chk --tier $tier > /tmp/seed/$id.$x.$chk.check.log 2>&1 ); rc=$?
git -C /repo checkout -- . ; git -C /repo clean -qfd teamserver >/dev/null
echo "$id/$x on $chk: rc=$rc  $(grep -c '^VIOLATION' /tmp/seed/$id.$x.$chk.check.log) violations: $(grep -A1 '^VIOLATION' /tmp/seed/$id.$x.$chk.check.log | grep signature | head -2 | tr '\n' ' ')"
rm -rf /verif/replays
