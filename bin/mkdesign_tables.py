#!/usr/bin/env python3
"""regenerates the defect table and the seeded-change table of DESIGN.md (section 0.4 / 0.5) from
known_findings.json and seeded/*/meta.json; the tables sit between <!-- BEGIN x --> / <!-- END x --> markers"""
import json, glob, os, re
V = os.path.dirname(os.path.dirname(os.path.abspath(__file__)))
p = os.path.join(V, "DESIGN.md")
s = open(p).read()
kf = json.load(open(os.path.join(V, "known_findings.json")))["findings"]
rows = ["| property | commit in /repo | id | what failed |", "|---|---|---|---|"]
for f in kf:
    rows.append("| %s | %s | %s | %s |" % (f["property"], f.get("commit") or "recorded, not repaired", f["id"], f["what"].replace("|", "/").replace("\n", " ")))
seeds = ["| seed | change | needs, to manifest | detected by | first version of the check |", "|---|---|---|---|---|"]
n = missed = undet = 0
for m in sorted(glob.glob(os.path.join(V, "seeded/*/meta.json"))):
    x = json.load(open(m)); n += 1
    miss = x.get("missed_by_first_version_of_check")
    missed += 1 if miss else 0
    if x.get("detected") is False:
        undet += 1
        seeds.append("| %s | %s | %s | **not detected** | %s |" % (x["seed"], x["change"].replace("|", "/"), x.get("needs_to_manifest", "").replace("|", "/"), "open: " + x.get("why_missed", "").replace("|", "/")))
        continue
    seeds.append("| %s | %s | %s | %s | %s |" % (x["seed"], x["change"].replace("|", "/"), x.get("needs_to_manifest", "").replace("|", "/"), x.get("detected_by", "").replace("|", "/"),
                 ("missed at first; " + x.get("strengthened", "check extended")) if miss else "caught by the first version"))
def put(tag, body):
    global s
    s = re.sub(r"(<!-- BEGIN %s -->\n).*?(<!-- END %s -->)" % (tag, tag), lambda m: m.group(1) + body + "\n" + m.group(2), s, flags=re.S)
put("DEFECTS", "\n".join(rows))
put("SEEDS", "\n".join(seeds))
put("COUNTS", "%d seeded changes (%d missed by the first version of the respective check; %d still not detected, the rest detected now); %d confirmed defects (%d repaired, %d recorded)." % (
    n, missed, undet, len(kf), sum(1 for f in kf if f["status"] == "fixed"), sum(1 for f in kf if f["status"] != "fixed")))
open(p, "w").write(s)
print("DESIGN tables: %d defects, %d seeds" % (len(kf), n))
