#!/bin/bash
# seedconfirm.sh <ID> <X>: confirm a seeded change in its scratch worktree (/tmp/seed/<ID>): applies, builds, demo fails with / passes without
id=$1; x=$2; wt=/tmp/seed/$id; out=/tmp/seed/$id.out/$x
export GOFLAGS=-mod=mod GOPROXY=off GOSUMDB=off GOTOOLCHAIN=local
cd $wt || exit 2
git checkout -q -- . && git clean -qfd
git apply --check $out/patch.diff || { echo "PATCH DOES NOT APPLY"; exit 3; }
git apply $out/patch.diff
( cd teamserver && go build ./... ) || { echo "NO BUILD"; git checkout -q -- .; exit 3; }
( cd teamserver && go test -vet=off -count=1 ./... 2>&1 | grep -E "^(FAIL|ok|---)" | grep -E "^FAIL" | sort > /tmp/seed/$id.$x.fails.txt )
bash $out/run.sh $wt > /tmp/seed/$id.$x.with.log 2>&1; rcw=$?
git checkout -q -- . && git clean -qfd
bash $out/run.sh $wt > /tmp/seed/$id.$x.without.log 2>&1; rco=$?
git checkout -q -- . && git clean -qfd
echo "$id/$x demo with-change rc=$rcw, without rc=$rco; failing packages with change: $(tr '\n' ' ' < /tmp/seed/$id.$x.fails.txt)"
