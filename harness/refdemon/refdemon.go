// Package refdemon is an independent reference implementation of the Demon
// side of the wire protocol, written from payloads/Demon/src/core/{Package,
// Parser,Command,TransportSmb}.c. It deliberately imports nothing from
// Havoc/pkg/common/{parser,packer,crypt}: it is the oracle the Go
// teamserver's codecs are compared with.
package refdemon

import (
	"crypto/aes"
	"encoding/binary"
	"errors"
	"fmt"
	"unicode/utf16"
)

const (
	Magic = 0xDEADBEEF

	CmdGetJob   = 1
	CmdNoJob    = 10
	CmdSleep    = 11
	CmdProcList = 12
	CmdFS       = 15
	CmdJob      = 21
	CmdOutput   = 90
	CmdError    = 91
	CmdExit     = 92
	CmdKillDate = 93
	CmdBeacon   = 94 // BEACON_OUTPUT
	CmdInit     = 99
	CmdCheckin  = 100
	CmdProc     = 0x1010
	CmdToken    = 40
	CmdNet      = 2100
	CmdConfig   = 2500
	CmdScreen   = 2510
	CmdPivot    = 2520
	CmdTransfer = 2530
	CmdSocket   = 2540
	CmdKerberos = 2550
	CmdMemFile  = 2560

	PivotList          = 1
	PivotSmbConnect    = 10
	PivotSmbDisconnect = 11
	PivotSmbCommand    = 12
)

// Keys holds a session's AES-256 key and CTR IV.
type Keys struct {
	Key []byte // 32
	IV  []byte // 16
}

func (k Keys) Zero() bool {
	for _, b := range k.Key {
		if b != 0 {
			return false
		}
	}
	return true
}

// CTR applies AES-256-CTR starting at the IV (encryption == decryption).
func CTR(k Keys, data []byte) []byte {
	out := make([]byte, len(data))
	if len(data) == 0 {
		return out
	}
	blk, err := aes.NewCipher(k.Key)
	if err != nil {
		panic(err)
	}
	// counter mode written out the way the Demon does it (AesCrypt.c AesXCryptBuffer): the 16-byte IV is one big-endian
	// counter, incremented per block with the carry running through all 16 bytes
	var ctr, ks [16]byte
	copy(ctr[:], k.IV)
	for off := 0; off < len(data); off += 16 {
		blk.Encrypt(ks[:], ctr[:])
		for j := 0; j < 16 && off+j < len(data); j++ {
			out[off+j] = data[off+j] ^ ks[j]
		}
		for j := 15; j >= 0; j-- {
			ctr[j]++
			if ctr[j] != 0 {
				break
			}
		}
	}
	return out
}

// ---- big-endian builder (agent -> server), as Package.c ----

type Buf struct{ B []byte }

func (b *Buf) I32(v uint32) *Buf {
	b.B = binary.BigEndian.AppendUint32(b.B, v)
	return b
}
func (b *Buf) I64(v uint64) *Buf {
	b.B = binary.BigEndian.AppendUint64(b.B, v)
	return b
}
func (b *Buf) Bytes(p []byte) *Buf {
	b.I32(uint32(len(p)))
	b.B = append(b.B, p...)
	return b
}
func (b *Buf) Str(s string) *Buf { return b.Bytes([]byte(s)) }

// WStr adds UTF-16LE text with a terminating NUL unit, as PackageAddWString.
func (b *Buf) WStr(s string) *Buf { return b.Bytes(UTF16LE(s, true)) }
func (b *Buf) Raw(p []byte) *Buf {
	b.B = append(b.B, p...)
	return b
}

func UTF16LE(s string, term bool) []byte {
	u := utf16.Encode([]rune(s))
	out := make([]byte, 0, 2*len(u)+2)
	for _, c := range u {
		out = append(out, byte(c), byte(c>>8))
	}
	if term {
		out = append(out, 0, 0)
	}
	return out
}

// Meta is the registration metadata of a Demon.
type Meta struct {
	Hostname, Username, Domain, InternalIP string
	ProcessPath                            string
	PID, TID, PPID, Arch, Elevated         uint32
	Base                                   uint64
	OS                                     [5]uint32
	OSArch, Sleep, Jitter                  uint32
	KillDate                               uint64
	WorkingHours                           uint32
}

func DefaultMeta(tag string) Meta {
	return Meta{Hostname: "HOST-" + tag, Username: "user-" + tag, Domain: "DOM-" + tag, InternalIP: "10.0.0.7",
		ProcessPath: "C:\\Windows\\System32\\proc" + tag + ".exe", PID: 4242, TID: 17, PPID: 600, Arch: 2, Elevated: 1,
		Base: 0x7ff612340000, OS: [5]uint32{10, 0, 1, 0, 19045}, OSArch: 9, Sleep: 2, Jitter: 15}
}

// MetaBody is the (cleartext) registration body: agent id + metadata.
func MetaBody(id uint32, m Meta) []byte {
	b := &Buf{}
	b.I32(id).Str(m.Hostname).Str(m.Username).Str(m.Domain).Str(m.InternalIP).WStr(m.ProcessPath)
	b.I32(m.PID).I32(m.TID).I32(m.PPID).I32(m.Arch).I32(m.Elevated).I64(m.Base)
	for _, v := range m.OS {
		b.I32(v)
	}
	b.I32(m.OSArch).I32(m.Sleep).I32(m.Jitter).I64(m.KillDate).I32(m.WorkingHours)
	return b.B
}

// Header builds the 20-byte clear header followed by rest.
func Frame(magic, id, cmd, req uint32, rest []byte) []byte {
	b := &Buf{}
	b.I32(uint32(16 + len(rest))).I32(magic).I32(id).I32(cmd).I32(req).Raw(rest)
	return b.B
}

// Register builds a DEMON_INIT request.
func Register(id uint32, k Keys, m Meta) []byte {
	body := MetaBody(id, m)
	if !k.Zero() {
		body = CTR(k, body)
	}
	rest := append(append(append([]byte{}, k.Key...), k.IV...), body...)
	return Frame(Magic, id, CmdInit, 0, rest)
}

// Sub is one sub-package of a check-in.
type Sub struct {
	Cmd, Req uint32
	Body     []byte
}

// CheckIn builds a request whose first command is COMMAND_GET_JOB followed
// by the given callbacks (PackageTransmitAll layout): the first package's
// cmd/req are in clear, everything after is under the session key.
func CheckIn(id uint32, k Keys, subs ...Sub) []byte {
	return Packages(id, k, append([]Sub{{Cmd: CmdGetJob}}, subs...))
}

// Packages builds a request out of sub-packages; the first sub's cmd/req go
// into the clear header and its body (length-prefixed) starts the encrypted
// part, except for GET_JOB which has no body on the wire.
func Packages(id uint32, k Keys, subs []Sub) []byte {
	if len(subs) == 0 {
		return Frame(Magic, id, 0, 0, nil)
	}
	enc := &Buf{}
	first := subs[0]
	if first.Cmd != CmdGetJob {
		enc.Bytes(first.Body)
	}
	for _, s := range subs[1:] {
		enc.I32(s.Cmd).I32(s.Req)
		if s.Cmd != CmdGetJob {
			enc.Bytes(s.Body)
		}
	}
	// the teamserver decrypts a known agent's packages with the session key
	// unconditionally (also with the all-zero key)
	rest := CTR(k, enc.B)
	return Frame(Magic, id, first.Cmd, first.Req, rest)
}

// ---- little-endian task reader (server -> agent), as CommandDispatcher ----

type Task struct {
	Cmd, Req uint32
	Body     []byte // decrypted
	Raw      []byte // as on the wire
}

// ParseTasks decodes a check-in response exactly as CommandDispatcher does.
func ParseTasks(resp []byte, k Keys) ([]Task, error) {
	var out []Task
	p := resp
	for len(p) > 0 {
		if len(p) < 12 {
			return out, fmt.Errorf("trailing %d bytes", len(p))
		}
		cmd := binary.LittleEndian.Uint32(p[0:])
		req := binary.LittleEndian.Uint32(p[4:])
		n := binary.LittleEndian.Uint32(p[8:])
		p = p[12:]
		if uint64(n) > uint64(len(p)) {
			return out, fmt.Errorf("task %d body length %d exceeds remaining %d", len(out), n, len(p))
		}
		raw := p[:n]
		p = p[n:]
		out = append(out, Task{Cmd: cmd, Req: req, Raw: raw, Body: CTR(k, raw)})
	}
	return out, nil
}

// Rd is the Demon's little-endian parser (Parser.c).
type Rd struct {
	B   []byte
	Err error
}

func (r *Rd) need(n int) bool {
	if r.Err != nil {
		return false
	}
	if len(r.B) < n {
		r.Err = errors.New("short read")
		return false
	}
	return true
}
func (r *Rd) I32() uint32 {
	if !r.need(4) {
		return 0
	}
	v := binary.LittleEndian.Uint32(r.B)
	r.B = r.B[4:]
	return v
}
func (r *Rd) I64() uint64 {
	if !r.need(8) {
		return 0
	}
	v := binary.LittleEndian.Uint64(r.B)
	r.B = r.B[8:]
	return v
}
func (r *Rd) I16() uint16 {
	if !r.need(2) {
		return 0
	}
	v := binary.LittleEndian.Uint16(r.B)
	r.B = r.B[2:]
	return v
}
func (r *Rd) Byte() byte {
	if !r.need(1) {
		return 0
	}
	v := r.B[0]
	r.B = r.B[1:]
	return v
}
func (r *Rd) Bytes() []byte {
	n := r.I32()
	if r.Err != nil || !r.need(int(n)) {
		return nil
	}
	v := r.B[:n]
	r.B = r.B[n:]
	return v
}

// PipeFrame parses the SMB pipe frame a parent writes to a child:
// LE32 child id | LE32 size | package.
func PipeFrame(frame []byte) (id uint32, pkg []byte, err error) {
	r := &Rd{B: frame}
	id = r.I32()
	pkg = r.Bytes()
	if r.Err != nil {
		return 0, nil, r.Err
	}
	if len(r.B) != 0 {
		return id, pkg, fmt.Errorf("pipe frame has %d trailing bytes", len(r.B))
	}
	return id, pkg, nil
}

// DecodeUTF16 decodes UTF-16LE bytes, dropping one trailing NUL unit.
func DecodeUTF16(b []byte) string {
	u := make([]uint16, 0, len(b)/2)
	for i := 0; i+1 < len(b); i += 2 {
		u = append(u, uint16(b[i])|uint16(b[i+1])<<8)
	}
	for len(u) > 0 && u[len(u)-1] == 0 {
		u = u[:len(u)-1]
	}
	return string(utf16.Decode(u))
}

// ---- CONFIG_BYTES as DemonConfig() (payloads/Demon/src/Demon.c) reads them ----

type DemonCfg struct {
	Sleep, Jitter, Alloc, Exec               uint32
	Spawn64, Spawn32                         string
	Tech, Gadget, Stack, Load, Syscall, Amsi uint32
	KillDate                                 uint64
	WorkingHours                             uint32
	Method                                   string
	Rotation                                 uint32
	Hosts                                    []string
	Ports                                    []uint32
	Secure                                   uint32
	UserAgent                                string
	Headers, Uris                            []string
	ProxyEnabled                             uint32
	ProxyURL, ProxyUser, ProxyPass           string
	Pipe                                     string
	Left                                     int
}

func (r *Rd) WStr() string { return DecodeUTF16(r.Bytes()) }

// ReadConfig parses a configuration block; smb selects the TRANSPORT_SMB layout.
func ReadConfig(b []byte, smb bool) (DemonCfg, error) {
	r := &Rd{B: b}
	c := DemonCfg{}
	c.Sleep, c.Jitter, c.Alloc, c.Exec = r.I32(), r.I32(), r.I32(), r.I32()
	c.Spawn64, c.Spawn32 = r.WStr(), r.WStr()
	c.Tech, c.Gadget, c.Stack, c.Load, c.Syscall, c.Amsi = r.I32(), r.I32(), r.I32(), r.I32(), r.I32(), r.I32()
	if smb {
		c.Pipe = r.WStr()
		c.KillDate = r.I64()
		c.WorkingHours = r.I32()
	} else {
		c.KillDate = r.I64()
		c.WorkingHours = r.I32()
		c.Method = r.WStr()
		c.Rotation = r.I32()
		n := r.I32()
		for i := uint32(0); i < n && r.Err == nil; i++ {
			c.Hosts = append(c.Hosts, r.WStr())
			c.Ports = append(c.Ports, r.I32())
		}
		c.Secure = r.I32()
		c.UserAgent = r.WStr()
		n = r.I32()
		for i := uint32(0); i < n && r.Err == nil; i++ {
			c.Headers = append(c.Headers, r.WStr())
		}
		n = r.I32()
		for i := uint32(0); i < n && r.Err == nil; i++ {
			c.Uris = append(c.Uris, r.WStr())
		}
		c.ProxyEnabled = r.I32()
		if c.ProxyEnabled != 0 {
			c.ProxyURL, c.ProxyUser, c.ProxyPass = r.WStr(), r.WStr(), r.WStr()
		}
	}
	c.Left = len(r.B)
	return c, r.Err
}
