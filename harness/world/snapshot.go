package world

import (
	"crypto/sha1"
	"database/sql"
	"encoding/hex"
	"fmt"
	"io/fs"
	"os"
	"path/filepath"
	"sort"
	"strings"

	_ "github.com/mattn/go-sqlite3"
)

// Snap is a projection of everything an operator can observe (and the
// persisted tables), excluding the per-request "last call-in" timestamp.
type Snap struct {
	Events   int               // retained events
	Sessions map[string]string // NameID -> digest of the session record
	Queues   map[string]string // NameID -> request ids queued
	Tasks    map[string]string // NameID -> outstanding request ids
	Loot     map[string]string // path relative to scratch dir -> "size:sha1"
	Agents   map[string]string // TS_Agents rows (AgentID -> digest)
	Links    []string          // TS_Links rows "parent>child"
}

func (w *World) DBConn() (*sql.DB, error) {
	return sql.Open("sqlite3", "file:"+filepath.Join(w.Dir, "data", "ts.db")+"?mode=ro")
}

// DBConnAt opens an independent read-only connection to an arbitrary database file.
func (w *World) DBConnAt(path string) (*sql.DB, error) {
	return sql.Open("sqlite3", "file:"+path+"?mode=ro")
}

func (w *World) Snapshot() Snap {
	s := Snap{Sessions: map[string]string{}, Queues: map[string]string{}, Tasks: map[string]string{}, Loot: map[string]string{}, Agents: map[string]string{}}
	s.Events = len(w.TS.EventsList)
	for _, a := range w.TS.Agents.Agents {
		inf := *a.Info
		inf.LastCallIn = ""
		parent := ""
		if a.Pivots.Parent != nil {
			parent = a.Pivots.Parent.NameID
		}
		var links []string
		for _, l := range a.Pivots.Links {
			links = append(links, l.NameID)
		}
		var dls []string
		for _, d := range a.Downloads {
			dls = append(dls, fmt.Sprintf("%x:%s", d.FileID, d.LocalFile))
		}
		s.Sessions[a.NameID] += fmt.Sprintf("|%+v|active=%v|reason=%s|key=%x|iv=%x|parent=%s|links=%v|dl=%v|pf=%d|sc=%d|ss=%d", inf, a.Active, a.Reason, a.Encryption.AESKey, a.Encryption.AESIv, parent, links, dls, len(a.PortFwds), len(a.SocksCli), len(a.SocksSvr))
		var q, t []string
		for _, j := range a.JobQueue {
			q = append(q, fmt.Sprintf("%x/%d", j.RequestID, j.Command))
		}
		for _, j := range a.Tasks {
			t = append(t, fmt.Sprintf("%x", j.RequestID))
		}
		s.Queues[a.NameID] += strings.Join(q, ",") + ";"
		s.Tasks[a.NameID] += strings.Join(t, ",") + ";"
	}
	s.Loot = w.LootTree()
	if db, err := w.DBConn(); err == nil {
		defer db.Close()
		if rows, err := db.Query(`SELECT * FROM TS_Agents`); err == nil {
			cols, _ := rows.Columns()
			for rows.Next() {
				vals := make([]any, len(cols))
				ptrs := make([]any, len(cols))
				for i := range vals {
					ptrs[i] = &vals[i]
				}
				if rows.Scan(ptrs...) == nil {
					var parts []string
					id := ""
					for i, c := range cols {
						if c == "LastCallIn" {
							continue
						}
						v := vals[i]
						if b, ok := v.([]byte); ok {
							v = string(b)
						}
						if c == "AgentID" {
							id = fmt.Sprint(v)
						}
						parts = append(parts, fmt.Sprintf("%s=%v", c, v))
					}
					s.Agents[id] += strings.Join(parts, ",") + ";"
				}
			}
			rows.Close()
		}
		if rows, err := db.Query(`SELECT ParentAgentID, LinkAgentID FROM TS_Links`); err == nil {
			for rows.Next() {
				var p, c int64
				if rows.Scan(&p, &c) == nil {
					s.Links = append(s.Links, fmt.Sprintf("%x>%x", p, c))
				}
			}
			rows.Close()
		}
		sort.Strings(s.Links)
	}
	return s
}

// LootTree lists every regular file under the scratch root except the
// database, keyed by relative path.
func (w *World) LootTree() map[string]string {
	out := map[string]string{}
	filepath.WalkDir(w.Dir, func(p string, d fs.DirEntry, err error) error {
		if err != nil {
			return nil
		}
		rel, _ := filepath.Rel(w.Dir, p)
		if d.IsDir() {
			if rel != "." {
				out[rel+"/"] = "dir"
			}
			return nil
		}
		if strings.HasPrefix(rel, "data/ts.db") {
			return nil
		}
		b, err := os.ReadFile(p)
		if err != nil {
			out[rel] = "unreadable"
			return nil
		}
		h := sha1.Sum(b)
		out[rel] = fmt.Sprintf("%d:%s", len(b), hex.EncodeToString(h[:6]))
		return nil
	})
	return out
}

// Diff lists the observable differences between two snapshots.
func Diff(a, b Snap, ignoreLogs bool) []string {
	var d []string
	if a.Events != b.Events {
		d = append(d, fmt.Sprintf("events %d->%d", a.Events, b.Events))
	}
	cmp := func(name string, x, y map[string]string) {
		keys := map[string]bool{}
		for k := range x {
			keys[k] = true
		}
		for k := range y {
			keys[k] = true
		}
		var ks []string
		for k := range keys {
			ks = append(ks, k)
		}
		sort.Strings(ks)
		for _, k := range ks {
			if ignoreLogs && name == "loot" && (strings.Contains(k, "Console_") || strings.HasSuffix(k, ".log")) {
				continue
			}
			if x[k] != y[k] {
				d = append(d, fmt.Sprintf("%s[%s] %q -> %q", name, k, trunc(x[k]), trunc(y[k])))
			}
		}
	}
	cmp("session", a.Sessions, b.Sessions)
	cmp("queue", a.Queues, b.Queues)
	cmp("tasks", a.Tasks, b.Tasks)
	cmp("loot", a.Loot, b.Loot)
	cmp("db.agent", a.Agents, b.Agents)
	if strings.Join(a.Links, ",") != strings.Join(b.Links, ",") {
		d = append(d, fmt.Sprintf("db.links %v -> %v", a.Links, b.Links))
	}
	return d
}

func trunc(s string) string {
	if len(s) > 160 {
		return s[:160] + "…"
	}
	return s
}
