// Package world builds a real Havoc teamserver in-process (without Start())
// and offers the entry points the drivers use: agent traffic as bytes through
// the External-C2 handler, operator websockets through VerifHandleRequest.
package world

import (
	"bytes"
	"fmt"
	"io"
	"net"
	"net/http"
	"net/http/httptest"
	"os"
	"path/filepath"
	"runtime/debug"
	"sort"
	"strconv"
	"sync"
	"sync/atomic"
	"time"

	server "Havoc/cmd/server"
	"Havoc/pkg/agent"
	"Havoc/pkg/handlers"
	"Havoc/pkg/logger"
	"Havoc/pkg/logr"
	"Havoc/pkg/packager"
	"Havoc/pkg/profile"
	"Havoc/pkg/service"

	"github.com/gin-gonic/gin"

	"vcheck/refdemon"
)

func init() {
	gin.SetMode(gin.ReleaseMode)
}

var logOnce sync.Once

// QuietLogs redirects Havoc's global logger to a file (it writes to stdout otherwise).
func QuietLogs(dir string) {
	logOnce.Do(func() {
		f, err := os.Create(filepath.Join(dir, "havoc.log"))
		if err != nil {
			f, _ = os.Open(os.DevNull)
		}
		logger.LoggerInstance = logger.NewLogger(f)
	})
}

type World struct {
	Dir  string // scratch root (owned)
	Loot string // loot tree root (Dir/data/loot)
	TS   *server.Teamserver
	Ext  *handlers.External
	Keys map[uint32]refdemon.Keys
	Runs int // restarts so far

	restarting int32 // a Restart is between "Start launched" and "operator endpoint up" (atomic)
}

type Options struct {
	SendLogs bool
	Service  bool // profile has a Service block
	Users    map[string]string
}

// New creates a fresh teamserver with one External listener "ext".
func New(parent string, opt Options) (*World, error) {
	dir, err := os.MkdirTemp(parent, "w")
	if err != nil {
		return nil, err
	}
	QuietLogs(parent)
	w := &World{Dir: dir, Keys: map[uint32]refdemon.Keys{}}
	if err := os.MkdirAll(filepath.Join(dir, "data"), 0o755); err != nil {
		return nil, err
	}
	w.TS = server.NewTeamserver(filepath.Join(dir, "data", "ts.db"))
	if w.TS == nil {
		return nil, fmt.Errorf("NewTeamserver failed")
	}
	w.TS.Flags.Server.SendLogs = opt.SendLogs
	p := &profile.Profile{}
	p.Config.Demon = &profile.Demon{Sleep: 2, Jitter: 10}
	p.Config.Operators = &profile.OperatorsBlock{}
	users := opt.Users
	if users == nil {
		users = map[string]string{"neo": "pw-neo", "trinity": "pw-trinity"}
	}
	var names []string
	for n := range users {
		names = append(names, n)
	}
	sort.Strings(names)
	for _, n := range names {
		p.Config.Operators.Users = append(p.Config.Operators.Users, profile.UsersBlock{Name: n, Password: users[n]})
	}
	if opt.Service {
		p.Config.Service = &profile.ServiceConfig{Endpoint: "svc", Password: "svc-pw"}
	}
	w.TS.Profile = p
	w.TS.Server.Path = dir
	w.TS.Server.Engine = gin.New()
	if opt.Service {
		// as Teamserver.Start does for a profile with a Service block
		w.TS.Service = service.NewService(w.TS.Server.Engine)
		w.TS.Service.Teamserver = w.TS
		w.TS.Service.Data.ServerAgents = &w.TS.Agents
		w.TS.Service.Config = *p.Config.Service
	}
	w.Loot = filepath.Join(dir, "data", "loot")
	logr.LogrInstance = logr.NewLogr(dir, w.Loot)
	if logr.LogrInstance == nil {
		return nil, fmt.Errorf("NewLogr failed")
	}
	if err := w.TS.ListenerStart(handlers.LISTENER_EXTERNAL, handlers.ExternalConfig{Name: "ext", Endpoint: "ext"}); err != nil {
		return nil, err
	}
	w.Ext = w.TS.Listeners[0].Config.(*handlers.External)
	return w, nil
}

// Restart stops this teamserver (its database is closed) and starts a new one on the same database file with the real
// Teamserver.Start - a new run with a loot tree of its own; listeners and sessions are brought back by Start itself.
// Start also opens the operator endpoint (TLS on a loopback port of this process' private range) and never returns; the
// old run's goroutines are left behind like those of a killed process would be gone.
func (w *World) Restart() error {
	old := w.TS
	if old.DB != nil {
		old.DB.VerifClose()
	}
	w.Runs++
	// Start works in the current directory: it opens the database again under the path it is given, relative to it, and
	// writes data/server.cert and data/server.key
	cwd, err := os.Getwd()
	if err != nil {
		return err
	}
	if err := os.Chdir(w.Dir); err != nil {
		return err
	}
	defer os.Chdir(cwd)
	ts := server.NewTeamserver(filepath.Join("data", "ts.db"))
	if ts == nil {
		return fmt.Errorf("NewTeamserver failed on restart")
	}
	ts.Flags.Server.SendLogs = old.Flags.Server.SendLogs
	ts.Flags.Server.Host = "127.0.0.1"
	ts.Flags.Server.Port = RestartPort()
	ts.Profile = old.Profile
	ts.Server.Path = w.Dir
	w.Loot = filepath.Join(w.Dir, "data", fmt.Sprintf("loot-run%d", w.Runs))
	logr.LogrInstance = logr.NewLogr(w.Dir, w.Loot)
	if logr.LogrInstance == nil {
		return fmt.Errorf("NewLogr failed on restart")
	}
	w.TS = ts
	// (Close waits for this: Start ends the process when it cannot write its certificate into the run's directory)
	atomic.StoreInt32(&w.restarting, 1)
	defer atomic.StoreInt32(&w.restarting, 0)
	go ts.Start()
	// the last thing Start does before it parks is to retain the profile event
	ok := false
	for end := time.Now().Add(60 * time.Second); time.Now().Before(end) && !ok; time.Sleep(5 * time.Millisecond) {
		for _, ev := range ts.EventsList {
			if ev.Head.Event == packager.Type.InitConnection.Type && ev.Body.SubEvent == packager.Type.InitConnection.Profile {
				ok = true
			}
		}
	}
	// Start generates the operator endpoint's certificate on the side and ends the process when it cannot write it or
	// cannot listen: the run's directory must stay until that endpoint is up
	up := false
	for end := time.Now().Add(60 * time.Second); time.Now().Before(end) && !up; time.Sleep(5 * time.Millisecond) {
		if c, err := net.DialTimeout("tcp", "127.0.0.1:"+ts.Flags.Server.Port, 200*time.Millisecond); err == nil {
			c.Close()
			up = true
		}
	}
	if !up {
		return fmt.Errorf("the restarted teamserver's operator endpoint did not come up")
	}
	if !ok {
		return fmt.Errorf("Start did not finish restoring")
	}
	w.Ext = nil
	for _, l := range ts.Listeners {
		if e, isExt := l.Config.(*handlers.External); isExt && l.Name == "ext" {
			w.Ext = e
		}
	}
	if w.Ext == nil {
		return fmt.Errorf("external listener not restored")
	}
	return nil
}

// RestartPort yields the port for the operator endpoint of a restarted teamserver (set by the drive package: a port of
// this process' private range)
var RestartPort = func() string { return "0" }

func (w *World) Close() {
	// a restart that is still under way (its caller gave up waiting): the directory stays until it is through
	for end := time.Now().Add(150 * time.Second); atomic.LoadInt32(&w.restarting) != 0 && time.Now().Before(end); {
		time.Sleep(20 * time.Millisecond)
	}
	if w.TS != nil && w.TS.DB != nil {
		w.TS.DB.VerifClose()
	}
	os.RemoveAll(w.Dir)
}

// Result of one request through an agent-facing endpoint.
type Result struct {
	Status  int
	Body    []byte
	Panic   string // non-empty: the handler panicked; value + stack
	Timeout bool   // the handler did not return within the watchdog
}

// Request sends raw bytes through the External-C2 handler (same
// parseAgentRequest as the HTTP listener).
func (w *World) Request(body []byte) Result {
	return w.RequestWith(body, 20*time.Second)
}

func (w *World) RequestWith(body []byte, watchdog time.Duration) Result {
	done := make(chan Result, 1)
	go func() {
		var res Result
		defer func() {
			if r := recover(); r != nil {
				res.Panic = fmt.Sprintf("%v\n%s", r, debug.Stack())
			}
			done <- res
		}()
		rec := httptest.NewRecorder()
		ctx, _ := gin.CreateTestContext(rec)
		ctx.Request = httptest.NewRequest(http.MethodPost, "/ext", bytes.NewReader(body))
		ctx.Request.RemoteAddr = "192.0.2.10:4444"
		w.Ext.Request(ctx)
		res.Status = rec.Code
		res.Body, _ = io.ReadAll(rec.Body)
	}()
	select {
	case r := <-done:
		return r
	case <-time.After(watchdog):
		return Result{Timeout: true}
	}
}

// Burst sends the same body n times at the same moment (everything is prepared before a common start signal) and
// returns the n results; a request that does not return within the watchdog is reported as Timeout.
func (w *World) Burst(body []byte, n int, watchdog time.Duration) []Result {
	res := make([]Result, n)
	done := make([]chan struct{}, n)
	start := make(chan struct{})
	for g := 0; g < n; g++ {
		done[g] = make(chan struct{})
		rec := httptest.NewRecorder()
		ctx, _ := gin.CreateTestContext(rec)
		ctx.Request = httptest.NewRequest(http.MethodPost, "/ext", bytes.NewReader(body))
		ctx.Request.RemoteAddr = "192.0.2.10:4444"
		go func(g int) {
			defer close(done[g])
			defer func() {
				if r := recover(); r != nil {
					res[g].Panic = fmt.Sprintf("%v\n%s", r, debug.Stack())
				}
			}()
			<-start
			w.Ext.Request(ctx)
			res[g].Status = rec.Code
			res[g].Body, _ = io.ReadAll(rec.Body)
		}(g)
	}
	close(start)
	deadline := time.After(watchdog)
	for g := 0; g < n; g++ {
		select {
		case <-done[g]:
		case <-deadline:
			res[g] = Result{Timeout: true}
			deadline = time.After(time.Millisecond)
		}
	}
	return res
}

// Register registers a Demon and records its keys.
func (w *World) Register(id uint32, k refdemon.Keys, m refdemon.Meta) Result {
	r := w.Request(refdemon.Register(id, k, m))
	if r.Panic == "" && !r.Timeout && r.Status == 200 {
		if _, seen := w.Keys[id]; !seen {
			w.Keys[id] = k
		}
	}
	return r
}

// Agent returns the live session object for an id, or nil.
func (w *World) Agent(id uint32) *agent.Agent {
	for _, a := range w.TS.Agents.Agents {
		v, err := strconv.ParseUint(a.NameID, 16, 64)
		if err == nil && uint32(v) == id {
			return a
		}
	}
	return nil
}

// AgentsByID returns all session objects whose NameID parses to id.
func (w *World) AgentsByID(id uint32) []*agent.Agent {
	var out []*agent.Agent
	for _, a := range w.TS.Agents.Agents {
		v, err := strconv.ParseUint(a.NameID, 16, 64)
		if err == nil && uint32(v) == id {
			out = append(out, a)
		}
	}
	return out
}

// KeysFor derives deterministic distinct key material for symbol index i under seed.
func KeysFor(seed int64, i int, zero bool) refdemon.Keys {
	k := refdemon.Keys{Key: make([]byte, 32), IV: make([]byte, 16)}
	if zero {
		return k
	}
	x := uint64(seed)*0x9E3779B97F4A7C15 + uint64(i+1)*0xBF58476D1CE4E5B9
	next := func() byte {
		x ^= x << 13
		x ^= x >> 7
		x ^= x << 17
		return byte(x >> 24)
	}
	for j := range k.Key {
		k.Key[j] = next()
	}
	k.Key[0] |= 1
	for j := range k.IV {
		k.IV[j] = next()
	}
	return k
}
