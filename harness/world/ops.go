package world

import (
	"fmt"
	"net"
	"net/http"
	"net/http/httptest"
	"runtime/debug"
	"strings"
	"sync"
	"time"

	server "Havoc/cmd/server"
	"Havoc/pkg/packager"

	"github.com/gorilla/websocket"
)

// Ops is the operator-facing websocket endpoint of a World, wired exactly as
// Teamserver.Start wires /havoc/ (store the Client, run handleRequest in its
// own goroutine) but on an httptest server.
type Ops struct {
	w      *World
	srv    *httptest.Server
	mu     sync.Mutex
	Panics []string
	n      int
}

func (w *World) StartOps() *Ops {
	o := &Ops{w: w}
	mux := http.NewServeMux()
	mux.HandleFunc("/havoc/", func(rw http.ResponseWriter, r *http.Request) {
		up := websocket.Upgrader{}
		ws, err := up.Upgrade(rw, r, nil)
		if err != nil {
			return
		}
		o.mu.Lock()
		o.n++
		id := fmt.Sprintf("cl%04d", o.n)
		o.mu.Unlock()
		w.TS.Clients.Store(id, &server.Client{GlobalIP: ws.RemoteAddr().String(), Connection: ws, Packager: packager.NewPackager()})
		go func() {
			defer func() {
				if p := recover(); p != nil {
					o.mu.Lock()
					o.Panics = append(o.Panics, fmt.Sprintf("%v\n%s", p, debug.Stack()))
					o.mu.Unlock()
				}
			}()
			w.TS.VerifHandleRequest(id)
		}()
	})
	o.srv = httptest.NewServer(mux)
	return o
}

func (o *Ops) Close() { o.srv.CloseClientConnections(); o.srv.Close() }

func (o *Ops) TakePanics() []string {
	o.mu.Lock()
	defer o.mu.Unlock()
	p := o.Panics
	o.Panics = nil
	return p
}

// OpClient is a websocket client with a reader goroutine.
type OpClient struct {
	Conn    *websocket.Conn
	mu      sync.Mutex
	frames  []string
	Closed  bool
	stalled chan struct{} // closed by Stall: the reader stops reading, the connection stays open
}

// Stall makes the client stop reading for good while keeping its TCP connection open (a frozen peer).
func (c *OpClient) Stall() {
	if tc, ok := c.Conn.UnderlyingConn().(*net.TCPConn); ok {
		tc.SetReadBuffer(2048)
	}
	close(c.stalled)
}

func (o *Ops) Dial() (*OpClient, error) {
	url := "ws" + strings.TrimPrefix(o.srv.URL, "http") + "/havoc/"
	c, _, err := websocket.DefaultDialer.Dial(url, nil)
	if err != nil {
		return nil, err
	}
	oc := &OpClient{Conn: c, stalled: make(chan struct{})}
	go func() {
		for {
			select {
			case <-oc.stalled:
				select {} // never reads again
			default:
			}
			_, msg, err := c.ReadMessage()
			if err != nil {
				oc.mu.Lock()
				oc.Closed = true
				oc.mu.Unlock()
				return
			}
			oc.mu.Lock()
			oc.frames = append(oc.frames, string(msg))
			oc.mu.Unlock()
		}
	}()
	return oc, nil
}

func (c *OpClient) Frames() []string {
	c.mu.Lock()
	defer c.mu.Unlock()
	return append([]string{}, c.frames...)
}

func (c *OpClient) Send(text string) error {
	return c.Conn.WriteMessage(websocket.TextMessage, []byte(text))
}

// Abort resets the TCP connection (no close handshake, RST).
func (c *OpClient) Abort() {
	if tc, ok := c.Conn.UnderlyingConn().(*net.TCPConn); ok {
		tc.SetLinger(0)
	}
	c.Conn.UnderlyingConn().Close()
}

// ClientCount is the size of the server's client table.
func (w *World) ClientCount() int {
	n := 0
	w.TS.Clients.Range(func(k, v any) bool { n++; return true })
	return n
}

// LockedClients lists table entries whose send mutex cannot be taken.
func (w *World) LockedClients() []string {
	var out []string
	w.TS.Clients.Range(func(k, v any) bool {
		cl := v.(*server.Client)
		if cl.Mutex.TryLock() {
			cl.Mutex.Unlock()
		} else {
			// give an in-flight send a moment before calling it stuck
			time.Sleep(30 * time.Millisecond)
			if cl.Mutex.TryLock() {
				cl.Mutex.Unlock()
			} else {
				out = append(out, k.(string))
			}
		}
		return true
	})
	return out
}

// ---- third-party service endpoint ----

// Svc is the service websocket endpoint, wired as Service.Start wires it.
type Svc struct {
	w      *World
	srv    *httptest.Server
	mu     sync.Mutex
	Panics []string
}

func (w *World) StartSvc() *Svc {
	o := &Svc{w: w}
	mux := http.NewServeMux()
	mux.HandleFunc("/svc", func(rw http.ResponseWriter, r *http.Request) {
		up := websocket.Upgrader{}
		ws, err := up.Upgrade(rw, r, nil)
		if err != nil {
			return
		}
		go func() {
			defer func() {
				if p := recover(); p != nil {
					o.mu.Lock()
					o.Panics = append(o.Panics, fmt.Sprintf("%v\n%s", p, debug.Stack()))
					o.mu.Unlock()
				}
			}()
			w.TS.Service.VerifHandleConnection(ws)
		}()
	})
	o.srv = httptest.NewServer(mux)
	return o
}

func (o *Svc) Close() { o.srv.CloseClientConnections(); o.srv.Close() }
func (o *Svc) TakePanics() []string {
	o.mu.Lock()
	defer o.mu.Unlock()
	p := o.Panics
	o.Panics = nil
	return p
}
func (o *Svc) Dial() (*OpClient, error) {
	url := "ws" + strings.TrimPrefix(o.srv.URL, "http") + "/svc"
	c, _, err := websocket.DefaultDialer.Dial(url, nil)
	if err != nil {
		return nil, err
	}
	oc := &OpClient{Conn: c, stalled: make(chan struct{})}
	go func() {
		for {
			select {
			case <-oc.stalled:
				select {} // never reads again
			default:
			}
			_, msg, err := c.ReadMessage()
			if err != nil {
				oc.mu.Lock()
				oc.Closed = true
				oc.mu.Unlock()
				return
			}
			oc.mu.Lock()
			oc.frames = append(oc.frames, string(msg))
			oc.mu.Unlock()
		}
	}()
	return oc, nil
}

func (c *OpClient) IsClosed() bool {
	c.mu.Lock()
	defer c.mu.Unlock()
	return c.Closed
}
