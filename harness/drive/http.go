package drive

import (
	"bytes"
	"fmt"
	"net/http"
	"net/http/httptest"
	"runtime/debug"
	"strings"

	"Havoc/pkg/handlers"

	"vcheck/refdemon"
	"vcheck/world"
)

// ---- HttpListener (C12): admission by listener profile ----

const (
	httpUA    = "Mozilla/5.0 (Verif; rv:1.0)"
	respPlain = "X-Resp: r1"
	respColon = "Location: http://h:80/p"
	peerV4    = "192.0.2.7"
	peerV6    = "2001:db8::17"
	xffValue  = "203.0.113.9"
)

func RunHTTP(behs [][]Step, tr *Trace, env Env, sum *Summary) {
	w, err := world.New(env.Scratch, world.Options{})
	must(err)
	defer w.Close()
	port := freePort()
	must(w.TS.ListenerStart(handlers.LISTENER_HTTP, handlers.HTTPConfig{Name: "web", Hosts: []string{"127.0.0.1"}, HostBind: "127.0.0.1", PortBind: port, HostRotation: "round-robin"}))
	var h *handlers.HTTP
	for _, l := range w.TS.Listeners {
		if l.Name == "web" {
			h = l.Config.(*handlers.HTTP)
		}
	}
	seq := 0
	for bi, beh := range behs {
		cell := beh[0]
		c := cell["cfg"].(map[string]any)
		r := cell["req"].(map[string]any)
		cb := func(k string) bool { v, _ := c[k].(bool); return v }
		rb := func(k string) bool { v, _ := r[k].(bool); return v }
		cs := func(m map[string]any, k string) string { v, _ := m[k].(string); return v }
		// ---- configuration
		cfg := handlers.HTTPConfig{Name: "web", Hosts: []string{"127.0.0.1"}, HostBind: "127.0.0.1", PortBind: port, HostRotation: "round-robin"}
		switch cs(c, "uris") {
		case "empty1":
			cfg.Uris = []string{""}
		case "one":
			cfg.Uris = []string{"/a"}
		case "two":
			cfg.Uris = []string{"/a", "/b?x=1"}
		}
		if cb("hPlain") {
			cfg.Headers = append(cfg.Headers, "X-Plain: v1")
		}
		if cb("hIgnored") {
			cfg.Headers = append(cfg.Headers, "Connection: keep-alive", "Accept-Encoding: gzip")
		}
		if cb("hMulti") {
			cfg.Headers = append(cfg.Headers, "X-Multi: a: b")
		}
		if cb("hNoSep") {
			cfg.Headers = append(cfg.Headers, "Garbage")
		}
		if cb("ua") {
			cfg.UserAgent = httpUA
		}
		cfg.BehindRedir = cb("redir")
		switch cs(c, "resp") {
		case "plain":
			cfg.Response.Headers = []string{respPlain}
		case "colon":
			cfg.Response.Headers = []string{respColon}
		case "nospace": // no blank after the colon, and a tab after it
			cfg.Response.Headers = []string{"X-Frame-Options:DENY", "X-Tab:\tv"}
		}
		h.Config = cfg
		// ---- request: the body is a valid registration of a fresh agent, so "reached the agent protocol" is observable
		seq++
		id := uint32(0x01000000 + seq + env.Shard*1000000)
		k := world.KeysFor(env.Seed, seq, false)
		body := refdemon.Register(id, k, refdemon.DefaultMeta("web"))
		req := httptest.NewRequest(cs(r, "method"), "http://127.0.0.1:"+port+cs(r, "path"), bytes.NewReader(body))
		req.RequestURI = cs(r, "path")
		switch cs(r, "plain") {
		case "ok":
			req.Header.Set("X-Plain", "v1")
		case "wrong":
			req.Header.Set("X-Plain", "v2")
		case "lowername":
			req.Header["x-plain"] = nil
			req.Header.Set("x-plain", "v1")
		}
		switch cs(r, "multi") {
		case "full":
			req.Header.Set("X-Multi", "a: b")
		case "prefix":
			req.Header.Set("X-Multi", "a")
		}
		if rb("connOther") {
			req.Header.Set("Connection", "close")
			req.Header.Set("Accept-Encoding", "br")
		} else {
			req.Header.Set("Connection", "keep-alive")
			req.Header.Set("Accept-Encoding", "gzip")
		}
		switch cs(r, "ua") {
		case "match":
			req.Header.Set("User-Agent", httpUA)
		case "mismatch":
			req.Header.Set("User-Agent", "curl/8.0")
		default:
			req.Header.Del("User-Agent")
		}
		if cs(r, "peer") == "v6" {
			req.RemoteAddr = "[" + peerV6 + "]:50123"
		} else {
			req.RemoteAddr = peerV4 + ":50123"
		}
		if rb("xff") {
			req.Header.Set("X-Forwarded-For", xffValue)
		}
		before := w.Snapshot()
		nAgents := len(w.TS.Agents.Agents)
		rec := httptest.NewRecorder()
		pan := ""
		func() {
			defer func() {
				if p := recover(); p != nil {
					pan = fmt.Sprintf("%v\n%s", p, debug.Stack())
				}
			}()
			h.GinEngine.ServeHTTP(rec, req)
		}()
		if pan != "" {
			sum.Incidents = append(sum.Incidents, Incident{Behaviour: bi, Kind: "panic", Site: "Serve", Detail: firstLines(pan, 12)})
		}
		admitted := len(w.TS.Agents.Agents) > nAgents
		changed := len(world.Diff(before, w.Snapshot(), false)) > 0
		resp, ip := "n/a", "n/a"
		if admitted {
			resp = "none"
			got := rec.Header()
			switch cs(c, "resp") {
			case "plain":
				if strings.TrimSpace(got.Get("X-Resp")) == "r1" { // on the wire net/http trims optional whitespace around values
					resp = "plain"
				} else {
					resp = "?" + got.Get("X-Resp")
				}
			case "nospace":
				if strings.TrimSpace(got.Get("X-Frame-Options")) == "DENY" && strings.TrimSpace(got.Get("X-Tab")) == "v" {
					resp = "nospace"
				} else {
					resp = "?" + got.Get("X-Frame-Options") + "|" + got.Get("X-Tab")
				}
			case "colon":
				if strings.TrimSpace(got.Get("Location")) == "http://h:80/p" {
					resp = "colon"
				} else {
					resp = "?" + got.Get("Location")
				}
			}
			a := w.TS.Agents.Agents[len(w.TS.Agents.Agents)-1]
			switch a.Info.ExternalIP {
			case peerV4:
				ip = "v4"
			case peerV6:
				ip = "v6"
			case xffValue:
				ip = "xff"
			case "":
				ip = "empty"
			default:
				ip = "?" + a.Info.ExternalIP
			}
			sum.Counters["admitted"]++
		} else {
			sum.Counters["rejected"]++
		}
		tr.Emit(map[string]any{"ev": "Reset", "cfg": c, "req": r})
		tr.Emit(map[string]any{"ev": "Serve", "res": map[string]any{"admitted": admitted, "status": rec.Code, "changed": changed, "resp": resp, "ip": ip}})
		if bi < 3 {
			sum.Samples = append(sum.Samples, map[string]any{"cfg": c, "req": r, "headers": strings.Join(cfg.Headers, " | ")})
		}
		sum.Behaviours++
		_ = http.StatusOK
	}
}

func init() {
	Modules["http"] = func(behs [][]Step, tr *Trace, env Env, sum *Summary) { RunHTTP(behs, tr, env, sum) }
}
