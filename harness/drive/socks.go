package drive

import (
	"bytes"
	"encoding/binary"
	"fmt"
	"io"
	"math/rand"
	"net"
	"time"

	"Havoc/pkg/packager"

	"vcheck/refdemon"
	"vcheck/world"
)

// ---- Socks (C15) ----

type socksWorld struct {
	w    *world.World
	id   uint32
	port string
	name string
}

func (sw *socksWorld) operator(cmd, param string) (string, bool) {
	pk := packager.Package{}
	pk.Head.Event, pk.Head.User, pk.Body.SubEvent = packager.Type.Session.Type, "neo", packager.Type.Session.Input
	pk.Body.Info = map[string]any{"DemonID": sw.name, "CommandID": "2540", "Command": cmd, "Params": param, "TaskID": "0000C0DE", "CommandLine": cmd + " " + param}
	return guarded(func() { sw.w.TS.DispatchEvent(pk) }, 8*time.Second)
}

func newSocksWorld(env Env, salt int) *socksWorld {
	w, err := world.New(env.Scratch, world.Options{})
	must(err)
	rng := rand.New(rand.NewSource(env.Seed + int64(salt)))
	id := uint32(rng.Int63n(0x7ffffff0)) + 2
	r := w.Register(id, world.KeysFor(env.Seed, salt, false), refdemon.DefaultMeta("s"))
	if r.Status != 200 {
		panic("harness-error: registration failed")
	}
	sw := &socksWorld{w: w, id: id, name: fmt.Sprintf("%08x", id)}
	sw.port = freePort()
	sw.operator("socks add", sw.port)
	for i := 0; i < 200; i++ {
		c, err := net.DialTimeout("tcp", "127.0.0.1:"+sw.port, 200*time.Millisecond)
		if err == nil {
			c.Close()
			break
		}
		time.Sleep(10 * time.Millisecond)
	}
	// the probe connection above sent nothing: the handler gave up on it
	return sw
}

// tasks fetches the agent's queued socket tasks.
func (sw *socksWorld) tasks() []refdemon.Task {
	r := sw.w.Request(refdemon.CheckIn(sw.id, sw.w.Keys[sw.id]))
	ts, _ := refdemon.ParseTasks(r.Body, sw.w.Keys[sw.id])
	var out []refdemon.Task
	for _, t := range ts {
		if t.Cmd == refdemon.CmdSocket {
			out = append(out, t)
		}
	}
	return out
}

func (sw *socksWorld) callback(body []byte) world.Result {
	return sw.w.RequestWith(refdemon.Packages(sw.id, sw.w.Keys[sw.id], []refdemon.Sub{{Cmd: refdemon.CmdSocket, Req: 0, Body: body}}), 8*time.Second)
}

func isTimeout(err error) bool {
	ne, ok := err.(net.Error)
	return ok && ne.Timeout()
}

func readN(c net.Conn, n int, d time.Duration) []byte {
	buf := make([]byte, n)
	c.SetReadDeadline(time.Now().Add(d))
	got, _ := io.ReadFull(c, buf)
	return buf[:got]
}

func pattern(n int, seed byte) []byte {
	b := make([]byte, n)
	for i := range b {
		b[i] = byte(i*7) ^ seed
	}
	return b
}

func RunSocks(behs [][]Step, tr *Trace, env Env, sum *Summary) {
	sw := newSocksWorld(env, env.Shard)
	defer sw.w.Close()
	for bi, beh := range behs {
		bi, beh := bi, beh
		// a scenario that does not finish (a table mutex that is never released, a relay that stalls) must not
		// stall the whole run: it is reported and the shard stops
		if pan, to := guarded(func() { runSocksScenario(sw, bi, beh, tr, sum) }, 45*time.Second); pan != "" || to {
			sum.Incidents = append(sum.Incidents, Incident{Behaviour: bi, Kind: map[bool]string{true: "hang", false: "panic"}[to], Site: "socks scenario", Detail: firstLines(pan, 14)})
			break
		}
	}
}

func runSocksScenario(sw *socksWorld, bi int, beh []Step, tr *Trace, sum *Summary) {
	{
		sc := beh[0]["sc"].(map[string]any)
		s := func(k string) string { v, _ := sc[k].(string); return v }
		n := func(k string) int { v, _ := sc[k].(float64); return int(v) }
		// ---- the client's bytes
		methods := map[string][]byte{"none": {}, "m0": {0}, "m2": {2}, "m02": {0, 2}, "m20": {2, 0}, "m12": {1, 2}}[s("methods")]
		greeting := append([]byte{5, byte(len(methods))}, methods...)
		var addr []byte
		switch n("atyp") {
		case 1:
			addr = []byte{198, 51, 100, 7}
		case 3:
			addr = append([]byte{byte(n("dlen"))}, bytes.Repeat([]byte("d"), n("dlen"))...)
		case 4:
			addr = []byte{0x20, 1, 0xd, 0xb8, 0, 0, 0, 0, 0, 0, 0, 0, 0, 0, 0, 0x42}
		default:
			addr = []byte{1, 2, 3, 4}
		}
		portBytes := []byte{0x1f, 0x90}
		request := append(append([]byte{5, byte(n("cmd")), 0, byte(n("atyp"))}, addr...), portBytes...)
		switch s("cut") {
		case "afterGreeting":
			request = nil
		case "midRequest":
			request = request[:2]
		case "midAddress":
			request = request[:4+len(addr)/2]
		case "beforePort":
			request = request[:4+len(addr)]
		}
		toClient, toAgent := []string{}, []string{}
		conn, err := net.DialTimeout("tcp", "127.0.0.1:"+sw.port, 2*time.Second)
		must(err)
		tc := conn.(*net.TCPConn)
		tc.SetNoDelay(true)
		gap := 25 * time.Millisecond
		methodReply := func() {
			r := readN(conn, 2, 1200*time.Millisecond)
			switch {
			case bytes.Equal(r, []byte{5, 0}):
				toClient = append(toClient, "method:00")
			case bytes.Equal(r, []byte{5, 0xff}):
				toClient = append(toClient, "method:ff")
			case len(r) == 0:
			default:
				toClient = append(toClient, fmt.Sprintf("?method:%x", r))
			}
		}
		switch s("seg") {
		case "pipelined":
			conn.Write(append(append([]byte{}, greeting...), request...))
			methodReply()
		case "separate":
			conn.Write(greeting)
			methodReply()
			if len(request) > 0 {
				conn.Write(request)
			}
		case "splitAddress":
			conn.Write(greeting)
			methodReply()
			if len(request) > 0 {
				k := len(request)
				if k > 5 {
					k = 4 + (len(request)-4)/2
				}
				conn.Write(request[:k])
				time.Sleep(gap)
				if k < len(request) {
					conn.Write(request[k:])
				}
			}
		case "bytewise":
			for _, b := range greeting {
				conn.Write([]byte{b})
				time.Sleep(2 * time.Millisecond)
			}
			methodReply()
			for i, b := range request {
				conn.Write([]byte{b})
				if i < 12 {
					time.Sleep(2 * time.Millisecond)
				}
			}
		}
		if s("cut") != "full" {
			time.Sleep(gap)
			tc.CloseWrite()
		}
		// ---- what comes back for the request: a rejection reply, or a connect task on the agent side
		reply := func(d time.Duration) {
			head := readN(conn, 4, d)
			if len(head) == 0 {
				return
			}
			if len(head) < 4 || head[0] != 5 || head[2] != 0 {
				toClient = append(toClient, fmt.Sprintf("?reply:%x", head))
				return
			}
			var rest []byte
			switch head[3] {
			case 1:
				rest = readN(conn, 6, 500*time.Millisecond)
			case 4:
				rest = readN(conn, 18, 500*time.Millisecond)
			case 3:
				l := readN(conn, 1, 500*time.Millisecond)
				if len(l) == 1 {
					rest = append(l, readN(conn, int(l[0])+2, 500*time.Millisecond)...)
				}
			}
			label := fmt.Sprintf("reply:%02x", head[1])
			if head[1] == 7 || head[1] == 8 {
				if !(head[3] == 1 && bytes.Equal(rest, make([]byte, 6))) {
					label = "?" + label + ":form"
				}
			} else if !(int(head[3]) == n("atyp") && bytes.Equal(rest, append(append([]byte{}, addr...), portBytes...))) {
				label = "?" + label + ":echo" // the reply must echo address type, address and port
			}
			toClient = append(toClient, label)
		}
		time.Sleep(gap)
		var sockID uint32
		haveSock := false
		// how long to wait for the connect task is the only thing the scenario is consulted for here
		wait := 1
		if s("cut") == "full" && n("cmd") == 1 && n("atyp") != 9 && (s("methods") == "m0" || s("methods") == "m02" || s("methods") == "m20") {
			wait = 50
		}
		var first []refdemon.Task
		for tries := 0; tries < wait && len(first) == 0; tries++ {
			if tries > 0 {
				time.Sleep(30 * time.Millisecond)
			}
			first = sw.tasks()
		}
		for _, t := range first {
			rd := &refdemon.Rd{B: t.Body}
			if sub := rd.I32(); sub == 0x14 {
				id := rd.I32()
				at := rd.Byte()
				host := rd.Bytes()
				port := rd.I16()
				wantHost := addr
				if n("atyp") == 3 {
					wantHost = addr[1:]
				}
				if rd.Err == nil && len(rd.B) == 0 && int(at) == n("atyp") && bytes.Equal(host, wantHost) && port == 0x1f90 {
					toAgent = append(toAgent, "connect")
				} else {
					toAgent = append(toAgent, "?connect-mismatch")
				}
				sockID, haveSock = id, true
			} else {
				toAgent = append(toAgent, fmt.Sprintf("?task:%x", sub))
			}
		}
		if !haveSock {
			reply(500 * time.Millisecond)
		}
		inTable := func() bool {
			return haveSock && sw.w.Agent(sw.id) != nil && sw.w.Agent(sw.id).SocksClientGet(int(int32(sockID))) != nil
		}
		emit := func(op string) {
			tr.Emit(map[string]any{"ev": op, "res": map[string]any{"toClient": append([]string{}, toClient...), "toAgent": append([]string{}, toAgent...), "table": inTable()}})
		}
		tr.Emit(map[string]any{"ev": "Reset", "sc": sc})
		emit("Handshake")
		for _, st := range beh[1:] {
			switch st.Str("op") {
			case "Wait":
				// longer than any handshake takes (and than any deadline a handshake might be given)
				time.Sleep(6 * time.Second)
				sum.Counters["pauses of 6 s"]++
				emit("Wait")
			case "AgentAnswer":
				code := map[string]uint32{"ok": 0, "timeout": 10060, "refused": 10061, "hostunreach": 10065, "netunreach": 10051, "other": 12345}[s("answer")]
				b := &refdemon.Buf{}
				success := uint32(0)
				if s("answer") == "ok" {
					success = 1
				}
				b.I32(0x14).I32(success).I32(sockID).I32(code)
				if r := sw.callback(b.B); r.Panic != "" || r.Timeout {
					sum.Incidents = append(sum.Incidents, Incident{Behaviour: bi, Kind: map[bool]string{true: "hang", false: "panic"}[r.Timeout], Site: "AgentAnswer", Detail: firstLines(r.Panic, 12)})
				}
				reply(1200 * time.Millisecond)
				if s("answer") != "ok" {
					if r := readN(conn, 1, 600*time.Millisecond); len(r) == 0 {
						// distinguish EOF from timeout
						conn.SetReadDeadline(time.Now().Add(300 * time.Millisecond))
						if _, err := conn.Read(make([]byte, 1)); err == io.EOF {
							toClient = append(toClient, "eof")
						}
					}
				}
				emit("AgentAnswer")
			case "Relay":
				up := [][]byte{pattern(10, 1), pattern(70000, 2), pattern(5, 3)}
				var want []byte
				for _, c := range up {
					conn.Write(c)
					want = append(want, c...)
					time.Sleep(gap)
				}
				var got []byte
				okID := true
				for tries := 0; tries < 40 && len(got) < len(want); tries++ {
					time.Sleep(30 * time.Millisecond)
					for _, t := range sw.tasks() {
						rd := &refdemon.Rd{B: t.Body}
						if sub := rd.I32(); sub == 0x12 {
							if rd.I32() != sockID {
								okID = false
							}
							got = append(got, rd.Bytes()...)
						}
					}
				}
				if bytes.Equal(got, want) && okID {
					toAgent = append(toAgent, "up")
				} else {
					toAgent = append(toAgent, fmt.Sprintf("?up:%d/%d", len(got), len(want)))
				}
				var wantDown []byte
				for i, c := range [][]byte{pattern(1000, 4), pattern(50000, 5)} {
					b := &refdemon.Buf{}
					b.I32(0x11).I32(sockID).I32(2).I32(1).Bytes(c)
					sw.callback(b.B)
					wantDown = append(wantDown, c...)
					_ = i
				}
				down := readN(conn, len(wantDown), 3*time.Second)
				if bytes.Equal(down, wantDown) {
					toClient = append(toClient, "down")
				} else {
					toClient = append(toClient, fmt.Sprintf("?down:%d/%d", len(down), len(wantDown)))
				}
				emit("Relay")
			case "ClientCloses":
				conn.Close()
				seen := false
				for tries := 0; tries < 40 && !seen; tries++ {
					time.Sleep(30 * time.Millisecond)
					for _, t := range sw.tasks() {
						rd := &refdemon.Rd{B: t.Body}
						if sub := rd.I32(); sub == 0x13 && rd.I32() == sockID {
							seen = true
						}
					}
				}
				if seen {
					toAgent = append(toAgent, "close")
				}
				emit("ClientCloses")
			case "OperatorKills":
				// "socks kill" for the proxy this connection came through; a new proxy is started for the scenarios that follow
				if pan, to := sw.operator("socks kill", sw.port); pan != "" || to {
					sum.Incidents = append(sum.Incidents, Incident{Behaviour: bi, Kind: map[bool]string{true: "hang", false: "panic"}[to], Site: "socks kill", Detail: firstLines(pan, 12)})
				}
				conn.SetReadDeadline(time.Now().Add(1500 * time.Millisecond))
				if _, err := conn.Read(make([]byte, 1)); err == io.EOF || (err != nil && !isTimeout(err)) {
					toClient = append(toClient, "eof")
				}
				seen := false
				for tries := 0; tries < 40 && !seen; tries++ {
					time.Sleep(20 * time.Millisecond)
					for _, t := range sw.tasks() {
						rd := &refdemon.Rd{B: t.Body}
						if sub := rd.I32(); sub == 0x13 && rd.I32() == sockID {
							seen = true
						}
					}
				}
				if seen {
					toAgent = append(toAgent, "close")
				}
				emit("OperatorKills")
				sw.port = freePort()
				sw.operator("socks add", sw.port)
				for i := 0; i < 200; i++ {
					c, err := net.DialTimeout("tcp", "127.0.0.1:"+sw.port, 200*time.Millisecond)
					if err == nil {
						c.Close()
						break
					}
					time.Sleep(10 * time.Millisecond)
				}
			case "AgentCloses":
				b := &refdemon.Buf{}
				b.I32(0x13).I32(sockID).I32(2)
				sw.callback(b.B)
				conn.SetReadDeadline(time.Now().Add(1500 * time.Millisecond))
				if _, err := conn.Read(make([]byte, 1)); err == io.EOF {
					toClient = append(toClient, "eof")
				}
				emit("AgentCloses")
			}
		}
		conn.Close()
		// leave no socket behind for the next scenario
		if haveSock && inTable() {
			sw.w.Agent(sw.id).SocksClientClose(int32(sockID))
		}
		sw.tasks()
		if bi < 3 {
			sum.Samples = append(sum.Samples, map[string]any{"scenario": sc, "steps": beh[1:]})
		}
		sum.Behaviours++
		_ = binary.BigEndian
	}
}

func init() {
	Modules["socks"] = func(behs [][]Step, tr *Trace, env Env, sum *Summary) { RunSocks(behs, tr, env, sum) }
}

// ---- SocksTable: operator commands on the proxy table ----

func RunSocksTable(behs [][]Step, tr *Trace, env Env, sum *Summary) {
	for bi, beh := range behs {
		func() {
			w, err := world.New(env.Scratch, world.Options{})
			must(err)
			defer w.Close()
			rng := rand.New(rand.NewSource(env.Seed + int64(bi)))
			id := uint32(rng.Int63n(0x7ffffff0)) + 2
			w.Register(id, world.KeysFor(env.Seed, bi, false), refdemon.DefaultMeta("t"))
			sw := &socksWorld{w: w, id: id, name: fmt.Sprintf("%08x", id)}
			ports := map[string]string{"p1": freePort(), "p2": freePort(), "p3": freePort()}
			sym := map[string]string{}
			for k, v := range ports {
				sym[v] = k
			}
			defer func() {
				if a := w.Agent(id); a != nil {
					for _, s := range a.SocksSvr {
						if s.Server != nil {
							s.Server.Close()
						}
					}
				}
			}()
			stuck := false
			tr.Emit(map[string]any{"ev": "Reset"})
			for si, st := range beh {
				if stuck {
					break
				}
				op, p := st.Str("op"), st.Str("p")
				sum.Counters["op."+op]++
				var pan string
				var to bool
				switch op {
				case "Add":
					pan, to = sw.operator("socks add", ports[p])
					time.Sleep(40 * time.Millisecond)
				case "Kill":
					pan, to = sw.operator("socks kill", ports[p])
				case "Clear":
					pan, to = sw.operator("socks clear", "")
				case "List":
					pan, to = sw.operator("socks list", "")
				}
				done := pan == "" && !to
				if !done {
					sum.Incidents = append(sum.Incidents, Incident{Behaviour: bi, Step: si, Kind: map[bool]string{true: "hang", false: "panic"}[to], Site: "socks " + op, Detail: firstLines(pan, 12)})
					stuck = to
				}
				a := w.Agent(id)
				locked := true
				if a.SocksSvrMtx.TryLock() {
					locked = false
					a.SocksSvrMtx.Unlock()
				}
				listed := []string{}
				if !locked {
					a.SocksSvrMtx.Lock()
					for _, s := range a.SocksSvr {
						listed = append(listed, sym[s.Addr])
					}
					a.SocksSvrMtx.Unlock()
				}
				open := []string{}
				for _, k := range []string{"p1", "p2", "p3"} {
					if c, err := net.DialTimeout("tcp", "127.0.0.1:"+ports[k], 200*time.Millisecond); err == nil {
						c.Close()
						open = append(open, k)
					}
				}
				tr.Emit(map[string]any{"ev": op, "p": p, "res": map[string]any{"done": done}, "st": map[string]any{"listed": listed, "open": open, "locked": locked}})
			}
			if bi < 2 {
				sum.Samples = append(sum.Samples, beh)
			}
		}()
		sum.Behaviours++
	}
}

func init() {
	Modules["sockstable"] = func(behs [][]Step, tr *Trace, env Env, sum *Summary) { RunSocksTable(behs, tr, env, sum) }
}
