package drive

import (
	"encoding/base64"
	"encoding/json"
	"fmt"
	"strings"
	"sync"
	"time"

	"vcheck/refdemon"
	"vcheck/world"
)

// ---- ThirdParty (C01): requests under the magic value of an agent type a service has registered ----
// The harness is the service (a real websocket connection to the service endpoint: password, RegisterAgent) and the
// agents (requests with that magic value through the External-C2 handler).

const tpMagic = 0x41424344

type tpReq struct {
	mu    sync.Mutex
	done  bool
	res   world.Result
	want  string // the answer the service gave for it
	since time.Time
}

func RunThirdParty(behs [][]Step, tr *Trace, env Env, sum *Summary) {
	patience := 20 * time.Second // how long a handler may wait for a silent service before that counts as not terminating
	for bi, beh := range behs {
		func() {
			w, err := world.New(env.Scratch, world.Options{Service: true})
			must(err)
			defer w.Close()
			svc := w.StartSvc()
			defer svc.Close()
			var cl *world.OpClient
			seenFrames := 0
			reqs := map[string]*tpReq{}
			ids := map[string]uint32{"r1": 0x7001, "r2": 0x7002, "r3": 0x7003}
			randOf := map[string]string{} // request symbol (or burst member) -> RandID the service was given
			alive := true
			// frames the service has received: remember the RandID per agent id
			poll := func() {
				if cl == nil {
					return
				}
				fr := cl.Frames()
				for ; seenFrames < len(fr); seenFrames++ {
					var m map[string]map[string]any
					if json.Unmarshal([]byte(fr[seenFrames]), &m) != nil {
						continue
					}
					if m["Body"]["Type"] != "AgentResponse" {
						continue
					}
					hdr, _ := m["Body"]["AgentHeader"].(map[string]any)
					aid, _ := hdr["AgentID"].(string)
					rid, _ := m["Body"]["RandID"].(string)
					randOf[aid] = rid
				}
			}
			waitFrame := func(aid string, d time.Duration) bool {
				end := time.Now().Add(d)
				for time.Now().Before(end) {
					poll()
					if _, ok := randOf[aid]; ok {
						return true
					}
					time.Sleep(2 * time.Millisecond)
				}
				return false
			}
			send := func(v any) {
				b, _ := json.Marshal(v)
				cl.Send(string(b))
			}
			request := func(id uint32, q *tpReq) {
				q.since = time.Now()
				go func() {
					r := w.RequestWith(refdemon.Frame(tpMagic, id, 0x55, 1, []byte("third-party-body")), patience+10*time.Second)
					q.mu.Lock()
					q.done, q.res = true, r
					q.mu.Unlock()
				}()
			}
			stateOf := func(q *tpReq) string {
				if q == nil {
					return "none"
				}
				q.mu.Lock()
				defer q.mu.Unlock()
				switch {
				case !q.done:
					return "pending"
				case q.res.Panic != "":
					return "?panic"
				case q.res.Timeout:
					return "?stuck"
				case q.res.Status == 200 && q.want != "" && string(q.res.Body) == q.want:
					return "answer"
				case q.res.Status == 200 && q.want != "":
					return "?wrong-answer"
				case q.res.Status == 404 || len(q.res.Body) == 0:
					return "decoy"
				}
				return fmt.Sprintf("?%d:%d", q.res.Status, len(q.res.Body))
			}
			settle := func(q *tpReq, d time.Duration) {
				end := time.Now().Add(d)
				for time.Now().Before(end) {
					q.mu.Lock()
					dn := q.done
					q.mu.Unlock()
					if dn {
						return
					}
					time.Sleep(2 * time.Millisecond)
				}
			}
			tr.Emit(map[string]any{"ev": "Reset"})
			burstOK, cut := true, false
			burstBad := []string{} // what became of the burst requests that were not served
			var burst []*tpReq
			for si, o := range beh {
				op, r := o.Str("op"), o.Str("r")
				if cut {
					break
				}
				sum.Counters["op."+op]++
				done := true
				switch op {
				case "SvcUp":
					c, err := svc.Dial()
					must(err)
					cl, seenFrames = c, 0
					send(map[string]any{"Head": map[string]any{"Type": "Register"}, "Body": map[string]any{"Password": "svc-pw"}})
					time.Sleep(30 * time.Millisecond)
					send(map[string]any{"Head": map[string]any{"Type": "RegisterAgent"}, "Body": map[string]any{"Agent": map[string]any{"Name": fmt.Sprintf("tp%d", si), "MagicValue": fmt.Sprintf("0x%x", tpMagic), "Author": "v"}}})
					end := time.Now().Add(3 * time.Second)
					for time.Now().Before(end) && !w.TS.ServiceAgentExist(tpMagic) {
						time.Sleep(3 * time.Millisecond)
					}
				case "Req":
					q := &tpReq{}
					reqs[r] = q
					delete(randOf, fmt.Sprintf("%08x", ids[r]))
					request(ids[r], q)
					if cl != nil && !cl.IsClosed() {
						waitFrame(fmt.Sprintf("%08x", ids[r]), 2*time.Second) // the service has been handed it
					} else {
						settle(q, 3*time.Second)
					}
				case "Answer":
					q := reqs[r]
					if time.Since(q.since) > 6*time.Second {
						// the steps before this one took so long (a loaded machine) that the code's own patience (10 s) may pass before the
						// answer is in: what the request becomes is then a matter of timing, not of the specification; the history ends here
						sum.Counters["histories cut short: too slow to judge an answer"]++
						cut = true
						break
					}
					aid := fmt.Sprintf("%08x", ids[r])
					q.want = "answer-for-" + r
					send(map[string]any{"Head": map[string]any{"Type": "Agent"}, "Body": map[string]any{"Type": "AgentResponse", "RandID": randOf[aid], "Response": base64.StdEncoding.EncodeToString([]byte(q.want))}})
					settle(q, 5*time.Second)
				case "SvcDown":
					cl.Abort()
					end := time.Now().Add(3 * time.Second)
					for time.Now().Before(end) && w.TS.ServiceAgentExist(tpMagic) {
						time.Sleep(3 * time.Millisecond)
					}
					for _, q := range reqs {
						settle(q, 5*time.Second)
					}
					for _, q := range burst {
						settle(q, 5*time.Second)
					}
				case "GiveUp":
					// the service stays silent: the handlers' patience passes
					for _, q := range reqs {
						if stateOf(q) == "pending" {
							settle(q, patience-time.Since(q.since))
						}
					}
				case "Burst":
					// many requests for one agent type at the same moment
					n := o.Int("n")
					burst = nil
					for g := 0; g < n; g++ {
						burst = append(burst, &tpReq{want: fmt.Sprintf("burst-%d", g)})
					}
					for g := range burst {
						delete(randOf, fmt.Sprintf("%08x", 0x7100+g)) // ids are reused from burst to burst
					}
					for g, q := range burst {
						request(uint32(0x7100+g), q)
					}
					for g := range burst {
						if !waitFrame(fmt.Sprintf("%08x", 0x7100+g), 9*time.Second) {
							burstOK = false // a request the service was never handed
							burstBad = append(burstBad, "never-handed-to-the-service")
						}
					}
				case "BurstAnswered":
					// the code's own patience with a silent service is 10 s: an answer this harness gets to send later than 6 s after the
					// request (a loaded machine) may find the request given up, which is allowed; such a request is not judged
					late := map[*tpReq]bool{}
					for _, q := range burst {
						late[q] = time.Since(q.since) > 6*time.Second
					}
					for g, q := range burst {
						send(map[string]any{"Head": map[string]any{"Type": "Agent"}, "Body": map[string]any{"Type": "AgentResponse", "RandID": randOf[fmt.Sprintf("%08x", 0x7100+g)], "Response": base64.StdEncoding.EncodeToString([]byte(q.want))}})
					}
					for _, q := range burst {
						settle(q, patience)
						// C01 asks that every request ends with a protocol reply or the decoy.  A request that ends with another burst
						// request's answer, or with the decoy although its answer was sent in time, has ended (counted, see DESIGN 0.6:
						// answer ids drawn from the clock can coincide); one that is still waiting, stuck or crashed has not
						switch st := stateOf(q); {
						case st == "answer":
						case st == "?wrong-answer":
							sum.Counters["burst requests that ended with another request's answer"]++
						case st == "decoy":
							if late[q] {
								sum.Counters["burst answers sent too late to judge"]++
							} else {
								sum.Counters["burst requests that ended with the decoy although answered"]++
							}
						default:
							burstOK = false
							burstBad = append(burstBad, st)
						}
					}
					burst = nil
				}
				for _, p := range svc.TakePanics() {
					done = false
					if strings.Contains(p, "harness-error") {
						panic(p)
					}
					sum.Incidents = append(sum.Incidents, Incident{Behaviour: bi, Step: si, Kind: "panic", Site: "service connection: " + op, Detail: firstLines(p, 14)})
				}
				state := map[string]any{}
				for _, sy := range []string{"r1", "r2", "r3"} {
					state[sy] = stateOf(reqs[sy])
					if st := state[sy].(string); strings.HasPrefix(st, "?panic") {
						sum.Incidents = append(sum.Incidents, Incident{Behaviour: bi, Step: si, Kind: "panic", Site: "third-party request: " + op, Detail: firstLines(reqs[sy].res.Panic, 14)})
						reqs[sy].res.Panic = "reported"
					}
				}
				// the teamserver keeps serving: an ordinary Demon check-in of an unknown agent gets the decoy at once
				probe := w.RequestWith(refdemon.CheckIn(0x12345, world.KeysFor(1, 1, false)), 5*time.Second)
				if probe.Timeout || probe.Panic != "" {
					alive = false
				}
				if cut {
					break
				}
				tr.Emit(map[string]any{"ev": op, "r": r, "n": o.Int("n"), "st": map[string]any{"state": state, "burstok": burstOK, "alive": alive, "done": done}, "burstbad": burstBad})
			}
			if bi < 2 {
				sum.Samples = append(sum.Samples, beh)
			}
		}()
		sum.Behaviours++
	}
}

func init() {
	Modules["thirdparty"] = func(behs [][]Step, tr *Trace, env Env, sum *Summary) { RunThirdParty(behs, tr, env, sum) }
}
