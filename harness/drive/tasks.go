package drive

import (
	"bytes"
	"crypto/sha1"
	"encoding/base64"
	"encoding/binary"
	"encoding/hex"
	"fmt"
	"math/rand"
	"strconv"
	"strings"
	"time"

	"Havoc/pkg/packager"

	"vcheck/refdemon"
	"vcheck/world"
)

// ---- TaskGrammar (C02): operator package -> bytes the Demon reads ----

// value classes per parameter kind; every value is carried as a string (TLC integers are 32 bit)
func taskParam(row, par, ty, cls string, rng *rand.Rand) string {
	pick := func(low, mid, high, odd string) string {
		return map[string]string{"low": low, "mid": mid, "high": high, "odd": odd, "huge": high, "giant": high}[cls]
	}
	switch par {
	case "method":
		return pick("1", "2", "1", "2")
	case "protect":
		return pick("1", "4", "64", "256") // PAGE_NOACCESS, PAGE_READWRITE, PAGE_EXECUTE_READWRITE, PAGE_GUARD
	case "piped", "verbose", "x64", "fromui":
		return pick("0", "1", "1", "0")
	case "value":
		if row == "config_verbose" || row == "config_coffee_veh" || row == "config_coffee_threaded" {
			return pick("0", "1", "1", "0")
		}
		return pick("0", "2", "2147483647", "3")
	case "technique":
		return pick("0", "1", "2", "3") // default, createremotethread, ntcreatethreadex, ntqueueapcthread
	case "packed":
		return pick("0", "5243968", "6565371", "5436028") // off, 8:00-17:00, 18:05-23:59, 9:30-9:60 (packed as the Demon unpacks them)
	case "date":
		return "0"
	case "laddr", "faddr":
		return pick("16777343", "167772161", "4294967295", "134744072") // 127.0.0.1, 1.0.0.10, 255.255.255.255, 8.8.8.8 (little-endian ints)
	case "lport", "fport":
		return pick("1", "8080", "65535", "443")
	case "agent", "file", "socket":
		return pick("1", "305419896", "2147483647", "2147483649") // hex-parsed ids; "odd" has the top bit set
	case "state":
		return pick("0", "4", "1", "2")
	case "logon":
		return pick("2", "9", "3", "8")
	case "offset":
		return pick("0", "16", "4096", "1")
	}
	switch ty {
	case "i32":
		return pick("0", "4242", "2147483647", "4294967295")
	case "i64":
		return "0"
	case "wstr", "str":
		s := pick("a", "C:\\Users\\Public\\notes.txt", strings.Repeat("L", 70000), "ünï-中\U0001F600 \"q\"")
		if par == "lib" || par == "func" || par == "priv" {
			s = pick("ntdll", "kernel32.dll", "SeDebugPrivilege", "RtlUserThreadStart")
		}
		if row == "token_make" || row == "fs_cp" || row == "fs_mv" || row == "proc_create" {
			s = strings.ReplaceAll(s, ";", ",")
			if len(s) > 1000 {
				s = s[:1000]
			}
		}
		return s
	case "bytes":
		n := map[string]int{"low": 0, "mid": 37, "high": 200000, "odd": 1, "huge": 1<<20 + 150001, "giant": 8 << 20}[cls]
		b := make([]byte, n)
		rng.Read(b)
		return string(b)
	}
	return ""
}

func ipFromLE(v string) string {
	n, _ := strconv.ParseUint(v, 10, 64)
	return fmt.Sprintf("%d.%d.%d.%d", byte(n), byte(n>>8), byte(n>>16), byte(n>>24))
}

var pageNames = map[string]string{"1": "PAGE_NOACCESS", "4": "PAGE_READWRITE", "64": "PAGE_EXECUTE_READWRITE", "256": "PAGE_GUARD"}
var whNames = map[string]string{"0": "0", "5243968": "8:00-17:00", "6565371": "18:05-23:59", "5436028": "9:30-9:60"}
var techNames = map[string]string{"0": "default", "1": "createremotethread", "2": "ntcreatethreadex", "3": "ntqueueapcthread"}

func b64(s string) string { return base64.StdEncoding.EncodeToString([]byte(s)) }
func hexOf(v string) string {
	n, _ := strconv.ParseUint(v, 10, 64)
	return fmt.Sprintf("%x", n)
}

// taskInfo builds the operator's package for a row: this is the client side of the TaskPrepare contract.
func taskInfo(row string, p map[string]string) map[string]any {
	sub := func(s string) string { return strings.SplitN(row, "_", 2)[1] }
	switch {
	case row == "sleep":
		return map[string]any{"Arguments": p["delay"] + ";" + p["jitter"]}
	case row == "checkin" || row == "screenshot":
		return map[string]any{}
	case row == "exit":
		return map[string]any{"ExitMethod": map[string]string{"1": "thread", "2": "process"}[p["method"]]}
	case strings.HasPrefix(row, "job_"):
		m := map[string]any{"Command": sub(row)}
		if v, ok := p["id"]; ok {
			m["Param"] = v
		}
		return m
	case row == "proc_modules":
		return map[string]any{"ProcCommand": "2", "Args": p["pid"]}
	case row == "proc_grep":
		return map[string]any{"ProcCommand": "3", "Args": p["name"]}
	case row == "proc_kill":
		return map[string]any{"ProcCommand": "7", "Args": p["pid"]}
	case row == "proc_memory":
		return map[string]any{"ProcCommand": "6", "Args": p["pid"] + " " + pageNames[p["protect"]]}
	case row == "proc_create":
		tf := map[string]string{"0": "false", "1": "true"}
		return map[string]any{"ProcCommand": "4", "Args": p["state"] + ";" + tf[p["verbose"]] + ";" + tf[p["piped"]] + ";" + p["process"] + ";" + b64(p["args"])}
	case row == "proc_list":
		return map[string]any{"FromProcessManager": map[string]string{"0": "false", "1": "true"}[p["fromui"]]}
	case row == "fs_cd" || row == "fs_remove" || row == "fs_mkdir":
		return map[string]any{"SubCommand": sub(row), "Arguments": p["path"]}
	case row == "fs_pwd":
		return map[string]any{"SubCommand": "pwd", "Arguments": ""}
	case row == "fs_download" || row == "fs_cat":
		return map[string]any{"SubCommand": sub(row), "Arguments": b64(p["path"])}
	case row == "fs_cp" || row == "fs_mv":
		return map[string]any{"SubCommand": map[string]string{"fs_cp": "cp", "fs_mv": "mv"}[row], "Arguments": b64(p["from"]) + ";" + b64(p["to"])}
	case row == "token_impersonate" || row == "token_remove":
		return map[string]any{"SubCommand": sub(row), "Arguments": p["id"]}
	case row == "token_steal":
		return map[string]any{"SubCommand": "steal", "Arguments": p["pid"] + ";" + hexOf(p["handle"])}
	case row == "token_privs_list":
		return map[string]any{"SubCommand": "privs-list"}
	case row == "token_privs_get":
		return map[string]any{"SubCommand": "privs-get", "Arguments": p["priv"]}
	case row == "token_make":
		return map[string]any{"SubCommand": "make", "Arguments": b64(p["domain"]) + ";" + b64(p["user"]) + ";" + b64(p["password"]) + ";" + p["logon"]}
	case strings.HasPrefix(row, "token_"):
		return map[string]any{"SubCommand": sub(row)}
	case row == "config_spawn64" || row == "config_spawn32":
		return map[string]any{"ConfigKey": "inject." + sub(row), "ConfigVal": p["path"]}
	case row == "config_workinghours":
		return map[string]any{"ConfigKey": "workinghours", "ConfigVal": whNames[p["packed"]]}
	case row == "config_killdate_off":
		return map[string]any{"ConfigKey": "killdate", "ConfigVal": "0"}
	case row == "config_spfthread" || row == "config_spoofaddr":
		key := map[string]string{"config_spfthread": "implant.sleep-obf.start-addr", "config_spoofaddr": "inject.spoofaddr"}[row]
		return map[string]any{"ConfigKey": key, "ConfigVal": p["lib"] + "!" + p["func"] + "+0x" + hexOf(p["offset"])}
	case strings.HasPrefix(row, "config_"):
		key := map[string]string{"verbose": "implant.verbose", "sleep_technique": "implant.sleep-obf.technique", "coffee_threaded": "implant.coffee.threaded", "coffee_veh": "implant.coffee.veh",
			"memory_alloc": "memory.alloc", "memory_execute": "memory.execute", "inject_technique": "inject.technique"}[sub(row)]
		val := p["value"]
		if key == "implant.verbose" || key == "implant.coffee.veh" || key == "implant.coffee.threaded" {
			val = map[string]string{"0": "false", "1": "true"}[val]
		}
		return map[string]any{"ConfigKey": key, "ConfigVal": val}
	case strings.HasPrefix(row, "net_"):
		c := map[string]string{"domain": "1", "logons": "2", "sessions": "3", "computer": "4", "dclist": "5", "share": "6", "localgroup": "7", "group": "8", "users": "9"}[sub(row)]
		srv := p["server"]
		return map[string]any{"NetCommand": c, "Param": srv}
	case row == "pivot_list":
		return map[string]any{"Command": "1", "Param": ""}
	case row == "pivot_connect":
		return map[string]any{"Command": "10", "Param": p["pipe"]}
	case row == "pivot_disconnect":
		return map[string]any{"Command": "11", "Param": hexOf(p["agent"])}
	case strings.HasPrefix(row, "transfer_"):
		m := map[string]any{"Command": sub(row), "FileID": "0"}
		if v, ok := p["file"]; ok {
			m["FileID"] = hexOf(v)
		}
		return m
	case row == "rportfwd_add":
		return map[string]any{"Command": "rportfwd add", "Params": ipFromLE(p["laddr"]) + ";" + p["lport"] + ";" + ipFromLE(p["faddr"]) + ";" + p["fport"]}
	case row == "rportfwd_list" || row == "rportfwd_clear":
		return map[string]any{"Command": "rportfwd " + sub(row), "Params": ""}
	case row == "rportfwd_remove":
		return map[string]any{"Command": "rportfwd remove", "Params": hexOf(p["socket"])}
	case row == "kerberos_luid":
		return map[string]any{"Command": "luid"}
	case row == "kerberos_klist_all":
		return map[string]any{"Command": "klist", "Argument1": "/all"}
	case row == "kerberos_klist_luid":
		return map[string]any{"Command": "klist", "Argument1": "/luid", "Argument2": "0x" + hexOf(p["luid"])}
	case row == "kerberos_purge":
		return map[string]any{"Command": "purge", "Argument": hexOf(p["luid"])}
	case row == "kerberos_ptt":
		return map[string]any{"Command": "ptt", "Ticket": b64(p["ticket"]), "Luid": "0x" + hexOf(p["luid"])}
	case strings.HasPrefix(row, "shellcode_"):
		m := map[string]any{"Way": map[string]string{"inject": "Inject", "spawn": "Spawn", "execute": "Execute"}[sub(row)], "Technique": techNames[p["technique"]],
			"Arch": map[string]string{"0": "x86", "1": "x64"}[p["x64"]], "Binary": b64(p["payload"]), "Argument": b64(p["args"])}
		if v, ok := p["pid"]; ok {
			m["PID"] = v
		}
		return m
	}
	panic("harness-error: no operator encoding for row " + row)
}

func showVal(ty, v string) string {
	if (ty == "wstr" || ty == "str" || ty == "bytes") && (len(v) > 120 || ty == "bytes") {
		h := sha1.Sum([]byte(v))
		return fmt.Sprintf("sha1:%s:%d", hex.EncodeToString(h[:8]), len(v))
	}
	return v
}

type taskAgent struct {
	id uint32
	k  refdemon.Keys
}

func RunTasks(behs [][]Step, tr *Trace, env Env, sum *Summary) {
	w, err := world.New(env.Scratch, world.Options{})
	must(err)
	defer w.Close()
	rng := rand.New(rand.NewSource(env.Seed + int64(env.Shard)*977))
	agents := map[string]taskAgent{}
	for i, kc := range []string{"zero", "nonzero", "wrap"} {
		id := uint32(rng.Int63n(0x7ffffff0)) + 2
		k := world.KeysFor(env.Seed, 10+i, kc == "zero")
		if kc == "wrap" { // the counter's low half is a few blocks before its end: the carry into the high half falls into the first body
			copy(k.IV[8:], []byte{0xff, 0xff, 0xff, 0xff, 0xff, 0xff, 0xff, 0xf0 + byte(env.Seed%12)})
		}
		if r := w.Register(id, k, refdemon.DefaultMeta(kc)); r.Status != 200 {
			panic("harness-error: registration failed")
		}
		agents[kc] = taskAgent{id, k}
	}
	for bi, beh := range behs {
		cell := beh[0]
		key, _ := cell["key"].(string)
		ag := agents[key]
		name := fmt.Sprintf("%08x", ag.id)
		w.Request(refdemon.CheckIn(ag.id, ag.k)) // start from an empty queue
		batch := cell["batch"].([]any)
		var params []map[string]string
		var shown []map[string]string
		var batchOut []map[string]any
		for i, t := range batch {
			tm := t.(map[string]any)
			row, cls := tm["row"].(string), tm["pclass"].(string)
			p, sp := map[string]string{}, map[string]string{}
			for _, f := range tm["fields"].([]any) {
				fm := f.(map[string]any)
				if par := fm["par"].(string); par != "" {
					p[par] = taskParam(row, par, fm["ty"].(string), cls, rng)
					sp[par] = showVal(fm["ty"].(string), p[par])
				}
			}
			params = append(params, p)
			shown = append(shown, sp)
			batchOut = append(batchOut, map[string]any{"row": row, "pclass": cls})
			info := taskInfo(row, p)
			info["DemonID"], info["TaskID"], info["CommandLine"] = name, fmt.Sprintf("%08X", i+1), row
			info["CommandID"] = strconv.Itoa(int(tm["cmd"].(float64)))
			pk := packager.Package{}
			pk.Head.Event, pk.Head.User, pk.Body.SubEvent = packager.Type.Session.Type, "neo", packager.Type.Session.Input
			pk.Body.Info = info
			if pan, to := guarded(func() { w.TS.DispatchEvent(pk) }, 10*time.Second); pan != "" || to {
				sum.Incidents = append(sum.Incidents, Incident{Behaviour: bi, Step: i, Kind: map[bool]string{true: "hang", false: "panic"}[to], Site: "TaskPrepare:" + row, Detail: firstLines(pan, 12)})
			}
		}
		// the operator looks at the queue ("task list") before the agent checks in
		looks := 0
		if lf, ok := cell["looks"].(float64); ok {
			looks = int(lf)
		}
		for n := 0; n < looks; n++ {
			pk := packager.Package{}
			pk.Head.Event, pk.Head.User, pk.Body.SubEvent = packager.Type.Session.Type, "neo", packager.Type.Session.Input
			pk.Body.Info = map[string]any{"DemonID": name, "TaskID": fmt.Sprintf("%08X", 0xF0+n), "CommandLine": "task list", "CommandID": "Teamserver", "Command": "task::list"}
			if pan, to := guarded(func() { w.TS.DispatchEvent(pk) }, 10*time.Second); pan != "" || to {
				sum.Incidents = append(sum.Incidents, Incident{Behaviour: bi, Step: n, Kind: map[bool]string{true: "hang", false: "panic"}[to], Site: "task list", Detail: firstLines(pan, 12)})
			}
		}
		r := w.Request(refdemon.CheckIn(ag.id, ag.k))
		tasks, perr := refdemon.ParseTasks(r.Body, ag.k)
		// a batch above one answer comes in several: the agent checks in until nothing is left
		for more := 0; more < 2*len(batch) && perr == nil && w.Agent(ag.id) != nil && len(w.Agent(ag.id).JobQueue) > 0; more++ {
			r2 := w.Request(refdemon.CheckIn(ag.id, ag.k))
			t2, e2 := refdemon.ParseTasks(r2.Body, ag.k)
			tasks, perr = append(tasks, t2...), e2
			sum.Counters["further check-ins for one batch"]++
		}
		out := []map[string]any{}
		clear := false
		rowOf := map[uint32]map[string]any{}
		for i, t := range batch {
			rowOf[uint32(i+1)] = t.(map[string]any)
		}
		for _, t := range tasks {
			if t.Cmd == refdemon.CmdNoJob {
				continue
			}
			vals := []string{}
			tm := rowOf[t.Req]
			if tm == nil && len(out) < len(batch) {
				tm = batch[len(out)].(map[string]any) // unknown request id: decode as the task in this position
			}
			if tm != nil {
				rd := &refdemon.Rd{B: t.Body}
				for _, f := range tm["fields"].([]any) {
					ty := f.(map[string]any)["ty"].(string)
					switch ty {
					case "i32":
						vals = append(vals, strconv.FormatUint(uint64(rd.I32()), 10))
					case "i64":
						vals = append(vals, strconv.FormatUint(rd.I64(), 10))
					case "wstr":
						raw := rd.Bytes()
						if len(raw) < 2 || len(raw)%2 != 0 || raw[len(raw)-1] != 0 || raw[len(raw)-2] != 0 {
							vals = append(vals, "?unterminated-wstr")
						} else {
							vals = append(vals, showVal(ty, refdemon.DecodeUTF16(raw)))
						}
					case "str":
						raw := rd.Bytes()
						if len(raw) < 1 || raw[len(raw)-1] != 0 {
							vals = append(vals, "?unterminated-str")
						} else {
							vals = append(vals, showVal(ty, string(raw[:len(raw)-1])))
						}
					case "bytes":
						vals = append(vals, showVal(ty, string(rd.Bytes())))
					}
				}
				if rd.Err != nil {
					vals = append(vals, "?short")
				} else if len(rd.B) != 0 && tm["extra"] != true {
					vals = append(vals, fmt.Sprintf("?%d-trailing-bytes", len(rd.B)))
				}
			}
			if len(t.Raw) >= 8 && bytes.Equal(t.Raw, t.Body) {
				clear = true
			}
			for _, p := range params {
				for _, v := range p {
					if len(v) >= 6 && len(v) < 500 && (bytes.Contains(r.Body, []byte(v)) || bytes.Contains(r.Body, refdemon.UTF16LE(v, false))) {
						clear = true
					}
				}
			}
			out = append(out, map[string]any{"cmd": t.Cmd, "req": t.Req, "vals": vals})
		}
		if perr != nil {
			out = append(out, map[string]any{"cmd": 0, "req": 0, "vals": []string{"?undecodable-reply"}})
		}
		tr.Emit(map[string]any{"ev": "Reset", "batch": batchOut, "key": key, "looks": looks})
		for n := 0; n < looks; n++ {
			tr.Emit(map[string]any{"ev": "List"})
		}
		sum.Counters["looks"] += looks
		tr.Emit(map[string]any{"ev": "Deliver", "params": shown, "res": map[string]any{"tasks": out, "clear": clear}})
		sum.Counters["tasks"] += len(batch)
		sum.Counters["delivered"] += len(out)
		if bi < 3 {
			sum.Samples = append(sum.Samples, map[string]any{"batch": batchOut, "key": key, "params": shown})
		}
		sum.Behaviours++
		_ = binary.LittleEndian
	}
}

func init() {
	Modules["tasks"] = func(behs [][]Step, tr *Trace, env Env, sum *Summary) { RunTasks(behs, tr, env, sum) }
}
