package drive

import (
	"bytes"
	"fmt"
	"net"
	"runtime"
	"strconv"
	"sync"
	"time"

	"Havoc/pkg/agent"
	"Havoc/pkg/verifhook"

	"vcheck/refdemon"
	"vcheck/world"
)

// ---- PortFwd (C15, the port-forward half): the relay between an agent's reverse port forward sockets and
// their targets.  The reference Demon plays the agent (open / read / remove callbacks, check-ins), real TCP
// listeners on loopback play the targets (one per socket, so that a connection identifies its socket).

type pfTarget struct {
	ln     net.Listener
	port   int
	mu     sync.Mutex
	conn   net.Conn
	got    []byte
	eof    bool // the teamserver's end went away (EOF or reset seen by the target)
	closed bool // the target closed its end itself
}

func newPfTarget() *pfTarget {
	p, _ := strconv.Atoi(freePort())
	ln, err := net.Listen("tcp", fmt.Sprintf("127.0.0.1:%d", p))
	must(err)
	t := &pfTarget{ln: ln, port: p}
	go func() {
		for {
			c, err := ln.Accept()
			if err != nil {
				return
			}
			t.mu.Lock()
			first := t.conn == nil
			if first {
				t.conn = c
			}
			t.mu.Unlock()
			if !first { // a second dial for one socket: keep it open, count it as bytes nobody sent
				t.mu.Lock()
				t.got = append(t.got, []byte("<second-connection>")...)
				t.mu.Unlock()
				continue
			}
			go func() {
				buf := make([]byte, 32768)
				for {
					n, err := c.Read(buf)
					t.mu.Lock()
					t.got = append(t.got, buf[:n]...)
					if err != nil {
						if !t.closed {
							t.eof = true
						}
						t.mu.Unlock()
						return
					}
					t.mu.Unlock()
				}
			}()
		}
	}()
	return t
}

func (t *pfTarget) snapshot() (got []byte, side string) {
	t.mu.Lock()
	defer t.mu.Unlock()
	side = "none"
	switch {
	case t.conn == nil:
	case t.closed:
		side = "closed"
	case t.eof:
		side = "eof"
	default:
		side = "open"
	}
	return append([]byte{}, t.got...), side
}

func (t *pfTarget) shutdown() {
	t.ln.Close()
	t.mu.Lock()
	if t.conn != nil {
		t.closed = true
		t.conn.Close()
	}
	t.mu.Unlock()
}

// pfGate holds one socket's reader goroutine at the hook point between its read and what it does with the result.
type pfGate struct {
	mu       sync.Mutex
	arrivals int
	open     bool
	ch       chan struct{}
}

func (g *pfGate) arrive() {
	g.mu.Lock()
	g.arrivals++
	open := g.open
	g.mu.Unlock()
	if !open {
		<-g.ch
	}
}
func (g *pfGate) count() int { g.mu.Lock(); defer g.mu.Unlock(); return g.arrivals }
func (g *pfGate) release() {
	select {
	case g.ch <- struct{}{}:
	case <-time.After(2 * time.Second):
	}
}
func (g *pfGate) openAll() {
	g.mu.Lock()
	g.open = true
	g.mu.Unlock()
	for {
		select {
		case g.ch <- struct{}{}:
		default:
			return
		}
	}
}

var pfChunks = map[string][]byte{"a": pattern(10, 0x11), "B": pattern(70000, 0x22), "x": pattern(12, 0x33), "Y": pattern(50000, 0x44)}

// labelsOf reads a byte stream as a concatenation of known chunks (each chunk has its own byte pattern): the labels
// of the chunks that are there whole, in order; anything else (a partial chunk, foreign bytes) ends the list with a "?" entry.
func labelsOf(stream []byte, alphabet []string) []string {
	out := []string{}
	for len(stream) > 0 {
		hit := ""
		for _, l := range alphabet {
			c := pfChunks[l]
			if len(stream) >= len(c) && bytes.Equal(stream[:len(c)], c) {
				hit = l
				break
			}
		}
		if hit == "" {
			return append(out, fmt.Sprintf("?%d", len(stream)))
		}
		out = append(out, hit)
		stream = stream[len(pfChunks[hit]):]
	}
	return out
}

var pfUp, pfDown = []string{"a", "B"}, []string{"x", "Y"}

func anyInt(v any) int {
	switch x := v.(type) {
	case int:
		return x
	case int32:
		return int(x)
	case uint32:
		return int(x)
	case int64:
		return int(x)
	}
	return -1
}

const pfSock = 0xA00

// pfPatience stretches every wait of this run.  A wait that expires is tried again for five times as long before what
// is there is recorded: if the effect shows up in that extension the machine is busy, not the code wrong, and the run goes
// on with long waits; on a tree where the effect never comes the extension is paid once per step and changes nothing.
var pfPatience = time.Duration(1)
var pfSites = map[string]int{}
var pfExpired, pfLate int // waits that ran out (the effect never came) / whose effect came during the extension

func pfWait(d time.Duration, cond func() bool) {
	end := time.Now().Add(d * pfPatience)
	for !cond() && time.Now().Before(end) {
		time.Sleep(time.Millisecond)
	}
	if cond() {
		return
	}
	if pfPatience > 1 {
		pfExpired++
		return
	}
	end = time.Now().Add(5 * d)
	for !cond() && time.Now().Before(end) {
		time.Sleep(2 * time.Millisecond)
	}
	if cond() {
		pfPatience = 6
		pfLate++
	} else {
		pfExpired++
		_, _, line, _ := runtime.Caller(1)
		_, _, line2, _ := runtime.Caller(2)
		pfSites[fmt.Sprintf("waits.expired.at.%d.%d", line, line2)]++
	}
}

func RunPortFwd(behs [][]Step, tr *Trace, env Env, sum *Summary) {
	w, err := world.New(env.Scratch, world.Options{})
	must(err)
	defer w.Close()
	names := []string{"s1", "s2", "s3"}
	gated := env.Mode == "gated"
	defer func() { verifhook.HookN = nil }()
	nextID := uint32(0x3100_0000) + uint32(env.Shard)<<20
	for bi, beh := range behs {
		nextID++
		id := nextID
		k := world.KeysFor(env.Seed, int(id&0xffff), false)
		if r := w.Register(id, k, refdemon.DefaultMeta(fmt.Sprintf("p%d", bi))); r.Status != 200 {
			panic(fmt.Sprintf("harness-error: portfwd registration refused: %d %s", r.Status, r.Panic))
		}
		a := w.Agent(id)
		tg := map[string]*pfTarget{}
		sock := map[string]uint32{}
		bySock := map[int]string{}
		for i, n := range names {
			tg[n] = newPfTarget()
			sock[n] = pfSock + uint32(i) + 1
			bySock[int(sock[n])] = n
		}
		gate := map[string]*pfGate{}
		released := map[string]int{} // arrivals at the gate that have been let through, per socket
		for _, n := range names {
			gate[n] = &pfGate{ch: make(chan struct{})}
		}
		if gated {
			cur := gate
			verifhook.HookN = func(name string, n int) {
				if name != "portfwd.read" {
					return
				}
				if g := cur[bySock[n]]; g != nil {
					g.arrive()
				}
			}
		}
		// waitArrival: the reader of s is (or comes) back at the gate with something it has not acted upon
		waitArrival := func(s string) {
			pfWait(2*time.Second, func() bool { return gate[s].count() > released[s] })
		}
		upWant := map[string]int{}      // bytes that went into a connection to the target, per socket
		upSent := map[string][]string{} // chunks the agent sent per socket (accepted or not)
		wrote := map[string][]string{}  // chunks the target wrote per socket
		agentGot := map[string][]byte{} // bytes handed to the agent in write tasks per socket
		atold := []string{}             // sockets the agent was told to close
		wedged := false
		callback := func(si int, op string, b *refdemon.Buf) {
			r := w.RequestWith(refdemon.Packages(id, k, []refdemon.Sub{{Cmd: refdemon.CmdSocket, Req: 0, Body: b.B}}), 10*time.Second)
			if r.Panic != "" {
				sum.Incidents = append(sum.Incidents, Incident{Behaviour: bi, Step: si, Kind: "panic", Site: "portfwd " + op, Detail: firstLines(r.Panic, 14)})
			} else if r.Timeout {
				sum.Incidents = append(sum.Incidents, Incident{Behaviour: bi, Step: si, Kind: "hang", Site: "portfwd " + op, Detail: "callback did not return within 10s"})
				wedged = true
			}
		}
		tryLock := func(m interface{ TryLock() bool }) bool {
			free := m.TryLock()
			for t := 0; t < 150 && !free; t++ { // a relay goroutine may hold it for a moment; "left held" is for good
				time.Sleep(2 * time.Millisecond)
				free = m.TryLock()
			}
			return free
		}
		// queued socket tasks for this agent as the specification counts them: write tasks of one socket that follow each
		// other are one entry (a large read is cut by the relay's buffer), labelled against the target's stream
		qraw := map[string][]byte{} // queued write-task bytes per socket, as of the last call of queued()
		queued := func() ([]any, map[string]int) {
			out := []any{}
			nbytes := map[string]int{}
			for k := range qraw {
				delete(qraw, k)
			}
			if !tryLock(&a.JobQueueMtx) {
				return []any{map[string]any{"k": "?locked", "s": "", "d": []string{}}}, nbytes
			}
			type ent struct {
				k, s string
				b    []byte
			}
			var es []ent
			for _, j := range a.JobQueue {
				if j.Command != agent.COMMAND_SOCKET || len(j.Data) < 2 {
					continue
				}
				s, ok := bySock[anyInt(j.Data[1])]
				if !ok {
					s = fmt.Sprintf("?%x", anyInt(j.Data[1]))
				}
				switch anyInt(j.Data[0]) {
				case agent.SOCKET_COMMAND_WRITE:
					var d []byte
					if len(j.Data) > 2 {
						d, _ = j.Data[2].([]byte)
					}
					if n := len(es); n > 0 && es[n-1].k == "w" && es[n-1].s == s {
						es[n-1].b = append(es[n-1].b, d...)
					} else {
						es = append(es, ent{"w", s, append([]byte{}, d...)})
					}
				case agent.SOCKET_COMMAND_CLOSE:
					es = append(es, ent{"c", s, nil})
				default:
					es = append(es, ent{fmt.Sprintf("?%x", anyInt(j.Data[0])), s, nil})
				}
			}
			a.JobQueueMtx.Unlock()
			for _, e := range es {
				d := []string{}
				if e.k == "w" {
					d = labelsOf(e.b, pfDown)
					nbytes[e.s] += len(e.b)
					qraw[e.s] = append(qraw[e.s], e.b...)
				}
				out = append(out, map[string]any{"k": e.k, "s": e.s, "d": d})
			}
			return out, nbytes
		}
		observe := func(done bool) map[string]any {
			table := []any{}
			locked := false
			if tryLock(&a.PortFwdsMtx) {
				for _, p := range a.PortFwds {
					s, ok := bySock[p.SocktID]
					if !ok {
						s = fmt.Sprintf("?%x", p.SocktID)
					}
					table = append(table, map[string]any{"s": s, "conn": p.Conn != nil})
				}
				a.PortFwdsMtx.Unlock()
			} else {
				locked = true
			}
			tgot, tside, agot := map[string]any{}, map[string]any{}, map[string]any{}
			for _, n := range names {
				g, side := tg[n].snapshot()
				tgot[n] = labelsOf(g, pfUp)
				tside[n] = side
				agot[n] = labelsOf(agentGot[n], pfDown)
			}
			q, _ := queued()
			// the relay's reads do not stop at the target's writes: what has been handed on is judged as a stream - a prefix of
			// what the target wrote, byte for byte - with its length
			dn := map[string]any{}
			for _, n := range names {
				var whole []byte
				for _, l := range wrote[n] {
					whole = append(whole, pfChunks[l]...)
				}
				passed := append(append([]byte{}, agentGot[n]...), qraw[n]...)
				dn[n] = map[string]any{"ok": len(passed) <= len(whole) && bytes.Equal(passed, whole[:len(passed)]), "h": len(agentGot[n]), "q": len(qraw[n])}
			}
			return map[string]any{"dn": dn, "table": table, "tgot": tgot, "tside": tside, "q": q, "agot": agot, "atold": append([]string{}, atold...), "locked": locked, "done": done}
		}
		hasConn := func(s string) bool {
			if !tryLock(&a.PortFwdsMtx) {
				return false
			}
			defer a.PortFwdsMtx.Unlock()
			for _, p := range a.PortFwds {
				if p.SocktID == int(sock[s]) {
					return p.Conn != nil
				}
			}
			return false
		}
		listed := func(s string) bool {
			if !tryLock(&a.PortFwdsMtx) {
				return false
			}
			defer a.PortFwdsMtx.Unlock()
			for _, p := range a.PortFwds {
				if p.SocktID == int(sock[s]) {
					return true
				}
			}
			return false
		}
		until := pfWait
		tr.Emit(map[string]any{"ev": "Reset", "gated": gated})
		for si, o := range beh {
			if wedged {
				break
			}
			op, s, c := o.Str("op"), o.Str("s"), o.Str("c")
			sum.Counters["op."+op]++
			before := len(sum.Incidents)
			switch op {
			case "Open":
				b := &refdemon.Buf{}
				b.I32(agent.SOCKET_COMMAND_OPEN).I32(sock[s]).I32(loop127).I32(4444).I32(loop127).I32(uint32(tg[s].port))
				callback(si, op, b)
			case "Data":
				upSent[s] = append(upSent[s], c)
				b := &refdemon.Buf{}
				b.I32(agent.SOCKET_COMMAND_READ).I32(sock[s]).I32(agent.SOCKET_TYPE_CLIENT).I32(1).Bytes(pfChunks[c])
				callback(si, op, b)
				if _, side := tg[s].snapshot(); hasConn(s) && side != "closed" { // the write went into a socket: give the target's reader time to drain it
					upWant[s] += len(pfChunks[c])
					want := upWant[s]
					until(1500*time.Millisecond, func() bool { g, _ := tg[s].snapshot(); return len(g) >= want })
				}
			case "TargetWrite":
				wrote[s] = append(wrote[s], c)
				t := tg[s]
				t.mu.Lock()
				cn := t.conn
				t.mu.Unlock()
				if cn != nil {
					cn.SetWriteDeadline(time.Now().Add(5 * time.Second))
					cn.Write(pfChunks[c])
				}
				if w, _ := o["w"].(bool); gated && w {
					waitArrival(s)
				}
			case "TargetClose":
				t := tg[s]
				t.mu.Lock()
				if t.conn != nil {
					t.closed = true
					t.conn.Close()
				}
				t.mu.Unlock()
				if w, _ := o["w"].(bool); gated && w {
					waitArrival(s)
				}
			case "Reader":
				if gated {
					// let the reader act on what it holds; a chunk that came in several reads needs several turns
					want := 0
					if dl, ok := o["d"].([]any); ok {
						for _, l := range dl {
							want += len(pfChunks[l.(string)])
						}
					}
					_, n0 := queued()
					base := len(agentGot[s]) + n0[s]
					what := o.Str("what")
					end := time.Now().Add(3 * time.Second * pfPatience)
					extended := pfPatience > 1
					if gate[s].count() <= released[s] {
						waitArrival(s)
					}
					released[s]++
					gate[s].release()
					for {
						// the reader queues before it reads again: once it is seen back at the gate its last turn's effect is there
						back := gate[s].count() > released[s]
						done := false
						switch what {
						case "data":
							_, n := queued()
							done = len(agentGot[s])+n[s]-base >= want
						case "eof":
							done = !listed(s)
						default:
							done = true
						}
						if done {
							if extended && pfPatience == 1 {
								pfPatience = 6 // the effect came late: the machine is busy
							}
							break
						}
						if time.Now().After(end) {
							if extended {
								break
							}
							extended, end = true, time.Now().Add(15*time.Second)
						}
						if back { // a chunk that came in several reads: the rest needs another turn
							released[s]++
							gate[s].release()
						}
						time.Sleep(time.Millisecond)
					}
					if what == "eof" {
						time.Sleep(5 * time.Millisecond) // the close task is queued right after the entry is dropped
					}
					if w, _ := o["w"].(bool); w {
						waitArrival(s)
					} else {
						time.Sleep(3 * time.Millisecond)
					}
					break
				}
				// without the gate the reader goroutine's turn cannot be commanded: wait until its effect is there (or give
				// up after 3 s and record what is there)
				switch o.Str("what") {
				case "data":
					want := 0
					for _, l := range wrote[s] {
						want += len(pfChunks[l])
					}
					until(3*time.Second, func() bool { _, n := queued(); return len(agentGot[s])+n[s] >= want })
				case "eof":
					until(3*time.Second, func() bool { return !listed(s) })
					time.Sleep(5 * time.Millisecond) // the close task is queued right after the entry is dropped
				}
			case "Remove":
				had := hasConn(s)
				b := &refdemon.Buf{}
				b.I32(agent.SOCKET_COMMAND_RPORTFWD_REMOVE).I32(sock[s]).I32(agent.SOCKET_TYPE_CLIENT).I32(loop127).I32(4444).I32(loop127).I32(uint32(tg[s].port))
				callback(si, op, b)
				if had {
					until(1500*time.Millisecond, func() bool { _, side := tg[s].snapshot(); return side != "open" })
				}
				if w, _ := o["w"].(bool); gated && w {
					waitArrival(s)
				}
			case "CheckIn":
				r := w.RequestWith(refdemon.CheckIn(id, k), 10*time.Second)
				if r.Panic != "" || r.Timeout {
					sum.Incidents = append(sum.Incidents, Incident{Behaviour: bi, Step: si, Kind: map[bool]string{true: "hang", false: "panic"}[r.Timeout], Site: "portfwd CheckIn", Detail: firstLines(r.Panic, 14)})
					wedged = r.Timeout
				}
				ts, _ := refdemon.ParseTasks(r.Body, k)
				for _, t := range ts {
					if t.Cmd != refdemon.CmdSocket {
						continue
					}
					rd := &refdemon.Rd{B: t.Body}
					switch sub := rd.I32(); sub {
					case agent.SOCKET_COMMAND_WRITE:
						n, ok := bySock[int(rd.I32())]
						if !ok {
							n = "?"
						}
						agentGot[n] = append(agentGot[n], rd.Bytes()...)
					case agent.SOCKET_COMMAND_CLOSE:
						n, ok := bySock[int(rd.I32())]
						if !ok {
							n = "?"
						}
						atold = append(atold, n)
					}
				}
			}
			ev := map[string]any{"ev": op, "s": s, "c": c, "st": observe(len(sum.Incidents) == before)}
			tr.Emit(ev)
		}
		// leave nothing running for this agent
		for _, n := range names {
			gate[n].openAll()
		}
		if !wedged {
			for _, n := range names {
				a.PortFwdClose(int(sock[n]))
			}
		}
		for _, n := range names {
			tg[n].shutdown()
		}
		if bi < 2 {
			sum.Samples = append(sum.Samples, beh)
		}
		sum.Behaviours++
	}
	sum.Counters["waits.expired"], sum.Counters["waits.late"] = pfExpired, pfLate
	for k, v := range pfSites {
		sum.Counters[k] = v
	}
}

func init() {
	Modules["portfwd"] = func(behs [][]Step, tr *Trace, env Env, sum *Summary) { RunPortFwd(behs, tr, env, sum) }
}
