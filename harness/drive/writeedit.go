package drive

import (
	"bytes"
	"encoding/json"
	"fmt"
	"math/rand"
	"sort"
	"strings"
	"time"

	hcl "Havoc/pkg/profile/yaotl"
	"Havoc/pkg/profile/yaotl/hclsyntax"
	"Havoc/pkg/profile/yaotl/hclwrite"

	"github.com/zclconf/go-cty/cty"
)

// ---- WriteEdit (C20): files and edit sequences chosen by the specification, run through the real writer ----

var weExprText = map[string]string{
	"one": "1", "str": `"s"`, "list": "[1, 2]", "mlist": "[\n    1,\n    2,\n  ]", "obj": "{ a = 1 }", "trav": "var.x",
	"tmpl": `"a${var.b}c"`, "here": "<<EOT\n  hello ${var.b}\nEOT", "call": "f(1, 2)", "cond": "x ? 1 : 2",
	"here2": "<<EOT\n${var.b} is up\n%{ if true }yes%{ endif }\n  ${var.y}\nEOT", "here3": "<<-EOT\n    %{ for v in [1, 2] }${v}%{ endfor }\n    tail\n    EOT",
	"v7": "7", "vs": `"hi"`, "vt": "var.y",
	"idxt": "var.m[true]", "idxn": "var.m[null]", "rt": "local.p", "ru": "local.q2",
}
var weCommentText = map[string]string{"c1": "# c1 = { \"", "c2": "// c2", "c3": "/* c3 */"}

func weNorm(s string) string {
	return strings.NewReplacer(" ", "", "\t", "", "\r", "").Replace(s)
}

var weExprID, weCommentID = map[string]string{}, map[string]string{}

func init() {
	for id, t := range weExprText {
		weExprID[weNorm(t)] = id
	}
	for id, t := range weCommentText {
		weCommentID[weNorm(t)] = id
	}
	Modules["writeedit"] = func(behs [][]Step, tr *Trace, env Env, sum *Summary) { RunWriteEdit(behs, tr, env, sum) }
}

func weRender(items []any, ind string, rng *rand.Rand, sb *strings.Builder, lay string) {
	eqs := []string{" = ", "=", "   =   ", " =\t", "\t= "}
	for _, it := range items {
		m := nodeOf(it)
		if rng.Intn(3) == 0 {
			sb.WriteString("\n")
		}
		lead := func() {
			for _, c := range listOf(m["lead"]) {
				sb.WriteString(ind + weCommentText[c.(string)] + "\n")
			}
		}
		switch m["k"] {
		case "note":
			sb.WriteString(ind + weCommentText[m["id"].(string)] + "\n\n")
		case "attr":
			lead()
			sb.WriteString(ind + m["name"].(string) + eqs[rng.Intn(len(eqs))] + weExprText[m["expr"].(string)])
			if l, _ := m["line"].(string); l != "" {
				sb.WriteString([]string{" ", "   ", "\t"}[rng.Intn(3)] + weCommentText[l])
			}
			sb.WriteString("\n")
		case "block":
			lead()
			sb.WriteString(ind + m["type"].(string))
			if lay == "midnote" { // a comment between the block's type and what follows
				sb.WriteString(" /* c3 */")
			}
			for _, l := range listOf(m["labels"]) {
				sb.WriteString([]string{" ", "  "}[rng.Intn(2)] + `"` + l.(string) + `"`)
			}
			body := listOf(m["body"])
			if lay == "oneline" && len(body) == 0 {
				sb.WriteString(" {}\n")
				break
			}
			if lay == "oneline" && len(body) == 1 {
				if a := nodeOf(body[0]); a["k"] == "attr" && len(listOf(a["lead"])) == 0 && a["line"] == "" && !strings.Contains(weExprText[a["expr"].(string)], "\n") {
					sb.WriteString(" { " + a["name"].(string) + " = " + weExprText[a["expr"].(string)] + " }\n")
					break
				}
			}
			sb.WriteString([]string{" {", "{", "   {"}[rng.Intn(3)] + "\n")
			weRender(body, ind+[]string{"  ", "", "      ", "\t"}[rng.Intn(4)], rng, sb, lay)
			sb.WriteString(ind + "}\n")
		}
	}
}

type weComment struct {
	inline     bool // a /* */ comment: the writer attaches only whole-line comments (# and //) to the item below
	id         string
	start, end int // lines
	startByte  int
	used       bool
}

// weProject reads a file back into the abstract body of the specification
func weProject(src []byte) ([]any, string) {
	f, diags := hclsyntax.ParseConfig(src, "w.hcl", hcl.Pos{Line: 1, Column: 1})
	if diags.HasErrors() {
		return nil, diags.Error()
	}
	toks, _ := hclsyntax.LexConfig(src, "w.hcl", hcl.Pos{Line: 1, Column: 1})
	var comments []*weComment
	for _, t := range toks {
		if t.Type == hclsyntax.TokenComment {
			txt := strings.TrimRight(string(t.Bytes), "\r\n")
			id, ok := weCommentID[weNorm(txt)]
			if !ok {
				id = "?" + txt
			}
			endLine := t.Range.End.Line
			if strings.HasSuffix(string(t.Bytes), "\n") {
				endLine--
			}
			comments = append(comments, &weComment{inline: strings.HasPrefix(txt, "/*"), id: id, start: t.Range.Start.Line, end: endLine, startByte: t.Range.Start.Byte})
		}
	}
	return weBody(f.Body.(*hclsyntax.Body), src, comments, 0, len(src)), ""
}

type weItem struct {
	start hcl.Pos
	end   hcl.Pos
	attr  *hclsyntax.Attribute
	block *hclsyntax.Block
}

func weBody(b *hclsyntax.Body, src []byte, comments []*weComment, lo, hi int) []any {
	var items []weItem
	for _, a := range b.Attributes {
		items = append(items, weItem{start: a.SrcRange.Start, end: a.SrcRange.End, attr: a})
	}
	for _, bl := range b.Blocks {
		r := bl.Range()
		items = append(items, weItem{start: r.Start, end: bl.CloseBraceRange.End, block: bl})
	}
	sort.Slice(items, func(i, j int) bool { return items[i].start.Byte < items[j].start.Byte })
	inItem := func(c *weComment) bool {
		for _, it := range items {
			if c.startByte >= it.start.Byte && c.startByte < it.end.Byte {
				return true
			}
		}
		return false
	}
	var mine []*weComment
	for _, c := range comments {
		if !c.used && c.startByte >= lo && c.startByte <= hi && !inItem(c) {
			mine = append(mine, c)
		}
	}
	out := []any{}
	ci := 0
	var pending []*weComment
	flushNotes := func(keepLead int) []string {
		// the last keepLead pending comments are lead comments, the others stand on their own
		lead := []string{}
		for i, c := range pending {
			if i < len(pending)-keepLead {
				out = append(out, map[string]any{"k": "note", "id": c.id})
			} else {
				lead = append(lead, c.id)
			}
		}
		pending = nil
		return lead
	}
	for _, it := range items {
		for ci < len(mine) && mine[ci].startByte < it.start.Byte {
			mine[ci].used = true
			pending = append(pending, mine[ci])
			ci++
		}
		// lead comments: the comments on the lines directly above, without a gap
		keep := 0
		line := it.start.Line
		for i := len(pending) - 1; i >= 0; i-- {
			if pending[i].end == line-1 && !pending[i].inline {
				keep++
				line = pending[i].start
			} else {
				break
			}
		}
		lead := flushNotes(keep)
		if it.attr != nil {
			lineC := ""
			if ci < len(mine) && mine[ci].start == it.end.Line && mine[ci].startByte >= it.end.Byte {
				lineC = mine[ci].id
				mine[ci].used = true
				ci++
			}
			er := it.attr.Expr.Range()
			txt := weNorm(string(src[er.Start.Byte:er.End.Byte]))
			id, ok := weExprID[txt]
			if !ok {
				id = "?" + txt
			}
			out = append(out, map[string]any{"k": "attr", "name": it.attr.Name, "expr": id, "lead": lead, "line": lineC})
		} else {
			labels := []string{}
			labels = append(labels, it.block.Labels...)
			out = append(out, map[string]any{"k": "block", "type": it.block.Type, "labels": labels, "body": weBody(it.block.Body, src, comments, it.block.OpenBraceRange.End.Byte, it.block.CloseBraceRange.Start.Byte), "lead": lead})
		}
	}
	for ci < len(mine) {
		mine[ci].used = true
		pending = append(pending, mine[ci])
		ci++
	}
	flushNotes(0)
	return out
}

func weValues(src []byte) string {
	f, diags := hclsyntax.ParseConfig(src, "w.hcl", hcl.Pos{Line: 1, Column: 1})
	if diags.HasErrors() {
		return "parse error"
	}
	ctx := exprCtx(map[string]any{})
	ctx.Variables["var"] = cty.ObjectVal(map[string]cty.Value{"x": cty.NumberIntVal(5), "y": cty.StringVal("why"), "b": cty.StringVal("bee")})
	ctx.Variables["x"] = cty.True
	ctx.Functions["f"] = ctx.Functions["cat"]
	var walk func(b *hclsyntax.Body) any
	walk = func(b *hclsyntax.Body) any {
		m := map[string]any{}
		for n, a := range b.Attributes {
			v, d := a.Expr.Value(ctx)
			if d.HasErrors() {
				m[n] = "error"
			} else {
				m[n] = valueJSON(v)
			}
		}
		bl := []any{}
		for _, x := range b.Blocks {
			bl = append(bl, []any{x.Type, x.Labels, walk(x.Body)})
		}
		m["#blocks"] = bl
		return m
	}
	j, _ := json.Marshal(walk(f.Body.(*hclsyntax.Body)))
	return string(j)
}

func weMeasure(src []byte) map[string]any {
	m := map[string]any{"raw_roundtrip": false, "fmt_blank_only": false, "fmt_idempotent": false, "fmt_same_tree": false, "fmt_same_values": false, "bytes_is_format": false, "parses": false}
	f, diags := hclwrite.ParseConfig(src, "w.hcl", hcl.Pos{Line: 1, Column: 1})
	if diags.HasErrors() {
		return m
	}
	m["parses"] = true
	raw := f.BuildTokens(nil).Bytes()
	m["raw_roundtrip"] = bytes.Equal(raw, bytes.ReplaceAll(src, []byte("\t"), []byte(" "))) || bytes.Equal(raw, src)
	if !m["raw_roundtrip"].(bool) {
		// a tab comes back as a space only between tokens; inside tokens (heredoc lines, comments) it stays
		m["raw_roundtrip"] = len(raw) == len(src) && func() bool {
			for i := range raw {
				if raw[i] != src[i] && !(src[i] == '\t' && raw[i] == ' ') {
					return false
				}
			}
			return true
		}()
	}
	fm := hclwrite.Format(src)
	strip := func(b []byte) string { return strings.NewReplacer(" ", "", "\t", "").Replace(string(b)) }
	m["fmt_blank_only"] = strip(fm) == strip(src)
	m["fmt_idempotent"] = bytes.Equal(hclwrite.Format(fm), fm)
	p1, e1 := weProject(src)
	p2, e2 := weProject(fm)
	j1, _ := json.Marshal(p1)
	j2, _ := json.Marshal(p2)
	m["fmt_same_tree"] = e1 == "" && e2 == "" && string(j1) == string(j2)
	m["fmt_same_values"] = weValues(src) == weValues(fm)
	m["bytes_is_format"] = bytes.Equal(f.Bytes(), fm)
	return m
}

func RunWriteEdit(behs [][]Step, tr *Trace, env Env, sum *Summary) {
	for bi, beh := range behs {
		rng := rand.New(rand.NewSource(env.Seed*9973 + int64(bi)*131 + int64(env.Shard)))
		load := beh[0]
		var sb strings.Builder
		lay := load.Str("lay")
		weRender(listOf(load["doc"]), "", rng, &sb, lay)
		text := sb.String()
		switch lay {
		case "bom":
			text = "\xef\xbb\xbf" + text
		case "noeol":
			text = strings.TrimRight(text, "\n")
		case "crlf":
			text = strings.ReplaceAll(text, "\n", "\r\n")
		}
		src := []byte(text)
		var rawBuf hclwrite.Tokens // the caller's token buffer, reused from one SetAttributeRaw to the next
		tr.Emit(map[string]any{"ev": "Reset"})
		var f *hclwrite.File
		type handed struct {
			b []byte // what Bytes() returned, kept as it was returned
			s string // what it said then
		}
		var held []handed
		step := func(ev string, o Step, fn func()) bool {
			pan, hung := guarded(fn, 20*time.Second)
			if strings.HasPrefix(pan, "harness-error") {
				panic(pan)
			}
			crashed := pan != "" || hung
			var out []byte
			doc := []any{}
			perr := ""
			meas := weMeasure(nil)
			said, kept := "", true
			if crashed {
				k := "panic"
				if hung {
					k = "hang"
				}
				sum.Incidents = append(sum.Incidents, Incident{Behaviour: bi, Kind: k, Site: fmt.Sprintf("%s %v", ev, o), Detail: firstLines(pan, 14) + "\n--- file before:\n" + string(src)})
			} else {
				if ev == "Load" {
					out = src // the input itself is what the load contracts are about
				} else {
					out = f.Bytes()
				}
				said = string(out)
				var d []any
				d, perr = weProject(out)
				if d != nil {
					doc = d
				}
				meas = weMeasure(out)
				held = append(held, handed{out, said})
				for _, h := range held {
					if string(h.b) != h.s {
						kept = false
						sum.Counters["handed-out bytes changed later"]++
					}
				}
			}
			tr.Emit(map[string]any{"ev": ev, "o": o, "doc": doc, "m": meas, "crashed": crashed, "parse_error": perr, "text": said, "kept": kept})
			sum.Counters["op."+o.Str("op")]++
			return !crashed && perr == ""
		}
		ok := step("Load", load, func() {
			var diags hcl.Diagnostics
			f, diags = hclwrite.ParseConfig(src, "w.hcl", hcl.Pos{Line: 1, Column: 1})
			if diags.HasErrors() {
				panic("harness-error: generated file does not parse: " + diags.Error() + "\n" + string(src))
			}
		})
		for _, o := range beh[1:] {
			if !ok {
				break
			}
			o := o
			ok = step("Edit", o, func() {
				body := f.Body()
				if p := o.Int("path"); p > 0 {
					bl := body.Blocks()
					if p > len(bl) {
						return
					}
					body = bl[p-1].Body()
				}
				switch o.Str("op") {
				case "SetAttr":
					switch o.Str("expr") {
					case "v7":
						body.SetAttributeValue(o.Str("name"), cty.NumberIntVal(7))
					case "vs":
						body.SetAttributeValue(o.Str("name"), cty.StringVal("hi"))
					case "list":
						body.SetAttributeValue(o.Str("name"), cty.ListVal([]cty.Value{cty.NumberIntVal(1), cty.NumberIntVal(2)}))
					case "vt":
						body.SetAttributeTraversal(o.Str("name"), hcl.Traversal{hcl.TraverseRoot{Name: "var"}, hcl.TraverseAttr{Name: "y"}})
					}
				case "SetAttrRaw":
					rawBuf = rawBuf[:0]
					for i, part := range strings.Split(weExprText[o.Str("expr")], ".") {
						if i > 0 {
							rawBuf = append(rawBuf, &hclwrite.Token{Type: hclsyntax.TokenDot, Bytes: []byte(".")})
						}
						rawBuf = append(rawBuf, &hclwrite.Token{Type: hclsyntax.TokenIdent, Bytes: []byte(part)})
					}
					body.SetAttributeRaw(o.Str("name"), rawBuf)
				case "Clear":
					body.Clear()
				case "RemoveAttr":
					body.RemoveAttribute(o.Str("name"))
				case "AppendBlock":
					labels := []string{}
					for _, l := range listOf(o["labels"]) {
						labels = append(labels, l.(string))
					}
					body.AppendNewBlock(o.Str("type"), labels)
				case "RemoveBlock":
					bl := body.Blocks()
					if j := o.Int("j"); j >= 1 && j <= len(bl) {
						body.RemoveBlock(bl[j-1])
					}
				case "Format":
					out := hclwrite.Format(f.Bytes())
					nf, diags := hclwrite.ParseConfig(out, "w.hcl", hcl.Pos{Line: 1, Column: 1})
					if diags.HasErrors() {
						panic("formatted output does not parse: " + diags.Error())
					}
					f = nf
				}
			})
		}
		if bi < 2 {
			sum.Samples = append(sum.Samples, map[string]any{"file": string(src), "edits": beh[1:]})
		}
		sum.Behaviours++
	}
}
