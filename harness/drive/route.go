package drive

import (
	"bytes"
	"encoding/base64"
	"encoding/binary"
	"fmt"
	"math/rand"
	"strconv"
	"strings"
	"time"

	"Havoc/pkg/packager"

	"vcheck/refdemon"
	"vcheck/world"
)

// ---- Route (C08): tasks/callbacks for pivot agents reach the right session ----

type routeState struct {
	w    *world.World
	ids  map[string]uint32
	sym  map[uint32]string
	keys map[string]refdemon.Keys
	req  uint32

	first  string        // the hop that talks to the listener
	expect []expTask     // wrapped tasks queued on the first hop and not yet collected, in order
	final  refdemon.Task // the innermost task of the last unwrap
	fileID uint32        // memfile id seen in the last chunk
	index  map[string]int
}

func classID(cls string, rng *rand.Rand, used map[uint32]bool) uint32 {
	for {
		var v uint32
		switch cls {
		case "one":
			v = 1
		case "max":
			v = 0xFFFFFFFF
		case "topbit":
			v = 0x80000000 | uint32(rng.Int63n(0x7ffffffe))
			if v == 0xFFFFFFFF {
				continue
			}
		default:
			v = uint32(rng.Int63n(0x7ffffff0)) + 2
		}
		if !used[v] {
			used[v] = true
			return v
		}
		if cls == "one" || cls == "max" {
			panic("harness-error: duplicate singleton id class " + cls)
		}
	}
}

func (s *routeState) symOfID(id uint32) string {
	if v, ok := s.sym[id]; ok {
		return v
	}
	return fmt.Sprintf("?%08x", id)
}

func (s *routeState) issue(target string, req uint32, d, j int) (string, bool) {
	if target != s.first {
		s.expect = append(s.expect, expTask{target: target, req: req, d: d, j: j})
	}
	ag := s.w.Agent(s.ids[target])
	if ag == nil {
		panic("harness-error: no session for " + target)
	}
	pk := packager.Package{}
	pk.Head.Event = packager.Type.Session.Type
	pk.Head.User = "neo"
	pk.Body.SubEvent = packager.Type.Session.Input
	pk.Body.Info = map[string]any{"DemonID": ag.NameID, "CommandID": "11", "TaskID": fmt.Sprintf("%08X", req), "CommandLine": "sleep", "Arguments": fmt.Sprintf("%d;%d", d, j)}
	return guarded(func() { s.w.TS.DispatchEvent(pk) }, 8*time.Second)
}

// clearTasks is "task clear" typed in the agent's console
func (s *routeState) clearTasks(target string, req uint32) (string, bool) {
	ag := s.w.Agent(s.ids[target])
	pk := packager.Package{}
	pk.Head.Event = packager.Type.Session.Type
	pk.Head.User = "neo"
	pk.Body.SubEvent = packager.Type.Session.Input
	pk.Body.Info = map[string]any{"DemonID": ag.NameID, "CommandID": "Teamserver", "Command": "task::clear", "TaskID": fmt.Sprintf("%08X", req), "CommandLine": "task clear"}
	return guarded(func() { s.w.TS.DispatchEvent(pk) }, 8*time.Second)
}

// relayed wraps a package of the hop at position `from` of the chain once per hop above it
func (s *routeState) relayed(chain []string, from int, pkt []byte) []byte {
	for i := from - 1; i >= 0; i-- {
		wb := &refdemon.Buf{}
		wb.I32(refdemon.PivotSmbCommand).Bytes(pkt)
		pkt = refdemon.Packages(s.ids[chain[i]], s.keys[chain[i]], []refdemon.Sub{{Cmd: refdemon.CmdPivot, Body: wb.B}})
	}
	return pkt
}

// issueUpload pushes a small file to the target ("upload"): the file's bytes as a chunk task, then the command that names it
func (s *routeState) issueUpload(target string, req uint32, content []byte) (string, bool) {
	if target != s.first {
		s.expect = append(s.expect, expTask{target: target, kind: "chunk", data: content}, expTask{target: target, req: req, kind: "use", data: content})
	}
	ag := s.w.Agent(s.ids[target])
	pk := packager.Package{}
	pk.Head.Event = packager.Type.Session.Type
	pk.Head.User = "neo"
	pk.Body.SubEvent = packager.Type.Session.Input
	pk.Body.Info = map[string]any{"DemonID": ag.NameID, "CommandID": "15", "SubCommand": "upload", "TaskID": fmt.Sprintf("%08X", req), "CommandLine": "upload",
		"Arguments": base64.StdEncoding.EncodeToString([]byte("C:\\r\\up.bin")) + ";" + base64.StdEncoding.EncodeToString(content)}
	return guarded(func() { s.w.TS.DispatchEvent(pk) }, 8*time.Second)
}

// unwrap follows the layers of a pivot task as the Demons would and returns the hop symbols
// visited, where the final (non-pivot) task was found and what it decoded to.
func (s *routeState) unwrap(me string, t refdemon.Task) (path []string, at string, req uint32, d, j int, ok bool) {
	path = []string{}
	cur := me
	for depth := 0; depth < 10; depth++ {
		if t.Cmd != refdemon.CmdPivot {
			s.final = t
			if t.Cmd != refdemon.CmdSleep || len(t.Body) != 8 {
				return path, cur, t.Req, 0, 0, false
			}
			return path, cur, t.Req, int(binary.LittleEndian.Uint32(t.Body)), int(binary.LittleEndian.Uint32(t.Body[4:])), true
		}
		rd := &refdemon.Rd{B: t.Body}
		sub := rd.I32()
		child := rd.I32()
		frame := rd.Bytes()
		if rd.Err != nil || len(rd.B) != 0 || sub != refdemon.PivotSmbCommand {
			return path, "?malformed-pivot-task", 0, 0, 0, false
		}
		fid, pkg, err := refdemon.PipeFrame(frame)
		if err != nil || fid != child {
			return path, "?pipe-frame", 0, 0, 0, false
		}
		next := s.symOfID(child)
		path = append(path, next)
		k, known := s.keys[next]
		if !known {
			return path, next, 0, 0, 0, false
		}
		ts, err := refdemon.ParseTasks(pkg, k)
		if err != nil || len(ts) != 1 {
			return path, "?inner-package", 0, 0, 0, false
		}
		t = ts[0]
		cur = next
	}
	return path, "?too-deep", 0, 0, 0, false
}

type expTask struct {
	target string
	req    uint32
	d, j   int
	kind   string // "" (sleep task) | "chunk" (file push: the file's bytes) | "use" (file push: the command that names the file)
	data   []byte
}

func RunRoute(behs [][]Step, tr *Trace, env Env, sum *Summary) {
	for bi, beh := range behs {
		func() {
			w, err := world.New(env.Scratch, world.Options{})
			must(err)
			defer w.Close()
			s := &routeState{w: w, ids: map[string]uint32{}, sym: map[uint32]string{}, keys: map[string]refdemon.Keys{}, req: 0x7000}
			rng := rand.New(rand.NewSource(env.Seed + int64(bi)*1000003))
			setup := beh[0]
			var chain []string
			for _, h := range setup["chain"].([]any) {
				chain = append(chain, h.(string))
			}
			clsMap := setup["cls"].(map[string]any)
			used := map[uint32]bool{}
			all := append([]string{}, chain...)
			all = append(all, "sib", "r2") // r2: another agent that talks to the listener directly (a hop may be re-hung under it)
			for i, h := range all {
				c := "small"
				if v, ok := clsMap[h].(string); ok {
					c = v
				}
				id := classID(c, rng, used)
				s.ids[h] = id
				s.sym[id] = h
				s.keys[h] = world.KeysFor(env.Seed+int64(bi), i, false)
			}
			tr.Emit(map[string]any{"ev": "Reset", "chain": chain, "cls": clsMap})
			fail := func(si int, kind, site, detail string) {
				sum.Incidents = append(sum.Incidents, Incident{Behaviour: bi, Step: si, Kind: kind, Site: site, Detail: detail})
			}
			// build the chain with real packets
			r := w.Request(refdemon.Register(s.ids[chain[0]], s.keys[chain[0]], refdemon.DefaultMeta(chain[0])))
			if r.Status != 200 {
				panic(fmt.Sprintf("harness-error: first hop registration failed %+v", r))
			}
			connect := func(p, c string) {
				inner := refdemon.Register(s.ids[c], s.keys[c], refdemon.DefaultMeta(c))
				b := &refdemon.Buf{}
				b.I32(refdemon.PivotSmbConnect).I32(1).Bytes(inner)
				rr := w.RequestWith(refdemon.Packages(s.ids[p], s.keys[p], []refdemon.Sub{{Cmd: refdemon.CmdPivot, Body: b.B}}), 8*time.Second)
				if rr.Panic != "" || rr.Timeout {
					fail(0, "panic", "Connect", firstLines(rr.Panic, 14))
				}
			}
			for i := 1; i < len(chain); i++ {
				connect(chain[i-1], chain[i])
			}
			sibParent := chain[0]
			if len(chain) > 2 {
				sibParent = chain[len(chain)-2]
			}
			connect(sibParent, "sib")
			target := chain[len(chain)-1]
			s.first = chain[0]
			s.index = map[string]int{}
			for i, h := range chain {
				s.index[h] = i
			}
			for si, st := range beh[1:] {
				op, owner := st.Str("op"), st.Str("owner")
				sum.Counters["op."+op]++
				res := map[string]any{"delivered": false, "path": []string{}, "at": "", "ok": false}
				s.req++
				req := s.req
				_ = req
				switch op {
				case "Rehang":
					// hop `owner` (with everything behind it) reconnects through r2
					if w.Agent(s.ids["r2"]) == nil {
						if rr := w.Request(refdemon.Register(s.ids["r2"], s.keys["r2"], refdemon.DefaultMeta("r2"))); rr.Status != 200 {
							panic("harness-error: r2 registration failed")
						}
					}
					connect("r2", owner)
					chain = append([]string{"r2"}, chain[s.index[owner]:]...)
					s.first = chain[0]
					s.index = map[string]int{}
					for i, h := range chain {
						s.index[h] = i
					}
					res["ok"] = true
				case "LateDisconnect":
					// the former parent (kind) reports its link to `owner` gone
					b := &refdemon.Buf{}
					b.I32(refdemon.PivotSmbDisconnect).I32(1).I32(s.ids[owner])
					former := st.Str("kind")
					rr := w.RequestWith(refdemon.Packages(s.ids[former], s.keys[former], []refdemon.Sub{{Cmd: refdemon.CmdPivot, Body: b.B}}), 8*time.Second)
					if rr.Panic != "" || rr.Timeout {
						fail(si, map[bool]string{true: "hang", false: "panic"}[rr.Timeout], "LateDisconnect", firstLines(rr.Panic, 14))
					}
					res["ok"] = true
				case "Rekey":
					// the operator asks hop `owner` to check in; the request travels down; the answer carries new key material
					ag := w.Agent(s.ids[owner])
					pk := packager.Package{}
					pk.Head.Event, pk.Head.User, pk.Body.SubEvent = packager.Type.Session.Type, "neo", packager.Type.Session.Input
					pk.Body.Info = map[string]any{"DemonID": ag.NameID, "CommandID": "100", "TaskID": fmt.Sprintf("%08X", req), "CommandLine": "checkin"}
					if p, to := guarded(func() { w.TS.DispatchEvent(pk) }, 8*time.Second); p != "" || to {
						fail(si, map[bool]string{true: "hang", false: "panic"}[to], "Issue", firstLines(p, 14))
						break
					}
					if rr := w.Request(refdemon.CheckIn(s.ids[chain[0]], s.keys[chain[0]])); rr.Panic != "" || rr.Timeout || rr.Status != 200 {
						fail(si, "panic", "CheckIn", firstLines(rr.Panic, 14))
						break
					}
					nk := world.KeysFor(env.Seed+int64(bi)*31+int64(si), 40+si, false)
					cb := append(append(append([]byte{}, nk.Key...), nk.IV...), refdemon.MetaBody(s.ids[owner], refdemon.DefaultMeta(owner))...)
					pkt := refdemon.Packages(s.ids[owner], s.keys[owner], []refdemon.Sub{{Cmd: refdemon.CmdCheckin, Req: req, Body: cb}})
					rr := w.RequestWith(s.relayed(chain, s.index[owner], pkt), 8*time.Second)
					if rr.Panic != "" || rr.Timeout {
						fail(si, map[bool]string{true: "hang", false: "panic"}[rr.Timeout], "Rekey", firstLines(rr.Panic, 14))
						break
					}
					s.keys[owner] = nk
					res["ok"] = true
				case "Restart":
					if pan, to := guarded(func() { must(w.Restart()) }, 150*time.Second); pan != "" || to {
						if strings.Contains(pan, "harness-error") {
							panic(pan)
						}
						fail(si, map[bool]string{true: "hang", false: "panic"}[to], "Restart", firstLines(pan, 16))
						break
					}
					s.expect = nil // what waited in the queues went with the process
					res["ok"] = true
				case "Down", "DownClear":
					// two tasks for the target before the first hop checks in: every wrapped task queued so far
					// (also those left over from earlier steps) must come out, in order, each intact
					sibBefore := fmt.Sprintf("%v", w.Snapshot().Queues[fmt.Sprintf("%08x", s.ids["sib"])])
					failed := false
					for n := 0; n < 2 && !failed; n++ {
						if n == 1 {
							s.req++
						}
						var p string
						var to bool
						if st.Str("kind") == "file" && n == 1 {
							// the second task is a file push: its bytes must reach the target before the command that names them
							p, to = s.issueUpload(target, s.req, []byte(fmt.Sprintf("file-%d-%d", bi, si)))
						} else {
							p, to = s.issue(target, s.req, 30+rng.Intn(1000), rng.Intn(90))
						}
						if p != "" || to {
							fail(si, map[bool]string{true: "hang", false: "panic"}[to], "Issue", firstLines(p, 14))
							failed = true
						}
					}
					if failed {
						break
					}
					if op == "DownClear" {
						// the operator empties the queue of a hop in the middle
						s.req++
						if p, to := s.clearTasks(owner, s.req); p != "" || to {
							fail(si, map[bool]string{true: "hang", false: "panic"}[to], "Clear", firstLines(p, 14))
							break
						}
						sum.Counters["cleared-under-waiting-tasks"]++
					}
					rr := w.Request(refdemon.CheckIn(s.ids[chain[0]], s.keys[chain[0]]))
					if rr.Panic != "" || rr.Timeout || rr.Status != 200 {
						fail(si, "panic", "CheckIn", firstLines(rr.Panic, 14))
						break
					}
					tasks, err := refdemon.ParseTasks(rr.Body, s.keys[chain[0]])
					if err != nil {
						res["at"] = "?undecodable"
						break
					}
					want := s.expect
					s.expect = nil
					got := 0
					allOK := true
					for _, t := range tasks {
						if t.Cmd != refdemon.CmdPivot {
							continue
						}
						res["delivered"] = true
						path, at, rq, d, j, ok := s.unwrap(chain[0], t)
						res["path"], res["at"] = path, at
						if got >= len(want) {
							allOK = false
							break
						}
						e := want[got]
						got++
						wantPath := chain[1 : s.index[e.target]+1]
						switch e.kind {
						case "":
							if !ok || at != e.target || rq != e.req || d != e.d || j != e.j || fmt.Sprint(path) != fmt.Sprint(wantPath) {
								allOK = false
								sum.Counters["down-mismatch"]++
							}
						case "chunk":
							rd := &refdemon.Rd{B: s.final.Body}
							fid, total, data := rd.I32(), rd.I64(), rd.Bytes()
							s.fileID = fid
							if s.final.Cmd != refdemon.CmdMemFile || rd.Err != nil || len(rd.B) != 0 || total != uint64(len(e.data)) || !bytes.Equal(data, e.data) || at != e.target || fmt.Sprint(path) != fmt.Sprint(wantPath) {
								allOK = false
								sum.Counters["down-mismatch"]++
							}
							sum.Counters["file-chunks-routed"]++
						case "use":
							rd := &refdemon.Rd{B: s.final.Body}
							sub := rd.I32()
							rd.Bytes()
							fid := rd.I32()
							if s.final.Cmd != refdemon.CmdFS || rd.Err != nil || sub != 3 || fid != s.fileID || rq != e.req || at != e.target || fmt.Sprint(path) != fmt.Sprint(wantPath) {
								allOK = false
								sum.Counters["down-mismatch"]++
							}
						}
					}
					if got != len(want) {
						allOK = false
					}
					sibAfter := fmt.Sprintf("%v", w.Snapshot().Queues[fmt.Sprintf("%08x", s.ids["sib"])])
					res["ok"] = allOK && sibBefore == sibAfter
					sum.Counters["wrapped-tasks-checked"] += got
				case "Up":
					val := 2000 + rng.Intn(100000)
					if owner != "nobody" {
						if p, to := s.issue(owner, req, 1, 1); p != "" || to {
							fail(si, map[bool]string{true: "hang", false: "panic"}[to], "Issue", firstLines(p, 14))
							break
						}
					}
					b := &refdemon.Buf{}
					b.I32(uint32(val)).I32(33)
					pkt := refdemon.Packages(s.ids[target], s.keys[target], []refdemon.Sub{{Cmd: refdemon.CmdSleep, Req: req, Body: b.B}})
					pkt = s.relayed(chain, len(chain)-1, pkt)
					before := map[string]int{}
					for h, id := range s.ids {
						if a := w.Agent(id); a != nil {
							before[h] = a.Info.SleepDelay
						}
					}
					nEv := len(w.TS.EventsList)
					rr := w.RequestWith(pkt, 8*time.Second)
					if rr.Panic != "" || rr.Timeout {
						fail(si, map[bool]string{true: "hang", false: "panic"}[rr.Timeout], "Relay", firstLines(rr.Panic, 14))
						break
					}
					res["delivered"] = true
					at, ok := "", true
					for h, id := range s.ids {
						if a := w.Agent(id); a != nil && a.Info.SleepDelay != before[h] {
							if at != "" {
								at = "?multi"
							} else {
								at = h
							}
							if a.Info.SleepDelay != val {
								ok = false // decrypted with the wrong key
							}
						}
					}
					// console attribution of the new "Set sleep interval" event
					for _, e := range w.TS.EventsList[nEv:] {
						if did, _ := e.Body.Info["DemonID"].(string); did != "" {
							out64, _ := e.Body.Info["Output"].(string)
							if out, _ := base64.StdEncoding.DecodeString(out64); containsStr(string(out), "Set sleep interval") {
								v, _ := strconv.ParseUint(did, 16, 64)
								if s.symOfID(uint32(v)) != at {
									ok = false
								}
							}
						}
					}
					res["at"], res["ok"] = at, ok
				}
				tr.Emit(map[string]any{"ev": op, "owner": owner, "kind": st.Str("kind"), "res": res})
			}
			if bi < 2 {
				sum.Samples = append(sum.Samples, map[string]any{"chain": chain, "cls": clsMap, "ids": fmt.Sprintf("%x", s.ids), "ops": beh[1:]})
			}
		}()
		sum.Behaviours++
	}
}

func containsStr(s, sub string) bool {
	for i := 0; i+len(sub) <= len(s); i++ {
		if s[i:i+len(sub)] == sub {
			return true
		}
	}
	return false
}

func init() {
	Modules["route"] = func(behs [][]Step, tr *Trace, env Env, sum *Summary) { RunRoute(behs, tr, env, sum) }
}
