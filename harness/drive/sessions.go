package drive

import (
	"bytes"
	"encoding/binary"
	"fmt"
	"math/rand"
	"strconv"
	"strings"
	"time"

	"Havoc/pkg/agent"
	"Havoc/pkg/packager"

	"vcheck/refdemon"
	"vcheck/world"
)

// ---- Sessions (C03, session clauses) ----

type sessState struct {
	w      *world.World
	ids    map[string]uint32
	keys   map[string]refdemon.Keys
	metas  map[string]refdemon.Meta
	cur    map[string]refdemon.Keys // key a legitimate owner of the id would use now
	hasCur map[string]bool
	req    uint32
}

var hostClasses = []string{"WIN-PLAIN01", "hôst-é中", "007", "x y", ""}
var pathClasses = []string{"C:\\Windows\\System32\\notepad.exe", "C:\\Üsers\\中文\\p.exe", "C:\\tmp\\\U0001F600\\a.exe", "relative.exe",
	"C:\\Users\\José\\café.exe", "Müller\u00ff.exe", "C:\\\u0080\u00a0\\x.exe", "C:\\Łódź\\ż.exe"}

func mkMeta(rng *rand.Rand, tag string) refdemon.Meta {
	m := refdemon.DefaultMeta(tag)
	m.Hostname = hostClasses[rng.Intn(len(hostClasses))] + tag
	m.Username = []string{"Administrator", "jörg", "a\\b"}[rng.Intn(3)] + tag
	m.Domain = []string{"CORP", "", "dom.local"}[rng.Intn(3)]
	m.InternalIP = []string{"10.1.2.3", "fe80::1", "192.168.0.255"}[rng.Intn(3)]
	m.ProcessPath = pathClasses[rng.Intn(len(pathClasses))]
	m.PID = rng.Uint32()
	m.TID = rng.Uint32() >> uint(rng.Intn(32))
	m.PPID = uint32(rng.Intn(70000))
	m.Arch = uint32(rng.Intn(4))
	m.Elevated = uint32(rng.Intn(2))
	m.Base = rng.Uint64()
	m.OSArch = []uint32{0, 9, 5, 12, 6}[rng.Intn(5)]
	m.Sleep = uint32(rng.Intn(100000))
	m.Jitter = uint32(rng.Intn(100))
	m.KillDate = uint64(rng.Int63())
	m.WorkingHours = rng.Uint32()
	return m
}

// metaMatches compares a session record with what was sent; returns "" or the first differing field.
// restoredSessions: the run restarted the teamserver; sessions that came back from the database carry the recorded
// subset of the metadata (no process path)
var restoredSessions bool

func metaMatches(a *agent.Agent, m refdemon.Meta) string {
	i := a.Info
	if restoredSessions && i.ProcessPath != m.ProcessPath { // not recorded: a restored session has the process name in its place
		i.ProcessPath = m.ProcessPath
	}
	proc := m.ProcessPath
	for k := len(proc) - 1; k >= 0; k-- {
		if proc[k] == '\\' {
			proc = proc[k+1:]
			break
		}
	}
	switch {
	case i.Hostname != m.Hostname:
		return "Hostname"
	case i.Username != m.Username:
		return "Username"
	case i.DomainName != m.Domain:
		return "DomainName"
	case i.InternalIP != m.InternalIP:
		return "InternalIP"
	case i.ProcessPath != m.ProcessPath:
		return "ProcessPath"
	case i.ProcessName != proc:
		return "ProcessName"
	case uint32(i.ProcessPID) != m.PID:
		return "ProcessPID"
	case uint32(i.ProcessTID) != m.TID:
		return "ProcessTID"
	case uint32(i.ProcessPPID) != m.PPID:
		return "ProcessPPID"
	case uint64(i.BaseAddress) != m.Base:
		return "BaseAddress"
	case uint32(i.SleepDelay) != m.Sleep:
		return "SleepDelay"
	case uint32(i.SleepJitter) != m.Jitter:
		return "SleepJitter"
	case uint64(i.KillDate) != m.KillDate:
		return "KillDate"
	case uint32(i.WorkingHours) != m.WorkingHours:
		return "WorkingHours"
	case (i.Elevated == "true") != (m.Elevated == 1):
		return "Elevated"
	}
	return ""
}

func (s *sessState) project() map[string]any {
	list := []map[string]any{}
	for _, a := range s.w.TS.Agents.Agents {
		id := "?" + a.NameID
		if v, err := strconv.ParseUint(a.NameID, 16, 64); err == nil {
			for sym, real := range s.ids {
				if uint64(real) == v && a.NameID == fmt.Sprintf("%08x", real) {
					id = sym
				}
			}
		}
		key := "?"
		for sym, k := range s.keys {
			if bytes.Equal(k.Key, a.Encryption.AESKey) && bytes.Equal(k.IV, a.Encryption.AESIv) {
				key = sym
			}
		}
		meta := ""
		for _, sym := range []string{"m1", "m2"} {
			if d := metaMatches(a, s.metas[sym]); d == "" {
				meta = sym
			} else if meta == "" || strings.HasPrefix(meta, "?") {
				meta += "?" + sym + ":" + d
			}
		}
		list = append(list, map[string]any{"id": id, "key": key, "meta": meta, "active": a.Active})
	}
	return map[string]any{"sess": list}
}

func RunSessions(behs [][]Step, tr *Trace, env Env, sum *Summary) {
	for bi, beh := range behs {
		func() {
			w, err := world.New(env.Scratch, world.Options{})
			must(err)
			defer w.Close()
			rng := rand.New(rand.NewSource(env.Seed + int64(bi)*1000003))
			s := &sessState{w: w, ids: map[string]uint32{"zero": 0}, keys: map[string]refdemon.Keys{}, metas: map[string]refdemon.Meta{}, cur: map[string]refdemon.Keys{}, hasCur: map[string]bool{}, req: 0x9000}
			s.ids["i1"] = uint32(rng.Int63n(0x7ffffff0)) + 2
			s.ids["i2"] = s.ids["i1"] + 1 + uint32(rng.Intn(1000))
			s.keys["k1"] = world.KeysFor(env.Seed+int64(bi), 1, false)
			s.keys["k2"] = world.KeysFor(env.Seed+int64(bi), 2, false)
			s.keys["kz"] = world.KeysFor(0, 0, true)
			s.metas["m1"] = mkMeta(rng, "A")
			s.metas["m2"] = mkMeta(rng, "B")
			tr.Emit(map[string]any{"ev": "Reset"})
			restoredSessions = false
			for si, st := range beh {
				op, h, j, k, m := st.Str("op"), st.Str("h"), st.Str("j"), st.Str("k"), st.Str("m")
				sum.Counters["op."+op]++
				reply := "bad"
				nBefore := len(w.TS.Agents.Agents)
				var r world.Result
				switch op {
				case "Reg":
					body := refdemon.MetaBody(s.ids[j], s.metas[m])
					kk := s.keys[k]
					if !kk.Zero() {
						body = refdemon.CTR(kk, body)
					}
					rest := append(append(append([]byte{}, kk.Key...), kk.IV...), body...)
					r = w.Request(refdemon.Frame(refdemon.Magic, s.ids[h], refdemon.CmdInit, 0, rest))
					if r.Status == 404 {
						reply = "404"
					} else if r.Status == 200 {
						grew := len(w.TS.Agents.Agents) > nBefore
						use := kk
						if !grew && s.hasCur[h] {
							use = s.cur[h]
						}
						plain := r.Body
						if !use.Zero() {
							plain = refdemon.CTR(use, r.Body)
						}
						if len(plain) == 4 && binary.LittleEndian.Uint32(plain) == s.ids[h] {
							reply = map[bool]string{true: "registered", false: "reconnect"}[grew]
						}
						if grew && h == j {
							s.cur[h], s.hasCur[h] = kk, true
						}
					}
				case "Restart":
					pan, to := guarded(func() { must(w.Restart()) }, 150*time.Second)
					if strings.Contains(pan, "harness-error") {
						panic(pan)
					}
					restoredSessions = true
					r = world.Result{Status: 200, Panic: pan, Timeout: to}
					reply = "nojob"
					// ids of sessions that did not come back are free again
					for sym, id := range s.ids {
						if sym != "zero" && w.Agent(id) == nil {
							s.hasCur[sym] = false
						}
					}
				case "CheckIn":
					kk := s.cur[h]
					if !s.hasCur[h] {
						kk = s.keys["k1"]
					}
					r = w.Request(refdemon.CheckIn(s.ids[h], kk))
					reply = s.classify(r, kk)
				case "Kill":
					ag := w.Agent(s.ids[h])
					kk := s.cur[h]
					if ag != nil && k == "exit" {
						s.req++
						pk := packager.Package{}
						pk.Head.Event, pk.Head.User, pk.Body.SubEvent = packager.Type.Session.Type, "neo", packager.Type.Session.Input
						pk.Body.Info = map[string]any{"DemonID": ag.NameID, "CommandID": "92", "ExitMethod": "thread", "TaskID": fmt.Sprintf("%08X", s.req), "CommandLine": "exit"}
						guarded(func() { w.TS.DispatchEvent(pk) }, 5*time.Second)
						b := &refdemon.Buf{}
						b.I32(1)
						r = w.Request(refdemon.Packages(s.ids[h], kk, []refdemon.Sub{{Cmd: refdemon.CmdExit, Req: s.req, Body: b.B}}))
						reply = s.classify(r, kk)
					} else if ag != nil {
						pk := packager.Package{}
						pk.Head.Event, pk.Head.User, pk.Body.SubEvent = packager.Type.Session.Type, "neo", packager.Type.Session.MarkAsDead
						pk.Body.Info = map[string]any{"AgentID": ag.NameID, "Marked": "Dead"}
						p, to := guarded(func() { w.TS.DispatchEvent(pk) }, 5*time.Second)
						r = world.Result{Status: 200, Panic: p, Timeout: to}
						reply = "nojob"
					}
				case "Refresh":
					ag := w.Agent(s.ids[h])
					s.req++
					if ag != nil {
						pk := packager.Package{}
						pk.Head.Event = packager.Type.Session.Type
						pk.Head.User = "neo"
						pk.Body.SubEvent = packager.Type.Session.Input
						pk.Body.Info = map[string]any{"DemonID": ag.NameID, "CommandID": "100", "TaskID": fmt.Sprintf("%08X", s.req), "CommandLine": "checkin"}
						guarded(func() { w.TS.DispatchEvent(pk) }, 5*time.Second)
					}
					nk := s.keys[k]
					cb := append(append(append([]byte{}, nk.Key...), nk.IV...), refdemon.MetaBody(s.ids[j], s.metas[m])...)
					kk := s.cur[h]
					if !s.hasCur[h] {
						kk = s.keys["k1"]
					}
					r = w.Request(refdemon.Packages(s.ids[h], kk, []refdemon.Sub{{Cmd: refdemon.CmdCheckin, Req: s.req, Body: cb}}))
					reply = s.classify(r, kk)
					if h == j && r.Status == 200 {
						s.cur[h] = nk
					}
				}
				if r.Panic != "" || r.Timeout {
					sum.Incidents = append(sum.Incidents, Incident{Behaviour: bi, Step: si, Kind: map[bool]string{true: "hang", false: "panic"}[r.Timeout], Site: op, Detail: firstLines(r.Panic, 14)})
				}
				tr.Emit(map[string]any{"ev": op, "h": h, "j": j, "k": k, "m": m, "res": map[string]any{"reply": reply}, "st": s.project()})
			}
			if bi < 2 {
				sum.Samples = append(sum.Samples, beh)
			}
		}()
		sum.Behaviours++
	}
}

func (s *sessState) classify(r world.Result, k refdemon.Keys) string {
	if r.Status == 404 {
		return "404"
	}
	if r.Status == 200 {
		if ts, err := refdemon.ParseTasks(r.Body, k); err == nil && len(ts) >= 1 {
			for _, t := range ts {
				if t.Cmd == refdemon.CmdNoJob {
					return "nojob"
				}
			}
			return "nojob" // a queued task (the check-in task itself) is handed out: still a protocol reply
		}
	}
	return "bad"
}

func init() {
	Modules["sessions"] = func(behs [][]Step, tr *Trace, env Env, sum *Summary) { RunSessions(behs, tr, env, sum) }
}
