package drive

import (
	"fmt"
	"sync"
	"time"

	"Havoc/pkg/agent"

	"vcheck/refdemon"
	"vcheck/world"
)

// ---- JobQueueConc (C04, schedules): concurrent producers against the agent's check-ins, on the real queue ----

func RunJobConc(behs [][]Step, tr *Trace, env Env, sum *Summary) {
	for bi, beh := range behs {
		cell := beh[0]
		P, K := cell.Int("producers"), cell.Int("per")
		w, err := world.New(env.Scratch, world.Options{})
		must(err)
		id := uint32(0x5100_0000) + uint32(env.Shard)<<8 + uint32(bi)
		k := world.KeysFor(env.Seed, bi+1, false)
		if r := w.Register(id, k, refdemon.DefaultMeta("jc")); r.Status != 200 {
			panic("harness-error: registration refused")
		}
		a := w.Agent(id)
		got := [][]int{}
		unknown := 0
		var incidents []Incident
		crashed := false
		take := func() int {
			r := w.RequestWith(refdemon.CheckIn(id, k), 20*time.Second)
			if r.Panic != "" || r.Timeout {
				kind := "panic"
				if r.Timeout {
					kind = "hang"
				}
				if len(incidents) < 3 {
					incidents = append(incidents, Incident{Behaviour: bi, Kind: kind, Site: "check-in under concurrent AddJobToQueue", Detail: firstLines(r.Panic, 14)})
				}
				crashed = true
				return 0
			}
			tasks, perr := refdemon.ParseTasks(r.Body, k)
			if perr != nil {
				unknown++
			}
			n := 0
			for _, t := range tasks {
				if t.Cmd != agent.COMMAND_SOCKET {
					continue
				}
				rd := &refdemon.Rd{B: t.Body}
				sub, p, i := rd.I32(), rd.I32(), rd.I32()
				if rd.Err != nil || sub != agent.SOCKET_COMMAND_WRITE {
					unknown++
					continue
				}
				got = append(got, []int{int(p), int(i)})
				n++
			}
			return n
		}
		var wg sync.WaitGroup
		start := make(chan struct{})
		var prodPanics sync.Map
		for p := 1; p <= P; p++ {
			wg.Add(1)
			go func(p int) {
				defer wg.Done()
				defer func() {
					if r := recover(); r != nil {
						prodPanics.Store(p, fmt.Sprint(r))
					}
				}()
				<-start
				for i := 1; i <= K; i++ {
					// what a relay goroutine does for every chunk it read (socket write task for the agent)
					a.AddJobToQueue(agent.Job{Command: agent.COMMAND_SOCKET, RequestID: uint32(p)<<24 | uint32(i), Data: []any{agent.SOCKET_COMMAND_WRITE, p, i, []byte{byte(p), byte(i)}}})
				}
			}(p)
		}
		done := make(chan struct{})
		go func() { wg.Wait(); close(done) }()
		close(start)
		running := true
		for running && !crashed {
			select {
			case <-done:
				running = false
			default:
				take()
			}
		}
		<-done
		for idle := 0; idle < 3 && !crashed; { // final drain
			if take() == 0 {
				idle++
			} else {
				idle = 0
			}
		}
		prodPanics.Range(func(key, v any) bool {
			crashed = true
			incidents = append(incidents, Incident{Behaviour: bi, Kind: "panic", Site: "AddJobToQueue (producer)", Detail: v.(string)})
			return true
		})
		sum.Incidents = append(sum.Incidents, incidents...)
		tr.Emit(map[string]any{"ev": "Reset"})
		tr.Emit(map[string]any{"ev": "Run", "producers": P, "per": K, "got": got, "crashed": crashed, "undecodable": unknown})
		sum.Counters["runs"]++
		sum.Counters["tasks_added"] += P * K
		sum.Counters["tasks_delivered"] += len(got)
		if bi < 1 {
			sum.Samples = append(sum.Samples, map[string]any{"producers": P, "per": K, "delivered": len(got)})
		}
		sum.Behaviours++
		w.Close()
	}
}

func init() {
	Modules["jobconc"] = func(behs [][]Step, tr *Trace, env Env, sum *Summary) { RunJobConc(behs, tr, env, sum) }
}

// ---- Burst (C01, concurrency): many requests for one session at the same moment ----

// RunBurst fires rounds of simultaneous requests (check-ins against a queue with 0 or 1 task, callbacks) for one
// agent and probes after every round that each request was answered and that no mutex of the session stays locked.
func RunBurst(behs [][]Step, tr *Trace, env Env, sum *Summary) {
	for bi, beh := range behs {
		cell := beh[0]
		width, rounds := cell.Int("width"), cell.Int("rounds")
		w, err := world.New(env.Scratch, world.Options{})
		must(err)
		id := uint32(0x5200_0000) + uint32(env.Shard)<<8 + uint32(bi)
		k := world.KeysFor(env.Seed, bi+7, false)
		if r := w.Register(id, k, refdemon.DefaultMeta("bu")); r.Status != 200 {
			panic("harness-error: registration refused")
		}
		a := w.Agent(id)
		ok, answered := true, true
		what := ""
		for r := 0; r < rounds && ok; r++ {
			if cell.Str("queue") == "one" || (cell.Str("queue") == "alternate" && r%2 == 0) {
				a.AddJobToQueue(agent.Job{Command: agent.COMMAND_SOCKET, RequestID: uint32(r), Data: []any{agent.SOCKET_COMMAND_WRITE, 1, r, []byte{1}}})
			}
			res := w.Burst(refdemon.CheckIn(id, k), width, 10*time.Second)
			for g := range res {
				if res[g].Panic != "" || res[g].Timeout || res[g].Status != 200 {
					answered = false
					ok = false
					what = fmt.Sprintf("round %d request %d: status %d timeout %v %s", r, g, res[g].Status, res[g].Timeout, firstLines(res[g].Panic, 8))
				}
			}
			for name, m := range map[string]interface{ TryLock() bool }{"JobQueueMtx": &a.JobQueueMtx, "PortFwdsMtx": &a.PortFwdsMtx, "SocksCliMtx": &a.SocksCliMtx, "SocksSvrMtx": &a.SocksSvrMtx} {
				free := false
				for t := 0; t < 50 && !free; t++ { // every request has returned: nothing may still hold it
					if m.TryLock() {
						free = true
						switch name {
						case "JobQueueMtx":
							a.JobQueueMtx.Unlock()
						case "PortFwdsMtx":
							a.PortFwdsMtx.Unlock()
						case "SocksCliMtx":
							a.SocksCliMtx.Unlock()
						default:
							a.SocksSvrMtx.Unlock()
						}
					} else {
						time.Sleep(2 * time.Millisecond)
					}
				}
				if !free {
					ok = false
					what = fmt.Sprintf("round %d: %s still locked after all %d requests returned", r, name, width)
					sum.Incidents = append(sum.Incidents, Incident{Behaviour: bi, Step: r, Kind: "lock-held", Site: fmt.Sprintf("%d simultaneous check-ins, queue=%s", width, cell.Str("queue")), Detail: name})
				}
			}
		}
		if !answered {
			sum.Incidents = append(sum.Incidents, Incident{Behaviour: bi, Kind: "hang", Site: fmt.Sprintf("%d simultaneous check-ins, queue=%s", width, cell.Str("queue")), Detail: what})
		}
		tr.Emit(map[string]any{"ev": "Reset"})
		tr.Emit(map[string]any{"ev": "Step", "o": map[string]any{"op": "Burst", "width": width, "queue": cell.Str("queue")}, "obs": map[string]any{"status": 200, "ok": ok}, "dls": []any{}, "pfs": []any{}})
		sum.Counters["burst_rounds"] += rounds
		sum.Behaviours++
		w.Close()
	}
}

func init() {
	Modules["burst"] = func(behs [][]Step, tr *Trace, env Env, sum *Summary) { RunBurst(behs, tr, env, sum) }
}
