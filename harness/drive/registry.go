package drive

import (
	"bytes"
	"encoding/json"
	"fmt"
	"math/rand"
	"net"
	"net/http"
	"os"
	"path/filepath"
	"sort"
	"strconv"
	"strings"
	"sync"
	"syscall"
	"time"

	"Havoc/pkg/handlers"
	"Havoc/pkg/packager"

	"vcheck/refdemon"
	"vcheck/world"
)

// ---- Registry (C16) and the service half of C06 ----

type regState struct {
	oldHTTP []*handlers.HTTP // HTTP listeners of earlier runs of the teamserver that still hold their ports
	w       *world.World
	svc     *world.Svc
	sc      map[string]*world.OpClient // service connections
	ports   map[string]string          // listener name -> port
	hold    map[string]net.Listener    // ports the harness occupies to make a start fail
	rng     *rand.Rand
	seq     int
	stuck   bool
}

// freePort hands out loopback ports from a range private to this harness process (shards run in
// parallel: a port that merely looks free could be taken by a sibling a moment later).
var (
	portBase = 0
	portNext = 0
	// PortShard is set by main to the shard index of this process
	PortShard = 0
)

func init() { world.RestartPort = freePort }

// claimPort marks a port as this process' for as long as it lives: a port found free here is bound a moment later by the code under test,
// and shards of checks that run at the same time look through the same ranges (a teamserver that cannot bind its operator endpoint exits).
// The mark is a file holding the pid; a mark whose process is gone is stale
func claimPort(p int) bool {
	dir := filepath.Join(os.TempDir(), "vcheck-ports")
	os.MkdirAll(dir, 0o777)
	f := filepath.Join(dir, fmt.Sprint(p))
	for try := 0; try < 2; try++ {
		fd, err := os.OpenFile(f, os.O_CREATE|os.O_EXCL|os.O_WRONLY, 0o666)
		if err == nil {
			fmt.Fprint(fd, os.Getpid())
			fd.Close()
			return true
		}
		b, _ := os.ReadFile(f)
		pid, _ := strconv.Atoi(strings.TrimSpace(string(b)))
		if pid <= 0 || pid == os.Getpid() {
			return false // being written by its owner, or handed out by this process before
		}
		if syscall.Kill(pid, 0) == nil {
			return false // its owner lives
		}
		os.Remove(f)
	}
	return false
}

func freePort() string {
	if portBase == 0 {
		// one private range per shard, below the ephemeral port range (a probe dialling a free port
		// from that very port would connect to itself)
		// (wide: a restarted teamserver's operator endpoint cannot be closed from outside, every restart of a shard keeps one port)
		portBase = 1100 + (PortShard%16)*1950
		// several checks may run on one machine at the same time, their shards sharing these ranges: each process starts somewhere else
		// in its range (a port found free here is bound a moment later by the code under test - and a teamserver that cannot bind its
		// operator endpoint exits)
		portNext = (os.Getpid() * 131) % 1950
	}
	for tries := 0; tries < 1950; tries++ {
		p := portBase + portNext%1950
		portNext++
		l, err := net.Listen("tcp", fmt.Sprintf("127.0.0.1:%d", p))
		if err != nil {
			continue
		}
		l.Close()
		if l2, err := net.Listen("tcp", fmt.Sprintf("0.0.0.0:%d", p)); err == nil {
			l2.Close()
			if !claimPort(p) {
				continue
			}
			return fmt.Sprint(p)
		}
	}
	panic("harness-error: no free port in range")
}

// epSpelling: every second name writes its endpoint with a leading slash ("/n2-ep"): the same endpoint, spelled as a path
func epSpelling(name string) string {
	if strings.HasSuffix(name, "2") {
		return "/"
	}
	return ""
}

func uaOf(v int) string { return fmt.Sprintf("VerifAgent/%d.0", v) }

func (s *regState) project() map[string]any {
	t := s.w.TS
	run := map[string]any{"n1": "none", "n2": "none"}
	dupl := false
	seen := map[string]bool{}
	extras := []string{}
	for _, l := range t.Listeners {
		if l.Name == "ext" {
			continue
		}
		if seen[l.Name] {
			dupl = true
		}
		seen[l.Name] = true
		kind := map[int]string{handlers.LISTENER_HTTP: "http", handlers.LISTENER_PIVOT_SMB: "smb", handlers.LISTENER_EXTERNAL: "ext", handlers.LISTENER_SERVICE: "svc"}[l.Type]
		if _, ok := run[l.Name]; ok {
			run[l.Name] = kind
		} else if s.crowdHidden(l.Name) {
			continue
		} else {
			extras = append(extras, l.Name) // service external-C2 listeners live in the same list
		}
	}
	db := []string{}
	for _, n := range t.DB.ListenerNames() {
		if n != "ext" {
			db = append(db, n)
		}
	}
	adv := []string{}
	advSeen := map[string]bool{}
	for _, e := range t.EventsList {
		if e.Head.Event == packager.Type.Listener.Type && e.Body.SubEvent == packager.Type.Listener.Add {
			if n, _ := e.Body.Info["Name"].(string); n != "" && n != "ext" && !advSeen[n] && !strings.HasPrefix(n, "crowd-") {
				advSeen[n] = true
				adv = append(adv, n)
			}
		}
	}
	port := []string{}
	for n, p := range s.ports {
		if _, held := s.hold[n]; held {
			continue
		}
		c, err := net.DialTimeout("tcp", "127.0.0.1:"+p, 300*time.Millisecond)
		if err == nil {
			c.Close()
			port = append(port, n)
		}
	}
	agents, lsts := []string{}, []string{}
	if t.Service != nil {
		for _, a := range t.Service.Agents {
			agents = append(agents, a.Name)
		}
		for _, l := range t.Service.Listeners {
			lsts = append(lsts, l.Name)
		}
	}
	eps := []string{}
	for _, e := range t.Endpoints {
		if e.Endpoint != "ext" && !s.crowdHidden(strings.TrimPrefix(e.Endpoint, "/")) {
			eps = append(eps, strings.TrimPrefix(e.Endpoint, "/")) // "/n2-ep" and "n2-ep" are one endpoint
		}
	}
	for _, x := range [][]string{db, adv, port, agents, lsts, eps, extras} {
		sort.Strings(x)
	}
	nconn := 0
	if t.Service != nil {
		nconn = t.Service.VerifClients()
	}
	return map[string]any{"run": run, "dupl": dupl, "db": db, "adv": adv, "port": port, "agents": agents, "lsts": lsts, "eps": eps, "exc2": extras, "nconn": nconn}
}

// crowdHidden: the endpoints and listeners a connection brought along in a crowd ("crowd-<connection>-<k>") stand behind the one item the
// specification knows; they are left out of what is observed while their connection is there, and show like anything else once it is gone
func (s *regState) crowdHidden(name string) bool {
	if !strings.HasPrefix(name, "crowd-") {
		return false
	}
	parts := strings.SplitN(name, "-", 3)
	return len(parts) == 3 && s.sc[parts[1]] != nil
}

func (s *regState) svcSend(c string, v any) {
	b, _ := json.Marshal(v)
	if cl := s.sc[c]; cl != nil {
		cl.Send(string(b))
	}
}

func RunRegistry(behs [][]Step, tr *Trace, env Env, sum *Summary) {
	for bi, beh := range behs {
		func() {
			w, err := world.New(env.Scratch, world.Options{Service: true})
			if err == nil {
				w.TS.Profile.Config.Demon.TrustXForwardedFor = bi%2 == 0 // every other behaviour runs behind a redirector
			}
			must(err)
			defer w.Close()
			s := &regState{w: w, svc: w.StartSvc(), sc: map[string]*world.OpClient{}, ports: map[string]string{}, hold: map[string]net.Listener{}, rng: rand.New(rand.NewSource(env.Seed + int64(bi)*1000003))}
			defer s.svc.Close()
			defer func() {
				for _, l := range s.hold {
					l.Close()
				}
				for _, l := range w.TS.Listeners { // close HTTP servers that are still up (Stop() would wait 5 s each)
					if h, ok := l.Config.(*handlers.HTTP); ok && h.Server != nil {
						h.Server.Close()
					}
				}
			}()
			tr.Emit(map[string]any{"ev": "Reset"})
			hasRestart, together := false, false
			for _, st := range beh {
				if st.Str("op") == "Restart" {
					hasRestart = true
				}
				if st.Str("op") == "SvcLeaveTogether" {
					together = true
				}
			}
			for si, st := range beh {
				if s.stuck {
					break
				}
				op, a, b := st.Str("op"), st.Str("a"), st.Str("b")
				if v, isNum := st["b"].(float64); isNum {
					b = fmt.Sprint(int(v))
				}
				sum.Counters["op."+op]++
				done, ok := true, true
				cfgDiff := []string{}
				restoredCheck := func() {}
				fail := func(kind, detail string) {
					done = false
					sum.Incidents = append(sum.Incidents, Incident{Behaviour: bi, Step: si, Kind: kind, Site: op, Detail: detail})
					if kind == "hang" {
						s.stuck = true
					}
				}
				call := func(f func()) {
					p, to := guarded(f, 12*time.Second)
					if p != "" {
						fail("panic", firstLines(p, 14))
					} else if to {
						fail("hang", "call did not return")
					}
				}
				switch op {
				case "Add":
					var err error
					switch b {
					case "http", "busy":
						p := freePort()
						var occupied net.Listener
						if b == "busy" {
							var e error
							occupied, e = net.Listen("tcp", "127.0.0.1:"+p)
							must(e)
						}
						_, had := s.ports[a]
						cfg := handlers.HTTPConfig{Name: a, Hosts: []string{"127.0.0.1"}, HostBind: "127.0.0.1", PortBind: p, HostRotation: "round-robin", UserAgent: uaOf(0),
							BehindRedir: w.TS.Profile.Config.Demon.TrustXForwardedFor} // as the operator's Add does it
						if hasRestart {
							// everything an operator can set, so that a restart has something to lose
							cfg.KillDate, cfg.WorkingHours, cfg.Methode, cfg.PortConn, cfg.HostHeader = 1893456000, "8:00-17:00", "POST", p, "front.example"
							cfg.Proxy.Enabled, cfg.Proxy.Type, cfg.Proxy.Host, cfg.Proxy.Port, cfg.Proxy.Username, cfg.Proxy.Password = true, "http", "proxy.example", "3128", "pu", "pp"
							cfg.Response.Headers = []string{"X-R: r, s"}
						}
						call(func() { err = w.TS.ListenerStart(handlers.LISTENER_HTTP, cfg) })
						if err == nil && !had {
							s.ports[a] = p
							if occupied != nil {
								s.hold[a] = occupied
							}
							time.Sleep(150 * time.Millisecond) // ListenAndServe runs in its own goroutine
						} else if occupied != nil {
							occupied.Close()
						}
					case "smb":
						call(func() {
							err = w.TS.ListenerStart(handlers.LISTENER_PIVOT_SMB, handlers.SMBConfig{Name: a, PipeName: "pipe-" + a})
						})
					case "ext":
						call(func() {
							err = w.TS.ListenerStart(handlers.LISTENER_EXTERNAL, handlers.ExternalConfig{Name: a, Endpoint: epSpelling(a) + a + "-ep"})
						})
					case "extsame":
						// on the endpoint the other name's External listener has
						other := map[string]string{"n1": "n2", "n2": "n1"}[a]
						call(func() {
							err = w.TS.ListenerStart(handlers.LISTENER_EXTERNAL, handlers.ExternalConfig{Name: a, Endpoint: epSpelling(other) + other + "-ep"})
						})
					}
					ok = err == nil
				case "AddSvcType":
					// operator message: listener of a service-defined protocol
					before := len(w.TS.Listeners)
					pk := packager.Package{}
					pk.Head.Event, pk.Head.User, pk.Body.SubEvent = packager.Type.Listener.Type, "neo", packager.Type.Listener.Add
					pk.Body.Info = map[string]any{"Name": a, "Protocol": b, "Host": "h", "Port": "1"}
					call(func() { w.TS.DispatchEvent(pk) })
					ok = len(w.TS.Listeners) > before
				case "Remove":
					before := len(w.TS.Listeners)
					call(func() { w.TS.ListenerRemove(a) })
					ok = len(w.TS.Listeners) < before
					if ok {
						delete(s.ports, a)
						if l, held := s.hold[a]; held {
							l.Close()
							delete(s.hold, a)
						}
					}
				case "Edit":
					cur := 0
					for _, l := range w.TS.Listeners {
						if l.Name == a {
							if h, isHTTP := l.Config.(*handlers.HTTP); isHTTP && h.Config.UserAgent == uaOf(1) {
								cur = 1
							}
						}
					}
					// version 1 restricts path and headers as well; going back to version 0 clears both lists again
					next := handlers.HTTPConfig{Name: a, UserAgent: uaOf(1 - cur)}
					if 1-cur == 1 {
						next.Uris = []string{"/only"}
						next.Headers = []string{"X-Ver: 1"}
					}
					call(func() { w.TS.ListenerEdit(handlers.LISTENER_HTTP, next) })
				case "Serve":
					s.seq++
					id := uint32(0x100000 + s.seq + bi*1000)
					body := refdemon.Register(id, world.KeysFor(env.Seed, s.seq, false), refdemon.DefaultMeta("h"))
					path := "/"
					if st.Int("b") == 1 {
						path = "/only"
					}
					req, _ := http.NewRequest("POST", "http://127.0.0.1:"+s.ports[a]+path, bytes.NewReader(body))
					req.Header.Set("User-Agent", uaOf(st.Int("b")))
					if st.Int("b") == 1 {
						req.Header.Set("X-Ver", "1")
					}
					req.Header.Set("X-Forwarded-For", "203.0.113.7")
					resp, err := (&http.Client{Timeout: 5 * time.Second}).Do(req)
					if err != nil {
						ok = false
						fail("hang", "http request failed: "+err.Error())
					} else {
						ok = resp.StatusCode == 200
						resp.Body.Close()
						// an admitted registration is attributed as the profile says: to the forwarded-for address behind a
						// redirector, to the peer otherwise - also after the listener has been edited
						if ag := w.Agent(id); ok && ag != nil {
							want := "127.0.0.1"
							if w.TS.Profile.Config.Demon.TrustXForwardedFor {
								want = "203.0.113.7"
							}
							if ag.Info.ExternalIP != want {
								ok = false
								sum.Counters["attribution.wrong"]++
							}
						}
					}
				case "SvcConnect":
					cl, err := s.svc.Dial()
					must(err)
					s.sc[a] = cl
					pw := "svc-pw"
					if b == "bad" {
						pw = "nope"
					}
					first := map[string]any{"Head": map[string]any{"Type": "Register"}, "Body": map[string]any{"Password": pw}}
					if b == "bad" {
						// a stranger's first message: a wrong password, or one that leaves the password (and more) out
						switch (si + bi) % 5 {
						case 1:
							first = map[string]any{}
						case 2:
							first = map[string]any{"Head": map[string]any{"Type": "Register"}}
						case 3:
							first = map[string]any{"Body": map[string]any{}}
						case 4:
							first = map[string]any{"Head": map[string]any{"Type": "Register"}, "Body": map[string]any{}}
						}
					}
					s.svcSend(a, first)
					if b == "bad" {
						// a client that keeps trying: 0, 2 or 4 more wrong passwords on the same connection (if it is still open)
						for extra := (si + bi) % 3 * 2; extra > 0; extra-- {
							time.Sleep(15 * time.Millisecond)
							s.svcSend(a, map[string]any{"Head": map[string]any{"Type": "Register"}, "Body": map[string]any{"Password": fmt.Sprintf("nope%d", extra)}})
						}
					}
					deadline := time.Now().Add(4 * time.Second)
					for time.Now().Before(deadline) && len(cl.Frames()) == 0 && !cl.IsClosed() {
						time.Sleep(5 * time.Millisecond)
					}
					time.Sleep(30 * time.Millisecond)
					ok = len(cl.Frames()) > 0 && strings.Contains(cl.Frames()[0], `"Success":true`)
				case "SvcReg":
					parts := strings.SplitN(b, ":", 2)
					what, x := parts[0], parts[1]
					if s.sc[a] == nil {
						// never presented the password: the registration is the first thing this connection says
						cl, err := s.svc.Dial()
						must(err)
						s.sc[a] = cl
						defer func(sym string) { s.sc[sym] = nil }(a)
						sum.Counters["svc-preauth-messages"]++
					}
					before := fmt.Sprint(s.project())
					switch what {
					case "agent":
						s.svcSend(a, map[string]any{"Head": map[string]any{"Type": "RegisterAgent"}, "Body": map[string]any{"Agent": map[string]any{"Name": x, "MagicValue": "0x4142434" + x[1:], "Author": "v"}}})
					case "listener":
						s.svcSend(a, map[string]any{"Head": map[string]any{"Type": "Listener"}, "Body": map[string]any{"Type": "ListenerAdd", "Listener": map[string]any{"Name": x, "Agent": "any", "Items": []any{}}}})
					case "exc2":
						s.svcSend(a, map[string]any{"Head": map[string]any{"Type": "Listener", "RequestID": "r1"}, "Body": map[string]any{"Type": "ListenerAddExC2", "Name": x, "Endpoint": epSpelling(x) + x + "-ep"}})
						if together {
							// connections that leave together have much to take with them: the item stands for a crowd of endpoints
							had := len(w.TS.Endpoints)
							for k := 0; k < 300; k++ {
								n := fmt.Sprintf("crowd-%s-%d", a, k)
								s.svcSend(a, map[string]any{"Head": map[string]any{"Type": "Listener", "RequestID": "r1"}, "Body": map[string]any{"Type": "ListenerAddExC2", "Name": n, "Endpoint": n}})
							}
							for i := 0; i < 400 && len(w.TS.Endpoints) < had+300; i++ {
								time.Sleep(5 * time.Millisecond)
							}
							sum.Counters["crowds of 300 endpoints"]++
						}
					}
					time.Sleep(80 * time.Millisecond)
					ok = fmt.Sprint(s.project()) != before
				case "Restart":
					// what the HTTP listeners are configured with before the restart
					saved := map[string]handlers.HTTPConfig{}
					for _, l := range w.TS.Listeners {
						if h, isHTTP := l.Config.(*handlers.HTTP); isHTTP {
							saved[l.Name] = h.Config
						}
					}
					restoredCheck = func() {
						for _, l := range w.TS.Listeners {
							h, isHTTP := l.Config.(*handlers.HTTP)
							if !isHTTP {
								continue
							}
							was, now := saved[l.Name], h.Config
							for _, f := range [][3]string{{"KillDate", fmt.Sprint(was.KillDate), fmt.Sprint(now.KillDate)}, {"WorkingHours", was.WorkingHours, now.WorkingHours},
								{"Hosts", fmt.Sprint(was.Hosts), fmt.Sprint(now.Hosts)}, {"HostBind", was.HostBind, now.HostBind}, {"Methode", was.Methode, now.Methode},
								{"HostRotation", was.HostRotation, now.HostRotation}, {"PortBind", was.PortBind, now.PortBind}, {"PortConn", was.PortConn, now.PortConn},
								{"UserAgent", was.UserAgent, now.UserAgent}, {"Headers", fmt.Sprintf("%q", was.Headers), fmt.Sprintf("%q", now.Headers)},
								{"Uris", fmt.Sprintf("%q", was.Uris), fmt.Sprintf("%q", now.Uris)}, {"HostHeader", was.HostHeader, now.HostHeader},
								{"Secure", fmt.Sprint(was.Secure), fmt.Sprint(now.Secure)}, {"Proxy", fmt.Sprint(was.Proxy), fmt.Sprint(now.Proxy)},
								{"ResponseHeaders", fmt.Sprintf("%q", was.Response.Headers), fmt.Sprintf("%q", now.Response.Headers)}} {
								if f[1] != f[2] {
									cfgDiff = append(cfgDiff, fmt.Sprintf("%s.%s: %s -> %s", l.Name, f[0], f[1], f[2]))
								}
							}
						}
					}
					// the old process' HTTP listeners: still bound ("busy": a lingering process holds the ports while the new one
					// starts), or stopped first so that the ports are free
					for _, l := range w.TS.Listeners {
						if h, isHTTP := l.Config.(*handlers.HTTP); isHTTP {
							s.oldHTTP = append(s.oldHTTP, h)
						}
					}
					if b == "free" {
						stopped := make(chan struct{}, len(s.oldHTTP))
						for _, h := range s.oldHTTP {
							go func(h *handlers.HTTP) {
								defer func() { recover(); stopped <- struct{}{} }()
								if h.Server != nil {
									h.Stop()
								}
							}(h)
						}
						for range s.oldHTTP {
							<-stopped
						}
						s.oldHTTP = nil
						for _, l := range s.hold {
							l.Close()
						}
					}
					if pan, to := guarded(func() { must(w.Restart()) }, 150*time.Second); pan != "" || to {
						if strings.Contains(pan, "harness-error") {
							panic(pan)
						}
						fail(map[bool]string{true: "hang", false: "panic"}[to], firstLines(pan, 14))
					}
					restoredCheck()
					if b == "busy" {
						time.Sleep(7 * time.Second) // a listener that could not bind is given up after a few seconds: what happens to it then?
					} else {
						time.Sleep(300 * time.Millisecond) // ListenAndServe of the restored listeners runs in goroutines
					}
				case "SvcLeaveTogether":
					// every service connection is cut at the same moment
					start := make(chan struct{})
					var wg sync.WaitGroup
					for _, cl := range s.sc {
						if cl == nil || cl.IsClosed() {
							continue
						}
						wg.Add(1)
						go func(cl *world.OpClient) {
							defer wg.Done()
							<-start
							cl.Abort()
						}(cl)
					}
					close(start)
					wg.Wait()
					for i := 0; i < 600 && w.TS.Service.VerifClients() != 0 && len(s.svc.Panics) == 0; i++ {
						time.Sleep(5 * time.Millisecond)
					}
					time.Sleep(30 * time.Millisecond)
					for k := range s.sc {
						delete(s.sc, k)
					}
				case "SvcDisconnect":
					before := w.TS.Service.VerifClients()
					if cl := s.sc[a]; cl != nil {
						cl.Conn.Close()
					}
					for i := 0; i < 600 && w.TS.Service.VerifClients() == before && len(s.svc.Panics) == 0; i++ {
						time.Sleep(5 * time.Millisecond)
					}
					time.Sleep(30 * time.Millisecond)
				}
				for _, p := range s.svc.TakePanics() {
					fail("panic", firstLines(p, 14))
				}
				tr.Emit(map[string]any{"ev": op, "a": a, "b": b, "res": map[string]any{"ok": ok, "done": done, "cfgsame": len(cfgDiff) == 0, "cfgdiff": cfgDiff}, "st": s.project()})
			}
			if bi < 2 {
				sum.Samples = append(sum.Samples, beh)
			}
		}()
		sum.Behaviours++
	}
}

func init() {
	Modules["registry"] = func(behs [][]Step, tr *Trace, env Env, sum *Summary) { RunRegistry(behs, tr, env, sum) }
}
