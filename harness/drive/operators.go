package drive

import (
	"encoding/base64"
	"encoding/hex"
	"encoding/json"
	"fmt"
	"math/rand"
	"strings"
	"time"

	server "Havoc/cmd/server"
	"Havoc/pkg/handlers"
	"Havoc/pkg/packager"
	"Havoc/pkg/verifhook"

	"golang.org/x/crypto/sha3"

	"vcheck/refdemon"
	"vcheck/world"
)

// ---- Operators (C06, C11) ----

var opUsers = map[string][2]string{"c1": {"neo", "pw-neo"}, "c2": {"trinity", "pw-trinity"}, "c3": {"morpheus", "pw-morpheus"}}

type opsState struct {
	w       *world.World
	ops     *world.Ops
	cl      map[string]*world.OpClient
	agents  map[string]uint32
	nameSym map[string]string // NameID -> agent symbol
	userSym map[string]string // user name -> client symbol
	stuck   bool
	norm    map[string][]string // frames per client, racing pairs in canonical order
	taken   map[string]int
	evNorm  []string
	swaps   map[string]string
	race    string // label of the line injected into the replay of the current step
}

// canon puts the two frames of a cut/chat race into the order the model uses.
func canon(delta []string, bye, chat string) []string {
	if len(delta) == 2 && ((delta[0] == chat && delta[1] == bye) || (delta[0] == bye && delta[1] == chat)) {
		return []string{bye, chat}
	}
	return delta
}

func (s *opsState) absorb(op, c, num string) {
	bye, chat := "bye:"+c, "chat"+num
	for _, cl := range []string{"c1", "c2", "c3"} {
		all := s.recvOf(cl)
		delta := all[s.taken[cl]:]
		s.taken[cl] = len(all)
		if op == "CutChat" {
			delta = canon(delta, bye, chat)
		}
		if (op == "AuthRace" || op == "AuthRaceRm") && cl == c && s.race != "" {
			// the live line may overtake the replay anywhere; exactly once is what matters. Canonical place: after the first replay frame.
			cnt, rest := 0, []string{}
			for _, f := range delta {
				if f == s.race {
					cnt++
				} else {
					rest = append(rest, f)
				}
			}
			if cnt == 1 && len(rest) >= 2 && rest[0] == "authok" {
				delta = append(append(append([]string{}, rest[:2]...), s.race), rest[2:]...)
			}
		}
		s.norm[cl] = append(s.norm[cl], delta...)
	}
	evs := []string{}
	for _, e := range s.w.TS.EventsList {
		b, _ := json.Marshal(e)
		evs = append(evs, s.label(string(b)))
	}
	if op == "CutChat" {
		s.swaps[chat] = bye
	}
	// retained list with every recorded racing pair in canonical order
	for i := 0; i+1 < len(evs); i++ {
		if b, ok := s.swaps[evs[i]]; ok && evs[i+1] == b {
			evs[i], evs[i+1] = evs[i+1], evs[i]
		}
	}
	s.evNorm = evs
}

func sha3hex(s string) string {
	h := sha3.New256()
	h.Write([]byte(s))
	return hex.EncodeToString(h.Sum(nil))
}

func authMessage(c, kind string) string {
	u := opUsers[c]
	head := map[string]any{"Event": packager.Type.InitConnection.Type, "User": u[0], "Time": "now", "OneTime": ""}
	info := map[string]any{"User": u[0], "Password": sha3hex(u[1])}
	body := map[string]any{"SubEvent": packager.Type.InitConnection.OAuthRequest, "Info": info}
	switch kind {
	case "good":
	case "extraFields":
		info["Extra"] = []int{1, 2, 3}
		head["Junk"] = map[string]any{"a": 1}
	case "wrongDigest":
		info["Password"] = sha3hex("not-" + u[1])
	case "clearPassword":
		info["Password"] = u[1]
	case "unknownUser":
		head["User"] = "smith"
		info["User"] = "smith"
		info["Password"] = sha3hex("x")
	case "notJSON":
		return "hello, this is not json {"
	case "noPassword":
		delete(info, "Password")
	case "passwordNotString":
		info["Password"] = 12345
	case "noInfo":
		delete(body, "Info")
	case "wrongEvent":
		head["Event"] = packager.Type.Session.Type
	case "wrongSubEvent":
		body["SubEvent"] = packager.Type.InitConnection.Success
	}
	b, _ := json.Marshal(map[string]any{"Head": head, "Body": body})
	return string(b)
}

// label turns a received frame into the model's vocabulary.
func (s *opsState) label(raw string) string {
	var pk packager.Package
	if err := json.Unmarshal([]byte(raw), &pk); err != nil {
		return "?"
	}
	str := func(k string) string { v, _ := pk.Body.Info[k].(string); return v }
	switch pk.Head.Event {
	case packager.Type.InitConnection.Type:
		if pk.Body.SubEvent == packager.Type.InitConnection.Success {
			return "authok"
		}
		if pk.Body.SubEvent == packager.Type.InitConnection.Error {
			return "autherr"
		}
	case packager.Type.Chat.Type:
		switch pk.Body.SubEvent {
		case packager.Type.Chat.NewUser:
			return "user:" + s.userSym[str("User")]
		case packager.Type.Chat.UserDisconnected:
			return "bye:" + s.userSym[str("User")]
		case packager.Type.Chat.NewMessage:
			if m := str("Message"); strings.HasPrefix(m, "chat") {
				return m
			}
		}
	case packager.Type.Session.Type:
		switch pk.Body.SubEvent {
		case packager.Type.Session.NewSession:
			if a, ok := s.nameSym[str("NameID")]; ok {
				return "sess:" + a
			}
		case packager.Type.Session.Output:
			a := s.nameSym[str("DemonID")]
			if str("CommandID") == "10" {
				return "tick:" + a
			}
			if out, err := base64.StdEncoding.DecodeString(str("Output")); err == nil {
				if i := strings.Index(string(out), "out#"); i >= 0 {
					j := i + 4
					for j < len(out) && out[j] >= '0' && out[j] <= '9' {
						j++
					}
					return "out" + string(out[i+4:j])
				}
			}
		}
	case packager.Type.Listener.Type:
		name := str("Name")
		req := pk.Body.Info["VerifReq"] != nil
		switch pk.Body.SubEvent {
		case packager.Type.Listener.Add:
			return map[bool]string{true: "addreq:", false: "lsnadd:"}[req] + name
		case packager.Type.Listener.Remove:
			return map[bool]string{true: "rmreq:", false: "lsnrm:"}[req] + name
		}
	}
	return "?"
}

func (s *opsState) recvOf(c string) []string {
	out := []string{}
	if cl := s.cl[c]; cl != nil {
		for _, f := range cl.Frames() {
			out = append(out, s.label(f))
		}
	}
	return out
}

func (s *opsState) total() int {
	n := 0
	for _, c := range s.cl {
		n += len(c.Frames())
	}
	return n
}

// settle waits until no socket has received anything for `quiet`.
func (s *opsState) settle(quiet time.Duration) {
	last := s.total()
	lastChange := time.Now()
	deadline := time.Now().Add(4 * time.Second)
	for time.Now().Before(deadline) {
		time.Sleep(10 * time.Millisecond)
		if n := s.total(); n != last {
			last, lastChange = n, time.Now()
		} else if time.Since(lastChange) >= quiet {
			return
		}
	}
}

func (s *opsState) waitFor(c string, pred func(labels []string) bool) bool {
	deadline := time.Now().Add(6 * time.Second)
	for time.Now().Before(deadline) {
		if pred(s.recvOf(c)) {
			return true
		}
		time.Sleep(5 * time.Millisecond)
	}
	return false
}

func has(labels []string, l string) bool {
	for _, x := range labels {
		if x == l {
			return true
		}
	}
	return false
}

func (s *opsState) project() map[string]any {
	recv := map[string]any{}
	for _, c := range []string{"c1", "c2", "c3"} {
		recv[c] = append([]string{}, s.norm[c]...)
	}
	locked := s.w.LockedClients()
	if locked == nil {
		locked = []string{}
	}
	return map[string]any{"recv": recv, "events": append([]string{}, s.evNorm...), "table": s.w.ClientCount(), "locked": locked}
}

func RunOperators(behs [][]Step, tr *Trace, env Env, sum *Summary) {
	for bi, beh := range behs {
		func() {
			w, err := world.New(env.Scratch, world.Options{SendLogs: true, Users: map[string]string{"neo": "pw-neo", "trinity": "pw-trinity", "morpheus": "pw-morpheus"}})
			must(err)
			defer w.Close()
			rng := rand.New(rand.NewSource(env.Seed + int64(bi)*1000003))
			s := &opsState{w: w, ops: w.StartOps(), cl: map[string]*world.OpClient{}, agents: map[string]uint32{}, nameSym: map[string]string{}, userSym: map[string]string{"smith": "?smith"}, norm: map[string][]string{}, taken: map[string]int{}, swaps: map[string]string{}}
			defer s.ops.Close()
			for c, u := range opUsers {
				s.userSym[u[0]] = c
			}
			for _, a := range []string{"a1", "a2"} {
				id := uint32(rng.Int63n(0x7ffffff0)) + 2
				s.agents[a] = id
				s.nameSym[fmt.Sprintf("%08x", id)] = a
			}
			// the "ext" listener of the world was added before any operator existed: it is part of the retained list
			tr.Emit(map[string]any{"ev": "Reset"})
			for si, st := range beh {
				if s.stuck {
					break
				}
				op, c, x := st.Str("op"), st.Str("c"), st.Str("x")
				sum.Counters["op."+op]++
				done := true
				fail := func(kind, detail string) {
					done = false
					sum.Incidents = append(sum.Incidents, Incident{Behaviour: bi, Step: si, Kind: kind, Site: op + ":" + x, Detail: detail})
					if kind == "hang" {
						s.stuck = true
					}
				}
				sync := func(f func()) {
					p, to := guarded(f, 8*time.Second)
					if p != "" {
						fail("panic", firstLines(p, 14))
					} else if to {
						fail("hang", "call did not return within 8s")
					}
				}
				agentReq := func(body []byte) {
					r := w.RequestWith(body, 8*time.Second)
					if r.Panic != "" {
						fail("panic", firstLines(r.Panic, 14))
					} else if r.Timeout {
						fail("hang", "agent request did not return within 8s")
					}
				}
				switch op {
				case "Connect":
					before := w.ClientCount()
					cl, err := s.ops.Dial()
					must(err)
					s.cl[c] = cl
					for i := 0; i < 400 && w.ClientCount() == before; i++ {
						time.Sleep(5 * time.Millisecond)
					}
				case "AuthRace":
					// the same correct first message, but a chat line is recorded and broadcast from inside the replay
					num := st.Str("y")
					frames := 0
					verifhook.Hook = func(name string) {
						if name == "ops.replay.frame" {
							frames++
							if frames == 2 {
								pk := packager.Package{}
								pk.Head.Event, pk.Head.User, pk.Body.SubEvent = packager.Type.Chat.Type, "server", packager.Type.Chat.NewMessage
								pk.Body.Info = map[string]any{"User": "server", "Message": "chat" + num}
								w.TS.EventAppend(pk)
								w.TS.EventBroadcast("", pk)
							}
						}
					}
					s.cl[c].Send(authMessage(c, "good"))
					s.waitFor(c, func(l []string) bool { return has(l, "authok") && has(l, "chat"+num) })
					s.settle(60 * time.Millisecond)
					verifhook.Hook = nil
					s.race = "chat" + num
				case "AuthRaceRm":
					// the same correct first message; from inside the replay (after its first frame) operator x removes the "ext" listener
					frames := 0
					verifhook.Hook = func(name string) {
						if name == "ops.replay.frame" {
							frames++
							if frames == 2 {
								s.cl[x].Send(fmt.Sprintf(`{"Head":{"Event":%d,"User":"%s"},"Body":{"SubEvent":%d,"Info":{"Name":"ext","VerifReq":"1"}}}`, packager.Type.Listener.Type, opUsers[x][0], packager.Type.Listener.Remove))
								s.waitFor(x, func(l []string) bool { return has(l, "lsnrm:ext") })
							}
						}
					}
					s.cl[c].Send(authMessage(c, "good"))
					s.waitFor(c, func(l []string) bool { return has(l, "authok") && has(l, "lsnrm:ext") })
					s.settle(60 * time.Millisecond)
					verifhook.Hook = nil
					s.race = "lsnrm:ext"
				case "Auth":
					if x == "impersonate" {
						victim := opUsers[c][0]
						w.TS.Clients.Range(func(k, v any) bool {
							if cl := v.(*server.Client); cl.Authenticated && cl.Username != "" && cl.Username != victim {
								victim = cl.Username
								return false
							}
							return true
						})
						s.cl[c].Send(fmt.Sprintf(`{"Head":{"Event":%d,"User":"%s"},"Body":{"SubEvent":%d,"Info":{"User":"%s","Password":"%s"}}}`, packager.Type.InitConnection.Type, victim, packager.Type.InitConnection.OAuthRequest, victim, sha3hex("guess")))
						s.waitFor(c, func(l []string) bool { return has(l, "authok") || has(l, "autherr") })
						break
					}
					s.cl[c].Send(authMessage(c, x))
					s.waitFor(c, func(l []string) bool { return has(l, "authok") || has(l, "autherr") })
				case "Strangers":
					// 16 connections nobody knows, each with a first message that is refused, all at the same moment - five rounds
					kinds := []string{"wrongDigest", "unknownUser", "notJSON", "noPassword", "wrongEvent", "clearPassword", "noInfo", "passwordNotString"}
					for round := 0; round < 5; round++ {
						var cls []*world.OpClient
						for g := 0; g < 16; g++ {
							cl, err := s.ops.Dial()
							must(err)
							cls = append(cls, cl)
						}
						start := make(chan struct{})
						sent := make(chan struct{}, len(cls))
						for g, cl := range cls {
							go func(g int, cl *world.OpClient) {
								<-start
								cl.Send(authMessage("c1", kinds[g%len(kinds)]))
								sent <- struct{}{}
							}(g, cl)
						}
						close(start)
						for range cls {
							<-sent
						}
						time.Sleep(60 * time.Millisecond)
						for _, cl := range cls {
							for _, f := range cl.Frames() {
								if lab := s.label(f); lab != "autherr" {
									fail("leak", "a refused stranger received "+lab)
								}
							}
							cl.Conn.Close()
						}
					}
					time.Sleep(40 * time.Millisecond)
				case "FollowUp":
					s.cl[c].Send(fmt.Sprintf(`{"Head":{"Event":%d,"User":"%s"},"Body":{"SubEvent":%d,"Info":{"User":"%s","Message":"chat999"}}}`, packager.Type.Chat.Type, opUsers[c][0], packager.Type.Chat.NewMessage, opUsers[c][0]))
					time.Sleep(40 * time.Millisecond)
				case "Chat":
					s.cl[c].Send(fmt.Sprintf(`{"Head":{"Event":%d,"User":"%s"},"Body":{"SubEvent":%d,"Info":{"User":"%s","Message":"chat%s"}}}`, packager.Type.Chat.Type, opUsers[c][0], packager.Type.Chat.NewMessage, opUsers[c][0], x))
					if !s.waitFor(c, func(l []string) bool { return has(l, "chat"+x) }) {
						sum.Counters["sync-timeouts"]++
					}
				case "Beacon":
					id := s.agents[c]
					b := &refdemon.Buf{}
					b.I32(0).Str("out#" + x + " log line")
					agentReq(refdemon.Packages(id, w.Keys[id], []refdemon.Sub{{Cmd: refdemon.CmdBeacon, Req: 0x1234, Body: b.B}}))
				case "Register":
					id := s.agents[c]
					k := world.KeysFor(env.Seed+int64(bi), len(w.Keys)+1, false)
					agentReq(refdemon.Register(id, k, refdemon.DefaultMeta(c)))
					w.Keys[id] = k
				case "AddLsn":
					sync(func() {
						w.TS.ListenerStart(handlers.LISTENER_EXTERNAL, handlers.ExternalConfig{Name: c, Endpoint: c + "-ep"})
					})
				case "AddLsnOp":
					s.cl[c].Send(fmt.Sprintf(`{"Head":{"Event":%d,"User":"%s"},"Body":{"SubEvent":%d,"Info":{"Name":"%s","Protocol":"External","Endpoint":"%s-ep","VerifReq":"1"}}}`, packager.Type.Listener.Type, opUsers[c][0], packager.Type.Listener.Add, x, x))
					if !s.waitFor(c, func(l []string) bool { return has(l, "lsnadd:"+x) }) {
						sum.Counters["sync-timeouts"]++
					}
				case "RmLsn":
					s.cl[c].Send(fmt.Sprintf(`{"Head":{"Event":%d,"User":"%s"},"Body":{"SubEvent":%d,"Info":{"Name":"%s","VerifReq":"1"}}}`, packager.Type.Listener.Type, opUsers[c][0], packager.Type.Listener.Remove, x))
					if !s.waitFor(c, func(l []string) bool { return has(l, "lsnrm:"+x) }) {
						sum.Counters["sync-timeouts"]++
					}
				case "Close":
					before := w.ClientCount()
					s.cl[c].Conn.Close()
					for i := 0; i < 800 && w.ClientCount() == before; i++ {
						time.Sleep(5 * time.Millisecond)
					}
				case "CutChat":
					before := w.ClientCount()
					d, num := x, st.Str("y")
					s.cl[c].Abort()
					s.cl[d].Send(fmt.Sprintf(`{"Head":{"Event":%d,"User":"%s"},"Body":{"SubEvent":%d,"Info":{"User":"%s","Message":"chat%s"}}}`, packager.Type.Chat.Type, opUsers[d][0], packager.Type.Chat.NewMessage, opUsers[d][0], num))
					if !s.waitFor(d, func(l []string) bool { return has(l, "chat"+num) }) {
						sum.Counters["sync-timeouts"]++
					}
					for i := 0; i < 800 && w.ClientCount() == before; i++ {
						time.Sleep(5 * time.Millisecond)
					}
				}
				s.settle(60 * time.Millisecond)
				for _, p := range s.ops.TakePanics() {
					fail("panic", firstLines(p, 14))
				}
				s.absorb(op, c, st.Str("y"))
				s.race = ""
				ev := map[string]any{"ev": op, "c": c, "x": x, "res": map[string]any{"done": done}, "st": s.project()}
				tr.Emit(ev)
			}
			if bi < 2 {
				sum.Samples = append(sum.Samples, beh)
			}
		}()
		sum.Behaviours++
	}
}

func init() {
	Modules["operators"] = func(behs [][]Step, tr *Trace, env Env, sum *Summary) { RunOperators(behs, tr, env, sum) }
}
