package drive

import (
	"fmt"
	"os"
	"path/filepath"
	"reflect"
	"regexp"
	"sort"
	"strings"
	"time"

	"Havoc/pkg/profile"
	hcl "Havoc/pkg/profile/yaotl"
)

// ---- Profile (C14): documents chosen by the specification, rendered to text, loaded by the real loader ----

var atomBytes = map[string]string{
	"z": "z", "b": "b", "4": "4", "x": "x", "n": "n", "sp": " ", "eac": "é", "emo": "\U0001F600", "q": "\"", "bs": "\\",
	"nl": "\n", "cr": "\r", "tab": "\t", "dol": "$", "pct": "%", "ob": "{", "cb": "}", "dolob": "${", "pctob": "%{",
	"hash": "#", "sl": "/", "star": "*", "eq": "=", "nul": "\x00", "cmb": "ź",
}

// atoms a loaded string is read back as (the template openers are two atoms; longest match first)
var atomOrder []string

func init() {
	for a := range atomBytes {
		if a != "dolob" && a != "pctob" {
			atomOrder = append(atomOrder, a)
		}
	}
	sort.Slice(atomOrder, func(i, j int) bool {
		if len(atomBytes[atomOrder[i]]) != len(atomBytes[atomOrder[j]]) {
			return len(atomBytes[atomOrder[i]]) > len(atomBytes[atomOrder[j]])
		}
		return atomOrder[i] < atomOrder[j]
	})
	Modules["profile"] = func(behs [][]Step, tr *Trace, env Env, sum *Summary) { RunProfile(behs, tr, env, sum) }
}

func toAtoms(s string) []string {
	out := []string{}
	for len(s) > 0 {
		hit := false
		for _, a := range atomOrder {
			if strings.HasPrefix(s, atomBytes[a]) {
				out = append(out, a)
				s = s[len(atomBytes[a]):]
				hit = true
				break
			}
		}
		if !hit {
			out = append(out, fmt.Sprintf("?%02x", s[0]))
			s = s[1:]
		}
	}
	return out
}

func renderLx(lx []any, heredoc bool) string {
	var sb strings.Builder
	for _, x := range lx {
		m := x.(map[string]any)
		a, s := m["a"].(string), m["s"].(string)
		raw := atomBytes[a]
		switch s {
		case "raw":
			sb.WriteString(raw)
		case "esc":
			sb.WriteString(map[string]string{"q": `\"`, "bs": `\\`, "nl": `\n`, "cr": `\r`, "tab": `\t`}[a])
		case "hex":
			for i := 0; i < len(raw); i++ {
				fmt.Fprintf(&sb, `\x%02x`, raw[i])
			}
		case "HEX":
			for i := 0; i < len(raw); i++ {
				fmt.Fprintf(&sb, `\x%02X`, raw[i])
			}
		case "tesc":
			sb.WriteString(raw[:1] + raw)
		default:
			panic("harness-error: spelling " + s)
		}
	}
	return sb.String()
}

func renderSv(v map[string]any, indent string) string {
	lxOf := func(m map[string]any) []any { l, _ := m["lx"].([]any); return l }
	switch v["f"].(string) {
	case "q":
		return `"` + renderLx(lxOf(v), false) + `"`
	case "id":
		return renderLx(lxOf(v), false)
	case "h":
		body := renderLx(lxOf(v), true)
		if ind, _ := v["ind"].(bool); ind {
			pad := indent + "    "
			lines := strings.Split(body, "\n")
			for i := range lines {
				if lines[i] != "" { // an empty line stays empty: it does not count as indentation
					lines[i] = pad + lines[i]
				}
			}
			return "<<-EOT\n" + strings.Join(lines, "\n") + "\n" + pad + "EOT"
		}
		return "<<EOT\n" + body + "\nEOT"
	case "n":
		return v["d"].(string)
	case "nq":
		return `"` + v["d"].(string) + `"`
	case "b":
		return fmt.Sprint(v["v"].(bool))
	case "bq":
		return `"` + fmt.Sprint(v["v"].(bool)) + `"`
	case "l":
		items, _ := v["items"].([]any)
		ml, _ := v["ml"].(bool)
		trc, _ := v["tr"].(bool)
		var parts []string
		for _, it := range items {
			parts = append(parts, renderSv(it.(map[string]any), indent+"  "))
		}
		if ml {
			s := "[\n"
			for i, p := range parts {
				s += indent + "  " + p
				if i < len(parts)-1 || trc {
					s += ","
				}
				s += "\n"
			}
			return s + indent + "]"
		}
		s := "[" + strings.Join(parts, ", ")
		if trc {
			s += ","
		}
		return s + "]"
	case "m":
		pairs, _ := v["pairs"].([]any)
		ml, _ := v["ml"].(bool)
		colon, _ := v["colon"].(bool)
		sep := " = "
		if colon {
			sep = ": "
		}
		var parts []string
		for _, p := range pairs {
			pm := p.(map[string]any)
			parts = append(parts, renderSv(pm["k"].(map[string]any), "")+sep+renderSv(pm["v"].(map[string]any), ""))
		}
		if ml {
			s := "{\n"
			for _, p := range parts {
				s += indent + "  " + p + "\n"
			}
			return s + indent + "}"
		}
		return "{" + strings.Join(parts, ", ") + "}"
	}
	panic("harness-error: spelled value form")
}

var profNames []string

func schemaNames(t reflect.Type, seen map[string]bool) {
	for i := 0; i < t.NumField(); i++ {
		tag := t.Field(i).Tag.Get("yaotl")
		if tag == "" {
			continue
		}
		seen[strings.Split(tag, ",")[0]] = true
		ft := t.Field(i).Type
		for ft.Kind() == reflect.Ptr || ft.Kind() == reflect.Slice {
			ft = ft.Elem()
		}
		if ft.Kind() == reflect.Struct {
			schemaNames(ft, seen)
		}
	}
}

// project walks the loaded configuration: attribute path -> abstract value, for every block that is present
func project(v reflect.Value, inst string, out map[string]any) {
	t := v.Type()
	for i := 0; i < t.NumField(); i++ {
		parts := strings.Split(t.Field(i).Tag.Get("yaotl"), ",")
		name := parts[0]
		f := v.Field(i)
		if len(parts) > 1 && parts[1] == "block" {
			switch f.Kind() {
			case reflect.Ptr:
				if !f.IsNil() {
					project(f.Elem(), inst+"/"+name, out)
				}
			case reflect.Slice:
				for j := 0; j < f.Len(); j++ {
					e := f.Index(j)
					if e.Kind() == reflect.Ptr {
						if e.IsNil() {
							out[fmt.Sprintf("%s/%s[%d]/<nil>", inst, name, j+1)] = map[string]any{"t": "nil", "v": []string{}}
							continue
						}
						e = e.Elem()
					}
					project(e, fmt.Sprintf("%s/%s[%d]", inst, name, j+1), out)
				}
			case reflect.Struct:
				project(f, inst+"/"+name, out)
			}
			continue
		}
		p := inst + "/" + name
		switch f.Kind() {
		case reflect.String:
			out[p] = map[string]any{"t": "str", "v": toAtoms(f.String())}
		case reflect.Int, reflect.Int64:
			out[p] = map[string]any{"t": "int", "v": fmt.Sprint(f.Int())}
		case reflect.Bool:
			out[p] = map[string]any{"t": "bool", "v": f.Bool()}
		case reflect.Slice:
			l := [][]string{}
			for j := 0; j < f.Len(); j++ {
				l = append(l, toAtoms(f.Index(j).String()))
			}
			out[p] = map[string]any{"t": "list", "v": l}
		case reflect.Map:
			keys := []string{}
			for _, k := range f.MapKeys() {
				keys = append(keys, k.String())
			}
			sort.Strings(keys)
			l := [][][]string{}
			for _, k := range keys {
				l = append(l, [][]string{toAtoms(k), toAtoms(f.MapIndex(reflect.ValueOf(k)).String())})
			}
			out[p] = map[string]any{"t": "map", "v": l}
		}
	}
}

// renderProfile writes the document items as profile text; emit (if not nil) gets every item with the line it starts on
func renderProfile(beh []Step, emit func(o map[string]any)) string {
	trailing := []string{"", " # trailing ${x} \"", " // trailing }", " /* trailing { */"}
	eqs := []string{" = ", "=", "   =\t"}
	var sb strings.Builder
	line, depth := 1, 0
	for _, ev := range beh {
		o := map[string]any{}
		for k, v := range ev {
			o[k] = v
		}
		o["line"] = line
		ind := strings.Repeat("  ", depth)
		lay := ev.Int("lay")
		text := ""
		labels := func() string {
			s := ""
			ls, _ := ev["labels"].([]any)
			for _, l := range ls {
				s += " " + renderSv(l.(map[string]any), ind)
			}
			return s
		}
		switch ev.Str("e") {
		case "open":
			text = ind + ev.Str("t") + labels() + []string{" {", "{", "   {", " { // opened"}[lay%4] + "\n"
			depth++
		case "empty":
			text = ind + ev.Str("t") + labels() + []string{" {}", "{}", " { }", " {} # nothing"}[lay%4] + "\n"
		case "close":
			depth--
			if depth < 0 {
				depth = 0
			}
			text = strings.Repeat("  ", depth) + "}\n"
		case "attr":
			sv := ev["sv"].(map[string]any)
			val := renderSv(sv, ind)
			tc := trailing[(lay/3)%4]
			if sv["f"] == "h" {
				tc = ""
			}
			text = ind + ev.Str("name") + eqs[lay%3] + val + tc + "\n"
		case "trivia":
			text = ind + map[string]string{"hash": "# a comment", "slashes": "// another comment", "block": "/* block comment */", "blank": "",
				"tricky": "# Host = \"x\" { ${ %{ } /* \\"}[ev.Str("k")] + "\n"
			if ev.Str("k") == "blank" {
				text = "\n"
			}
		case "end":
		default:
			panic("harness-error: document item " + ev.Str("e"))
		}
		sb.WriteString(text)
		line += strings.Count(text, "\n")
		if emit != nil {
			emit(o)
		}
	}
	return sb.String()
}

func RunProfile(behs [][]Step, tr *Trace, env Env, sum *Summary) {
	seen := map[string]bool{"Bogus": true}
	schemaNames(reflect.TypeOf(profile.HavocConfig{}), seen)
	for n := range seen {
		profNames = append(profNames, n)
	}
	sort.Strings(profNames)
	nameRe := map[string]*regexp.Regexp{}
	for _, n := range profNames {
		nameRe[n] = regexp.MustCompile(`(^|[^A-Za-z0-9_-])` + regexp.QuoteMeta(n) + `($|[^A-Za-z0-9_-])`)
	}
	dir, err := os.MkdirTemp(env.Scratch, "prof")
	must(err)
	defer os.RemoveAll(dir)
	for bj := 0; bj < len(behs)*5/4+1; bj++ {
		// every fourth document is loaded twice in a row (the second load is judged like the first)
		bi := bj - (bj+1)/5
		if bi >= len(behs) {
			break
		}
		beh := behs[bi]
		tr.Emit(map[string]any{"ev": "Reset"})
		src := renderProfile(beh, func(o map[string]any) { tr.Emit(map[string]any{"ev": "Item", "o": o}) })
		// the loader has no memory: every document of this process is loaded from the same path (as an operator who edits
		// a profile and loads it again), a faulty one now and then twice in a row
		path := filepath.Join(dir, "havoc.yaotl")
		must(os.WriteFile(path, []byte(src), 0o644))
		p := profile.NewProfile()
		var lerr error
		pan, hung := guarded(func() { lerr = p.SetProfile(path, false) }, 20*time.Second)
		obs := map[string]any{"panic": pan != "" || hung, "err": lerr != nil, "cfg": map[string]any{}, "diags": []any{}}
		if pan != "" || hung {
			kind := "panic"
			if hung {
				kind = "hang"
			}
			sum.Incidents = append(sum.Incidents, Incident{Behaviour: bi, Kind: kind, Site: "SetProfile", Detail: firstLines(pan, 16) + "\n--- profile:\n" + src})
		} else {
			cfg := map[string]any{}
			project(reflect.ValueOf(p.Config), "", cfg)
			obs["cfg"] = cfg
			diags := []any{}
			if ds, ok := lerr.(hcl.Diagnostics); ok {
				for _, d := range ds {
					ln := 0
					if d.Subject != nil {
						ln = d.Subject.Start.Line
					}
					names := []string{}
					txt := d.Summary + " " + d.Detail
					for _, n := range profNames {
						if nameRe[n].MatchString(txt) {
							names = append(names, n)
						}
					}
					diags = append(diags, map[string]any{"line": ln, "names": names, "text": txt})
				}
			} else if lerr != nil {
				diags = append(diags, map[string]any{"line": 0, "names": []string{}, "text": lerr.Error()})
			}
			obs["diags"] = diags
		}
		tr.Emit(map[string]any{"ev": "Load", "obs": obs, "src": src})
		if lerr != nil {
			sum.Counters["rejected"]++
		} else {
			sum.Counters["accepted"]++
		}
		if bi < 2 {
			sum.Samples = append(sum.Samples, map[string]any{"profile": src, "err": fmt.Sprint(lerr)})
		}
		os.Remove(path)
		sum.Behaviours++
	}
}
