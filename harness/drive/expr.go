package drive

import (
	"fmt"
	"math/big"
	"sort"
	"strings"
	"time"

	hcl "Havoc/pkg/profile/yaotl"
	"Havoc/pkg/profile/yaotl/hclsyntax"

	"github.com/zclconf/go-cty/cty"
	"github.com/zclconf/go-cty/cty/function"
)

// ---- Expr (C18): trees chosen by the specification, printed in several spellings, evaluated by the real code ----

type exprPrinter struct {
	full  bool // redundant parentheses and white space everywhere
	tight bool // minimal parentheses, no optional spaces
	here  bool // a root template ending in a newline as heredoc
	brk   bool // line breaks inside the brackets of for expressions, tuples and objects (no redundant parentheses)
	root  map[string]any
}

func (p *exprPrinter) atRoot(n map[string]any) bool {
	return fmt.Sprintf("%p", p.root) == fmt.Sprintf("%p", n)
}

func nodeOf(v any) map[string]any { m, _ := v.(map[string]any); return m }
func listOf(v any) []any          { l, _ := v.([]any); return l }

var binPrec = map[string]int{"||": 1, "&&": 2, "==": 3, "!=": 3, "<": 4, "<=": 4, ">": 4, ">=": 4, "+": 5, "-": 5, "*": 6, "/": 6, "%": 6}

func exprPrec(n map[string]any) int {
	switch n["k"] {
	case "cond":
		return 0
	case "bin":
		return binPrec[n["op"].(string)]
	case "un":
		return 7
	case "index", "attr", "splat":
		return 8
	}
	return 9
}

func (p *exprPrinter) sp() string {
	if p.tight {
		return ""
	}
	if p.full {
		return "  "
	}
	return " "
}

// child prints n, parenthesised when its precedence is below min (or always, in the redundant style)
func (p *exprPrinter) child(n map[string]any, min int) string {
	s := p.expr(n)
	if p.full {
		return "(\n  " + s + "\n)"
	}
	if exprPrec(n) < min {
		return "(" + s + ")"
	}
	return s
}

func (p *exprPrinter) chars(l []any, quoted bool) string {
	var sb strings.Builder
	for _, c := range l {
		ch := c.(string)
		if quoted && ch == "\n" {
			sb.WriteString(`\n`)
		} else {
			sb.WriteString(ch)
		}
	}
	return sb.String()
}

func (p *exprPrinter) parts(parts []any, quoted bool) string {
	var sb strings.Builder
	mark := func(b any) string {
		if v, _ := b.(bool); v {
			return "~"
		}
		return ""
	}
	for _, x := range parts {
		pt := nodeOf(x)
		switch pt["k"] {
		case "lit":
			sb.WriteString(p.chars(listOf(pt["s"]), quoted))
		case "interp":
			inner := *p
			inner.here = false
			sb.WriteString("${" + mark(pt["sl"]) + p.sp() + inner.child(nodeOf(pt["e"]), 0) + p.sp() + mark(pt["sr"]) + "}")
		case "tif":
			m := mark(pt["strip"])
			inner := *p
			inner.here = false
			sb.WriteString("%{" + m + " if " + inner.child(nodeOf(pt["c"]), 0) + " " + m + "}")
			sb.WriteString(p.parts(listOf(pt["th"]), quoted))
			if el := listOf(pt["el"]); len(el) > 0 {
				sb.WriteString("%{" + m + " else " + m + "}" + p.parts(el, quoted))
			}
			sb.WriteString("%{" + m + " endif " + m + "}")
		case "tfor":
			m := mark(pt["strip"])
			inner := *p
			inner.here = false
			vars := pt["v"].(string)
			if kv, _ := pt["kv"].(string); kv != "" {
				vars = kv + ", " + vars
			}
			sb.WriteString("%{" + m + " for " + vars + " in " + inner.child(nodeOf(pt["coll"]), 0) + " " + m + "}")
			sb.WriteString(p.parts(listOf(pt["body"]), quoted))
			sb.WriteString("%{" + m + " endfor " + m + "}")
		}
	}
	return sb.String()
}

// strip markers act on the neighbouring literal token, and a heredoc has one literal token per line:
// the heredoc spelling is only compared for templates without strip markers
func hasStrip(v any) bool {
	switch x := v.(type) {
	case map[string]any:
		for k, c := range x {
			if b, _ := c.(bool); b && (k == "sl" || k == "sr" || k == "strip") {
				return true
			}
			if hasStrip(c) {
				return true
			}
		}
	case []any:
		for _, c := range x {
			if hasStrip(c) {
				return true
			}
		}
	}
	return false
}

func endsWithNewline(parts []any) bool {
	if len(parts) == 0 {
		return false
	}
	last := nodeOf(parts[len(parts)-1])
	if last["k"] != "lit" {
		return false
	}
	s := listOf(last["s"])
	return len(s) > 0 && s[len(s)-1] == "\n"
}

func (p *exprPrinter) expr(n map[string]any) string {
	sp := p.sp()
	switch n["k"] {
	case "num":
		return fmt.Sprint(int(n["n"].(float64)))
	case "bool":
		return fmt.Sprint(n["v"].(bool))
	case "null":
		return "null"
	case "var":
		return n["name"].(string)
	case "str":
		parts := listOf(n["parts"])
		if p.here && endsWithNewline(parts) && p.atRoot(n) {
			// the heredoc's own final newline is the template's last character
			body := p.parts(parts, false)
			return "<<EOT\n" + body + "EOT\n"
		}
		return `"` + p.parts(parts, true) + `"`
	case "call":
		var as []string
		for _, a := range listOf(n["args"]) {
			as = append(as, p.child(nodeOf(a), 0))
		}
		return n["fn"].(string) + "(" + strings.Join(as, ","+sp) + ")"
	case "flush":
		var sb strings.Builder
		sb.WriteString("<<-EOT\n")
		for _, l := range listOf(n["lines"]) {
			ln := nodeOf(l)
			sb.WriteString(strings.Repeat(" ", int(ln["ind"].(float64))) + p.parts(listOf(ln["parts"]), false) + "\n")
		}
		return sb.String() + strings.Repeat(" ", int(n["close"].(float64))) + "EOT\n"
	case "callx":
		var as []string
		for _, a := range listOf(n["args"]) {
			as = append(as, p.child(nodeOf(a), 0))
		}
		return n["fn"].(string) + "(" + strings.Join(as, ","+sp) + "..." + sp + ")"
	case "un":
		e := nodeOf(n["e"])
		s := p.child(e, 7)
		if n["op"] == "-" && strings.HasPrefix(s, "-") {
			s = " " + s
		}
		return n["op"].(string) + s
	case "bin":
		op := n["op"].(string)
		pr := binPrec[op]
		r := p.child(nodeOf(n["r"]), pr+1)
		if p.tight && op == "-" && strings.HasPrefix(r, "-") || p.tight && op == "/" && strings.HasPrefix(r, "/") {
			r = " " + r
		}
		l := p.child(nodeOf(n["l"]), pr)
		if p.tight && op == "-" {
			l += " " // identifiers may contain dashes: "u-1" is one name
		}
		return l + sp + op + sp + r
	case "cond":
		return p.child(nodeOf(n["c"]), 1) + sp + "?" + sp + p.child(nodeOf(n["a"]), 1) + sp + ":" + sp + p.child(nodeOf(n["b"]), 0)
	case "tuple":
		var is []string
		for _, a := range listOf(n["items"]) {
			is = append(is, p.child(nodeOf(a), 0))
		}
		if p.full || p.brk {
			return "[\n" + strings.Join(is, ",\n") + "\n]"
		}
		return "[" + strings.Join(is, ","+sp) + "]"
	case "obj":
		keys, vals := listOf(n["keys"]), listOf(n["vals"])
		var is []string
		for i := range keys {
			is = append(is, keys[i].(string)+sp+"="+sp+p.child(nodeOf(vals[i]), 0))
		}
		if p.full || p.brk {
			return "{\n" + strings.Join(is, "\n") + "\n}"
		}
		return "{" + strings.Join(is, ","+sp) + "}"
	case "index":
		return p.postfixBase(nodeOf(n["e"])) + "[" + p.child(nodeOf(n["key"]), 0) + "]"
	case "attr":
		return p.postfixBase(nodeOf(n["e"])) + "." + n["name"].(string)
	case "splat":
		if p.tight {
			return p.postfixBase(nodeOf(n["e"])) + ".*." + n["name"].(string)
		}
		return p.postfixBase(nodeOf(n["e"])) + "[*]." + n["name"].(string)
	case "fort":
		vars := n["v"].(string)
		if kv := n["kv"].(string); kv != "" {
			vars = kv + "," + sp + vars
		}
		open, close := "[", "]"
		if p.full || p.brk { // line breaks (and a comment) inside the brackets are insignificant
			open, close = "[ # c\n", "\n]"
		}
		s := open + "for " + vars + " in " + p.child(nodeOf(n["coll"]), 0) + sp + ":" + sp + p.child(nodeOf(n["body"]), 0)
		if c := nodeOf(n["cnd"]); c["k"] != "none" {
			s += " if " + p.child(c, 0)
		}
		return s + close
	case "foro":
		vars := n["v"].(string)
		if kv := n["kv"].(string); kv != "" {
			vars = kv + "," + sp + vars
		}
		open, close := "{", "}"
		if p.full || p.brk {
			open, close = "{\n", "\n}"
		}
		s := open + "for " + vars + " in " + p.child(nodeOf(n["coll"]), 0) + sp + ":" + sp + p.child(nodeOf(n["key"]), 0) + sp + "=>" + sp + p.child(nodeOf(n["val"]), 0)
		if g, _ := n["grp"].(bool); g {
			s += "..."
		}
		if c := nodeOf(n["cnd"]); c["k"] != "none" {
			s += " if " + p.child(c, 0)
		}
		return s + close
	}
	panic(fmt.Sprintf("harness-error: expression node %v", n["k"]))
}

// the operand of an index / attribute / splat: literals and operators need parentheses
func (p *exprPrinter) postfixBase(n map[string]any) string {
	s := p.expr(n)
	if p.full || exprPrec(n) < 8 || n["k"] == "splat" || n["k"] == "num" || n["k"] == "bool" || n["k"] == "null" || (n["k"] == "str" && strings.HasPrefix(s, "<<")) {
		return "(" + s + ")"
	}
	return s
}

func ctyOf(v map[string]any) cty.Value {
	switch v["t"] {
	case "num":
		r := new(big.Rat).SetFrac(big.NewInt(int64(v["n"].(float64))), big.NewInt(int64(v["d"].(float64))))
		f := new(big.Float).SetPrec(512).SetRat(r)
		return cty.NumberVal(f)
	case "bool":
		return cty.BoolVal(v["v"].(bool))
	case "str":
		var sb strings.Builder
		for _, c := range listOf(v["v"]) {
			sb.WriteString(c.(string))
		}
		return cty.StringVal(sb.String())
	case "null":
		return cty.NullVal(cty.DynamicPseudoType)
	case "tuple":
		var vs []cty.Value
		for _, x := range listOf(v["v"]) {
			vs = append(vs, ctyOf(nodeOf(x)))
		}
		if len(vs) == 0 {
			return cty.EmptyTupleVal
		}
		return cty.TupleVal(vs)
	case "obj":
		m := map[string]cty.Value{}
		for _, x := range listOf(v["v"]) {
			pr := listOf(x)
			m[pr[0].(string)] = ctyOf(nodeOf(pr[1]))
		}
		if len(m) == 0 {
			return cty.EmptyObjectVal
		}
		return cty.ObjectVal(m)
	}
	panic("harness-error: environment value")
}

// bestRat finds the fraction with a small denominator a computed number stands for
func bestRat(f *big.Float) (int64, int64, bool) {
	r, _ := f.Rat(nil)
	if r == nil {
		return 0, 0, false
	}
	if r.IsInt() && r.Num().IsInt64() {
		return r.Num().Int64(), 1, true
	}
	// continued fraction expansion, denominators up to 10^6
	x := new(big.Rat).Set(r)
	p0, q0, p1, q1 := big.NewInt(0), big.NewInt(1), big.NewInt(1), big.NewInt(0)
	for i := 0; i < 64; i++ {
		fl := new(big.Int).Div(x.Num(), x.Denom()) // floor for positive; adjust for negatives
		if x.Sign() < 0 && new(big.Int).Mod(x.Num(), x.Denom()).Sign() != 0 {
			// big.Int Div is Euclidean: already floor for positive denominators
		}
		p2 := new(big.Int).Add(new(big.Int).Mul(fl, p1), p0)
		q2 := new(big.Int).Add(new(big.Int).Mul(fl, q1), q0)
		if q2.Cmp(big.NewInt(1000000)) > 0 {
			break
		}
		p0, q0, p1, q1 = p1, q1, p2, q2
		frac := new(big.Rat).Sub(x, new(big.Rat).SetInt(fl))
		if frac.Sign() == 0 {
			break
		}
		x = new(big.Rat).Inv(frac)
	}
	if q1.Sign() == 0 {
		return 0, 0, false
	}
	cand := new(big.Rat).SetFrac(p1, q1)
	diff := new(big.Rat).Sub(r, cand)
	diff.Abs(diff)
	eps := new(big.Rat).SetFrac(big.NewInt(1), new(big.Int).Lsh(big.NewInt(1), 300))
	if diff.Cmp(eps) > 0 || !cand.Num().IsInt64() {
		return 0, 0, false
	}
	return cand.Num().Int64(), cand.Denom().Int64(), true
}

func valueJSON(v cty.Value) map[string]any {
	if !v.IsWhollyKnown() {
		return map[string]any{"t": "unknown"}
	}
	if v.IsNull() {
		return map[string]any{"t": "null"}
	}
	ty := v.Type()
	switch {
	case ty == cty.Number:
		n, d, ok := bestRat(v.AsBigFloat())
		if !ok || n > 1<<30 || n < -(1<<30) {
			return map[string]any{"t": "num", "n": 0, "d": 0, "text": v.AsBigFloat().Text('g', 40)}
		}
		return map[string]any{"t": "num", "n": n, "d": d}
	case ty == cty.Bool:
		return map[string]any{"t": "bool", "v": v.True()}
	case ty == cty.String:
		cs := []string{}
		for _, r := range v.AsString() {
			cs = append(cs, string(r))
		}
		return map[string]any{"t": "str", "v": cs}
	case ty.IsTupleType() || ty.IsListType() || ty.IsSetType():
		vs := []any{}
		for it := v.ElementIterator(); it.Next(); {
			_, e := it.Element()
			vs = append(vs, valueJSON(e))
		}
		return map[string]any{"t": "tuple", "v": vs}
	case ty.IsObjectType() || ty.IsMapType():
		m := v.AsValueMap()
		keys := []string{}
		for k := range m {
			keys = append(keys, k)
		}
		sort.Strings(keys)
		vs := []any{}
		for _, k := range keys {
			vs = append(vs, []any{k, valueJSON(m[k])})
		}
		return map[string]any{"t": "obj", "v": vs}
	}
	return map[string]any{"t": "other", "text": ty.FriendlyName()}
}

func exprCtx(vars map[string]any) *hcl.EvalContext {
	ctx := &hcl.EvalContext{Variables: map[string]cty.Value{}, Functions: map[string]function.Function{}}
	for k, v := range vars {
		ctx.Variables[k] = ctyOf(nodeOf(v))
	}
	ctx.Functions["inc"] = function.New(&function.Spec{
		Params: []function.Parameter{{Name: "n", Type: cty.Number}},
		Type:   function.StaticReturnType(cty.Number),
		Impl: func(args []cty.Value, _ cty.Type) (cty.Value, error) {
			return args[0].Add(cty.NumberIntVal(1)), nil
		}})
	ctx.Functions["cat"] = function.New(&function.Spec{
		Params: []function.Parameter{{Name: "a", Type: cty.String}, {Name: "b", Type: cty.String}},
		Type:   function.StaticReturnType(cty.String),
		Impl: func(args []cty.Value, _ cty.Type) (cty.Value, error) {
			return cty.StringVal(args[0].AsString() + args[1].AsString()), nil
		}})
	return ctx
}

func RunExpr(behs [][]Step, tr *Trace, env Env, sum *Summary) {
	styles := []exprPrinter{{}, {full: true}, {tight: true}, {here: true}}
	for bi, beh := range behs {
		cell := beh[0]
		tree := nodeOf(cell["tree"])
		ctx := exprCtx(nodeOf(cell["vars"]))
		obs := []any{}
		texts := []string{}
		seen := map[string]bool{}
		for si := range styles {
			var src string
			func() {
				defer func() {
					if r := recover(); r != nil {
						panic(fmt.Sprintf("harness-error: printer: %v", r))
					}
				}()
				pr := styles[si]
				pr.root = tree
				src = pr.expr(tree)
			}()
			asAttr := false
			if tree["k"] == "flush" { // a heredoc is read as the value of an attribute
				asAttr = true
				src = "v = " + src
			} else if styles[si].here {
				// a heredoc cannot stand alone as an expression: it is read as the value of an attribute
				if tree["k"] != "str" || !endsWithNewline(listOf(tree["parts"])) || hasStrip(tree) {
					continue
				}
				asAttr = true
				src = "v = " + src
			}
			if seen[src] {
				continue
			}
			seen[src] = true
			texts = append(texts, src)
			var o map[string]any
			pan, hung := guarded(func() {
				var e hcl.Expression
				var diags hcl.Diagnostics
				if asAttr {
					var f *hcl.File
					f, diags = hclsyntax.ParseConfig([]byte(src), "e.hcl", hcl.Pos{Line: 1, Column: 1})
					if !diags.HasErrors() {
						attrs, ad := f.Body.JustAttributes()
						diags = append(diags, ad...)
						if a := attrs["v"]; a != nil {
							e = a.Expr
						}
					}
				} else {
					e, diags = hclsyntax.ParseExpression([]byte(src), "e.hcl", hcl.Pos{Line: 1, Column: 1})
				}
				if diags.HasErrors() || e == nil {
					o = map[string]any{"t": "parse-error", "text": diags.Error()}
					return
				}
				v, vd := e.Value(ctx)
				if vd.HasErrors() {
					o = map[string]any{"t": "err", "text": vd.Error()}
					return
				}
				o = valueJSON(v)
			}, 20*time.Second)
			if pan != "" || hung {
				kind := "panic"
				if hung {
					kind = "hang"
				}
				sum.Incidents = append(sum.Incidents, Incident{Behaviour: bi, Step: si, Kind: kind, Site: "ParseExpression/Value", Detail: firstLines(pan, 14) + "\n--- source:\n" + src})
				o = map[string]any{"t": "crash"}
			}
			obs = append(obs, o)
			sum.Counters["result."+o["t"].(string)]++
		}
		tr.Emit(map[string]any{"ev": "Reset"})
		tr.Emit(map[string]any{"ev": "Eval", "tree": tree, "env": cell["env"], "obs": obs, "texts": texts})
		if bi < 3 {
			sum.Samples = append(sum.Samples, map[string]any{"texts": texts, "obs": obs})
		}
		sum.Behaviours++
	}
}

func init() {
	Modules["expr"] = func(behs [][]Step, tr *Trace, env Env, sum *Summary) { RunExpr(behs, tr, env, sum) }
}
