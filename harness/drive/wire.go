package drive

import (
	"bytes"
	"fmt"
	"math/rand"
	"runtime/debug"

	"Havoc/pkg/common/parser"

	"vcheck/refdemon"
)

// ---- Wire (C03, reader clauses): real parser vs. independent encoder ----

var i32Vals = []uint32{0, 1, 0x7f, 0x80, 0xff, 0x100, 0x7fffffff, 0x80000000, 0xffffffff, 0x01020304}
var i64Vals = []uint64{0, 1, 0xff, 0x7fffffff, 0x80000000, 0xffffffff, 0x100000000, 0x7fffffffffffffff, 0x8000000000000000, 0xffffffffffffffff, 0x0102030405060708}
var str4 = []string{"abc", "héx"[0:3], "\xffz9", "a b"} // 3 bytes + NUL
var wstr3 = [][]rune{{'a', 'b'}, {'é', '中'}, {0x1F600}, // 2 units + NUL (the third is a surrogate pair)
	{0xE9, 0xFC}, {'a', 0xFF}, {0x80, 'z'}, {0x7F, 0x100}, {0xFFFD, 0x00A0}, {0x0100, 0xFF}} // Latin-1 only / mixed widths / boundaries

type wireField struct {
	t   string
	n   int
	u32 uint32
	u64 uint64
	b   []byte
	s   string
}

func RunWire(behs [][]Step, tr *Trace, env Env, sum *Summary) {
	rng := rand.New(rand.NewSource(env.Seed))
	for bi, beh := range behs {
		c := beh[0]
		var fs []wireField
		var types []parser.ReadType
		var descr []any
		buf := &refdemon.Buf{}
		for _, x := range c["fields"].([]any) {
			m := x.(map[string]any)
			f := wireField{t: m["t"].(string), n: int(m["n"].(float64))}
			switch f.t {
			case "i32":
				f.u32 = i32Vals[rng.Intn(len(i32Vals))]
				buf.I32(f.u32)
				types = append(types, parser.ReadInt32)
			case "bool":
				f.u32 = []uint32{0, 1, 2, 0x100, 0x01000000}[rng.Intn(5)]
				buf.I32(f.u32)
				types = append(types, parser.ReadBool)
			case "i64":
				f.u64 = i64Vals[rng.Intn(len(i64Vals))]
				buf.I64(f.u64)
				types = append(types, parser.ReadInt64)
			case "bytes":
				f.b = make([]byte, f.n)
				for i := range f.b {
					f.b[i] = []byte{0, 1, 0x7f, 0x80, 0xff}[rng.Intn(5)]
				}
				buf.Bytes(f.b)
				types = append(types, parser.ReadBytes)
			case "str":
				if f.n == 1 {
					f.s = ""
				} else {
					f.s = str4[rng.Intn(len(str4))]
				}
				buf.Bytes(append([]byte(f.s), 0))
				types = append(types, parser.ReadBytes)
			case "wstr":
				if f.n == 1 {
					f.s = ""
				} else {
					f.s = string(wstr3[rng.Intn(len(wstr3))])
				}
				buf.WStr(f.s)
				types = append(types, parser.ReadBytes)
			}
			fs = append(fs, f)
			descr = append(descr, m)
		}
		need := len(buf.B)
		res := int(c["residue"].(float64))
		for i := 0; i < res; i++ {
			buf.B = append(buf.B, []byte{0, 1, 0x41, 0x80, 0xff}[rng.Intn(5)])
		}
		cut := int(c["cut"].(float64))
		data := append([]byte{}, buf.B[:cut]...)
		tr.Emit(map[string]any{"ev": "Reset", "fields": descr, "residue": res, "cut": cut})
		// Probe
		p := parser.NewParser(append([]byte{}, data...))
		can, pan := false, ""
		func() {
			defer func() {
				if r := recover(); r != nil {
					pan = fmt.Sprintf("%v\n%s", r, debug.Stack())
				}
			}()
			can = p.CanIRead(types)
		}()
		if pan != "" {
			sum.Incidents = append(sum.Incidents, Incident{Behaviour: bi, Kind: "panic", Site: "CanIRead", Detail: firstLines(pan, 12)})
		}
		tr.Emit(map[string]any{"ev": "Probe", "res": map[string]any{"can": can, "left": p.Length(), "ok": pan == ""}})
		sum.Counters["probe"]++
		if cut >= need {
			ok := true
			bad := ""
			func() {
				defer func() {
					if r := recover(); r != nil {
						pan = fmt.Sprintf("%v\n%s", r, debug.Stack())
						ok = false
					}
				}()
				for i, f := range fs {
					good := true
					switch f.t {
					case "i32":
						good = uint32(p.ParseInt32()) == f.u32
					case "bool":
						good = p.ParseBool() == (f.u32 != 0)
					case "i64":
						good = uint64(p.ParseInt64()) == f.u64
					case "bytes":
						good = bytes.Equal(p.ParseBytes(), f.b)
					case "str":
						good = p.ParseString() == f.s
					case "wstr":
						good = p.ParseUTF16String() == f.s
					}
					if !good {
						ok = false
						if bad == "" {
							bad = fmt.Sprintf("field %d (%s) of %d, %d bytes after the fields", i+1, f.t, len(fs), cut-need)
						}
					}
				}
			}()
			if pan != "" {
				sum.Incidents = append(sum.Incidents, Incident{Behaviour: bi, Kind: "panic", Site: "Parse", Detail: firstLines(pan, 12)})
			}
			tr.Emit(map[string]any{"ev": "Read", "res": map[string]any{"can": true, "left": p.Length(), "ok": ok, "bad": bad}})
			sum.Counters["read"]++
		}
		if bi < 3 {
			sum.Samples = append(sum.Samples, c)
		}
		sum.Behaviours++
	}
}

func init() {
	Modules["wire"] = func(behs [][]Step, tr *Trace, env Env, sum *Summary) { RunWire(behs, tr, env, sum) }
}
