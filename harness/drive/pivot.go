package drive

import (
	"fmt"
	"math/rand"
	"runtime/debug"
	"sort"
	"strconv"
	"strings"
	"time"

	"Havoc/pkg/packager"

	"vcheck/refdemon"
	"vcheck/world"
)

// ---- Pivot (C09): the pivot graph is a consistent forest mirrored in TS_Links ----

type pivState struct {
	w     *world.World
	ids   map[string]uint32 // symbol -> real id
	sym   map[uint32]string
	keys  map[string]refdemon.Keys
	req   uint32
	syms  []string
	stuck bool
}

// guarded runs f with a watchdog and panic capture (operator-side calls have no HTTP wrapper).
func guarded(f func(), d time.Duration) (panicked string, timeout bool) {
	done := make(chan string, 1)
	go func() {
		defer func() {
			if r := recover(); r != nil {
				done <- fmt.Sprintf("%v\n%s", r, debug.Stack())
				return
			}
			done <- ""
		}()
		f()
	}()
	select {
	case p := <-done:
		return p, false
	case <-time.After(d):
		return "", true
	}
}

func (s *pivState) symOf(nameID string) string {
	v, err := strconv.ParseUint(nameID, 16, 64)
	if err != nil {
		return "?" + nameID
	}
	if x, ok := s.sym[uint32(v)]; ok {
		return x
	}
	return "?" + nameID
}

func (s *pivState) project() map[string]any {
	reg := []string{}
	ptr := map[string]any{}
	links := map[string]any{}
	active := map[string]any{}
	dup := false
	for _, sy := range s.syms {
		ptr[sy] = "none"
		links[sy] = []string{}
		active[sy] = false
		as := s.w.AgentsByID(s.ids[sy])
		if len(as) == 0 {
			continue
		}
		if len(as) > 1 {
			dup = true
		}
		a := as[0]
		reg = append(reg, sy)
		if a.Pivots.Parent != nil {
			ptr[sy] = s.symOf(a.Pivots.Parent.NameID)
		}
		seen := map[string]bool{}
		l := []string{}
		for _, c := range a.Pivots.Links {
			cs := s.symOf(c.NameID)
			if seen[cs] {
				dup = true
				continue
			}
			seen[cs] = true
			l = append(l, cs)
		}
		sort.Strings(l)
		links[sy] = l
		active[sy] = a.Active
	}
	rows := [][]string{}
	if db, err := s.w.DBConn(); err == nil {
		if q, err := db.Query(`SELECT ParentAgentID, LinkAgentID FROM TS_Links`); err == nil {
			seen := map[string]bool{}
			for q.Next() {
				var p, c int64
				if q.Scan(&p, &c) == nil {
					ps, cs := s.symOf(fmt.Sprintf("%x", uint32(p))), s.symOf(fmt.Sprintf("%x", uint32(c)))
					if seen[ps+">"+cs] {
						dup = true
						continue
					}
					seen[ps+">"+cs] = true
					rows = append(rows, []string{ps, cs})
				}
			}
			q.Close()
		}
		db.Close()
	}
	return map[string]any{"reg": reg, "ptr": ptr, "links": links, "dup": dup, "db": rows, "active": active}
}

func (s *pivState) operator(sub int, info map[string]any) (string, bool) {
	pk := packager.Package{}
	pk.Head.Event = packager.Type.Session.Type
	pk.Head.User = "neo"
	pk.Body.SubEvent = sub
	pk.Body.Info = info
	return guarded(func() { s.w.TS.DispatchEvent(pk) }, 8*time.Second)
}

func (s *pivState) send(from string, subs ...refdemon.Sub) world.Result {
	id := s.ids[from]
	return s.w.RequestWith(refdemon.Packages(id, s.keys[from], subs), 8*time.Second)
}

func RunPivot(behs [][]Step, tr *Trace, env Env, sum *Summary) {
	for bi, beh := range behs {
		func() {
			w, err := world.New(env.Scratch, world.Options{})
			must(err)
			defer w.Close()
			s := &pivState{w: w, ids: map[string]uint32{}, sym: map[uint32]string{}, keys: map[string]refdemon.Keys{}, req: 0x4000, syms: []string{"a1", "a2", "a3", "a4"}}
			rng := rand.New(rand.NewSource(env.Seed + int64(bi)*1000003))
			for i, sy := range s.syms {
				id := uint32(rng.Int63n(0x7ffffff0)) + 1
				for s.sym[id] != "" {
					id++
				}
				s.ids[sy] = id
				s.sym[id] = sy
				s.keys[sy] = world.KeysFor(env.Seed+int64(bi), i, false)
			}
			tr.Emit(map[string]any{"ev": "Reset"})
			for si, st := range beh {
				if s.stuck {
					break
				}
				op, a, c, k := st.Str("op"), st.Str("a"), st.Str("c"), st.Str("k")
				sum.Counters["op."+op]++
				done := true
				fail := func(kind, site, detail string) {
					done = false
					sum.Incidents = append(sum.Incidents, Incident{Behaviour: bi, Step: si, Kind: kind, Site: site, Detail: detail})
					if kind == "hang" {
						s.stuck = true
					}
				}
				check := func(r world.Result, site string) {
					if r.Panic != "" {
						fail("panic", site, firstLines(r.Panic, 16))
					} else if r.Timeout {
						fail("hang", site, "")
					}
				}
				switch op {
				case "Register":
					check(w.Request(refdemon.Register(s.ids[a], s.keys[a], refdemon.DefaultMeta(a))), "Register")
				case "Connect":
					inner := refdemon.Register(s.ids[c], s.keys[c], refdemon.DefaultMeta(c))
					b := &refdemon.Buf{}
					b.I32(refdemon.PivotSmbConnect).I32(1).Bytes(inner)
					check(s.send(a, refdemon.Sub{Cmd: refdemon.CmdPivot, Req: 0, Body: b.B}), "Connect")
				case "Restart":
					if pan, to := guarded(func() { must(w.Restart()) }, 150*time.Second); pan != "" || to {
						if strings.Contains(pan, "harness-error") {
							panic(pan)
						}
						fail(map[bool]string{true: "hang", false: "panic"}[to], "Restart", firstLines(pan, 16))
					}
				case "Disconnect":
					b := &refdemon.Buf{}
					b.I32(refdemon.PivotSmbDisconnect).I32(1).I32(s.ids[c])
					check(s.send(a, refdemon.Sub{Cmd: refdemon.CmdPivot, Req: 0, Body: b.B}), "Disconnect")
				case "Died":
					ag := w.Agent(s.ids[a])
					switch k {
					case "mark":
						p, to := s.operator(packager.Type.Session.MarkAsDead, map[string]any{"AgentID": ag.NameID, "Marked": "Dead"})
						if p != "" {
							fail("panic", "Died:mark", firstLines(p, 16))
						} else if to {
							fail("hang", "Died:mark", "")
						}
					default:
						s.req++
						info := map[string]any{"DemonID": ag.NameID, "CommandID": "92", "ExitMethod": "thread", "TaskID": fmt.Sprintf("%08X", s.req), "CommandLine": "exit thread"}
						if k == "killdate" {
							info = map[string]any{"DemonID": ag.NameID, "CommandID": "11", "Arguments": "1;1", "TaskID": fmt.Sprintf("%08X", s.req), "CommandLine": "sleep 1 1"}
						}
						p, to := s.operator(packager.Type.Session.Input, info)
						if p != "" {
							fail("panic", "Issue", firstLines(p, 16))
							break
						} else if to {
							fail("hang", "Issue", "operator task for an agent never returned (AddJobToQueue/PivotAddJob)")
							break
						}
						if k == "exit" {
							b := &refdemon.Buf{}
							b.I32(1)
							check(s.send(a, refdemon.Sub{Cmd: refdemon.CmdExit, Req: s.req, Body: b.B}), "Died:exit")
						} else {
							check(s.send(a, refdemon.Sub{Cmd: refdemon.CmdKillDate, Req: s.req, Body: nil}), "Died:killdate")
						}
					}
				}
				if c == "" {
					c = "none"
				}
				ev := map[string]any{"ev": op, "a": a, "c": c, "k": k, "res": map[string]any{"done": done}}
				if !s.stuck {
					ev["st"] = s.project()
				} else {
					ev["st"] = map[string]any{"reg": []string{}, "ptr": map[string]any{"a1": "none", "a2": "none", "a3": "none", "a4": "none"}, "links": map[string]any{"a1": []string{}, "a2": []string{}, "a3": []string{}, "a4": []string{}}, "dup": false, "db": [][]string{}, "active": map[string]any{"a1": false, "a2": false, "a3": false, "a4": false}}
				}
				tr.Emit(ev)
			}
			if bi < 2 {
				sum.Samples = append(sum.Samples, beh)
			}
		}()
		sum.Behaviours++
	}
}

func init() {
	Modules["pivot"] = func(behs [][]Step, tr *Trace, env Env, sum *Summary) { RunPivot(behs, tr, env, sum) }
}
