package drive

import (
	"encoding/binary"
	"fmt"
	"math/rand"
	"strings"
	"time"

	"Havoc/pkg/agent"
	"Havoc/pkg/packager"

	"vcheck/refdemon"
	"vcheck/world"
)

// ---- Robust (C01): any request on an agent-facing endpoint ----

type robWorld struct {
	w            *world.World
	known, child uint32
	grand        uint32 // "pivoting": the agent behind the child
	kk, kc       refdemon.Keys
	req          uint32
	state        string
}

func (rw *robWorld) issue(id uint32) uint32 {
	rw.req++
	a := rw.w.Agent(id)
	pk := packager.Package{}
	pk.Head.Event, pk.Head.User, pk.Body.SubEvent = packager.Type.Session.Type, "neo", packager.Type.Session.Input
	pk.Body.Info = map[string]any{"DemonID": a.NameID, "CommandID": "11", "TaskID": fmt.Sprintf("%08X", rw.req), "CommandLine": "sleep 1 1", "Arguments": "1;1"}
	guarded(func() { rw.w.TS.DispatchEvent(pk) }, 5*time.Second)
	return rw.req
}

func newRobWorld(env Env, state string, service bool, salt int) *robWorld {
	w, err := world.New(env.Scratch, world.Options{Service: service})
	must(err)
	rng := rand.New(rand.NewSource(env.Seed*31 + int64(salt)))
	rw := &robWorld{w: w, state: state, req: 0xD000}
	rw.known = uint32(rng.Int63n(0x7ffffff0)) + 2
	rw.child = rw.known + 77
	rw.kk, rw.kc = world.KeysFor(env.Seed, salt*2+1, false), world.KeysFor(env.Seed, salt*2+2, false)
	w.Register(rw.known, rw.kk, refdemon.DefaultMeta("k"))
	// the child sits behind the known agent in every state (relayed traffic needs it); "pivoting" adds a second hop
	b := &refdemon.Buf{}
	b.I32(refdemon.PivotSmbConnect).I32(1).Bytes(refdemon.Register(rw.child, rw.kc, refdemon.DefaultMeta("c")))
	w.Request(refdemon.Packages(rw.known, rw.kk, []refdemon.Sub{{Cmd: refdemon.CmdPivot, Body: b.B}}))
	w.Keys[rw.child] = rw.kc
	switch state {
	case "downloading":
		r := rw.issue(rw.known)
		d := &refdemon.Buf{}
		d.I32(2).I32(0).I32(0x77).I64(10).WStr("C:\\x\\open.bin")
		w.Request(refdemon.Packages(rw.known, rw.kk, []refdemon.Sub{{Cmd: refdemon.CmdFS, Req: r, Body: d.B}}))
	case "pivoting":
		g := rw.child + 5
		gk := world.KeysFor(env.Seed, salt*2+3, false)
		b2 := &refdemon.Buf{}
		b2.I32(refdemon.PivotSmbConnect).I32(1).Bytes(refdemon.Register(g, gk, refdemon.DefaultMeta("g")))
		w.Request(refdemon.Packages(rw.child, rw.kc, []refdemon.Sub{{Cmd: refdemon.CmdPivot, Body: b2.B}}))
		rw.grand = g
	}
	return rw
}

func robBody(shape string, sub uint32, rng *rand.Rand, child uint32) []byte {
	b := &refdemon.Buf{}
	if shape == "none" {
		return nil
	}
	b.I32(sub)
	switch shape {
	case "subonly":
	case "stray":
		b.Raw([]byte{1, 2, 3}[:1+rng.Intn(3)])
	case "ints2":
		b.I32(1).I32(uint32(rng.Intn(5)))
	case "ints6":
		b.I32(1).I32(2).I32(3).I32(4).I32(5).I32(6)
	case "bytes0":
		b.Bytes(nil)
	case "bytes_odd":
		b.Bytes([]byte{0x41, 0, 0x42})
	case "bytes_even":
		b.Bytes([]byte{0x41, 0})
	case "int_bytes_odd":
		b.I32(uint32(rng.Intn(3))).Bytes([]byte{0x41, 0, 0x42, 0, 0x43})
	case "hugelen":
		b.I32(0xFFFFFFFF).Raw([]byte{1, 2, 3})
	case "mix":
		for i := 0; i < 8; i++ {
			b.Bytes([]byte{0x61, 0, 0x62, 0}).I32(uint32(i))
		}
	case "bools_bytes":
		b.I32(1).I32(0).Bytes([]byte{}).I32(1).Bytes([]byte{0x5c, 0}).I32(0).I64(7).I32(1).I32(2).I32(3).I32(4).I32(5)
	case "random":
		r := make([]byte, 64)
		rng.Read(r)
		b.Raw(r)
	case "int64s":
		b.I64(1).I64(0xFFFFFFFFFFFFFFFF).I32(2)
	case "list_emptyroot":
		// directory listing, list-only, one directory whose own name is empty, one entry
		b.I32(0).I32(1).WStr("C:\\").I32(1).Bytes(nil).I32(1).I32(0).WStr("f.txt")
	case "list_entries":
		// directory listing, full form, two directories with entries, empty names and zero dates
		b.I32(uint32(rng.Intn(2))).I32(0).WStr("C:\\x").I32(1)
		for d := 0; d < 2; d++ {
			b.Bytes(nil).I32(1).I32(1).I64(0)
			for e := 0; e < 2; e++ {
				b.Bytes(nil).I32(uint32(e)).I64(0).I32(0).I32(0).I32(0).I32(0).I32(0)
			}
		}
	case "list_sizes":
		// directory listing, full form: a directory whose total and whose files' sizes sit at the boundaries of the signed 64-bit range
		sizes := []uint64{1 << 63, 1<<63 - 1, 1<<63 + 1, ^uint64(0)}
		b.I32(uint32(rng.Intn(2))).I32(0).WStr("C:\\x").I32(1)
		b.Bytes(refdemon.UTF16LE("C:\\x\\*", true)).I32(uint32(len(sizes))).I32(0).I64(1 << 63)
		for i, sz := range sizes {
			b.Bytes(refdemon.UTF16LE(fmt.Sprintf("f%d.bin", i), true)).I32(0).I64(sz).I32(1).I32(2).I32(2024).I32(4).I32(5)
		}
	case "open_sizes":
		// a download announced with such a size (mode 0 = open, file id, size, name)
		b.I32(0).I32(0x51 + uint32(rng.Intn(4))).I64([]uint64{1 << 63, 1<<63 - 1, 1<<63 + 1, ^uint64(0)}[rng.Intn(4)]).WStr("C:\\x\\big.bin")
	case "empties":
		for i := 0; i < 12; i++ {
			b.Bytes(nil).I32(0).I32(uint32(i)).Bytes(nil)
		}
	case "nested_reg_bad":
		// success flag + a Demon request whose registration body is too short to parse
		inner := refdemon.Frame(refdemon.Magic, child+999, refdemon.CmdInit, 0, make([]byte, 50))
		b.I32(1).Bytes(inner)
	case "nested_reg_ok":
		inner := refdemon.Register(child+1000+uint32(rng.Intn(100000)), world.KeysFor(int64(rng.Int63()), 1, false), refdemon.DefaultMeta("n"))
		b.I32(1).Bytes(inner)
	}
	return b.B
}

func RunRobust(behs [][]Step, tr *Trace, env Env, sum *Summary) {
	worlds := map[string]*robWorld{}
	defer func() {
		for _, rw := range worlds {
			rw.w.Close()
		}
	}()
	rng := rand.New(rand.NewSource(env.Seed + int64(env.Shard)))
	salt := 0
	for bi, beh := range behs {
		c := beh[0]["cell"].(map[string]any)
		s := func(k string) string { v, _ := c[k].(string); return v }
		n := func(k string) uint32 { v, _ := c[k].(float64); return uint32(v) }
		service, _ := c["service"].(bool)
		wk := fmt.Sprintf("%s/%v", s("state"), service)
		rw := worlds[wk]
		if rw == nil || rw.w.Agent(rw.known) == nil || !rw.w.Agent(rw.known).Active {
			if rw != nil {
				rw.w.Close()
			}
			salt++
			rw = newRobWorld(env, s("state"), service, salt+env.Shard*1000)
			worlds[wk] = rw
		}
		w := rw.w
		// ---- who speaks
		var id uint32
		k := rw.kk
		switch s("agent") {
		case "known":
			id = rw.known
		case "child":
			id, k = rw.child, rw.kc
		case "unknown":
			id = rw.known + 5000 + uint32(rng.Intn(1000))
			k = world.KeysFor(int64(rng.Int63()), 3, false)
		case "zero":
			id = 0
		}
		sendKey := k
		if s("key") == "wrong" {
			sendKey = world.KeysFor(int64(rng.Int63()), 9, false)
		}
		// a request id that is outstanding, so that the body reaches the dispatcher
		req := uint32(0x1234)
		if a := w.Agent(id); a != nil && s("state") != "fresh" {
			req = rw.issue(id)
			if bi%3 == 1 {
				rw.issue(id) // the request answered is not the youngest one outstanding
			}
		}
		// two hops: a task for the deepest agent waits in the first hop's queue, wrapped twice
		if rw.grand != 0 && w.Agent(rw.grand) != nil {
			rw.issue(rw.grand)
		}
		body := robBody(s("shape"), n("sub"), rng, rw.child)
		var pkt []byte
		switch s("first") {
		case "init":
			if s("shape") == "nested_reg_ok" && s("agent") == "unknown" {
				pkt = refdemon.Register(id, k, refdemon.DefaultMeta("u"))
			} else {
				rest := append(append(append([]byte{}, sendKey.Key...), sendKey.IV...), body...)
				pkt = refdemon.Frame(refdemon.Magic, id, refdemon.CmdInit, 0, rest)
			}
		case "getjob":
			pkt = refdemon.CheckIn(id, sendKey)
		case "callback":
			pkt = refdemon.Packages(id, sendKey, []refdemon.Sub{{Cmd: n("cmd"), Req: req, Body: body}})
		default:
			pkt = refdemon.CheckIn(id, sendKey, refdemon.Sub{Cmd: n("cmd"), Req: req, Body: body})
		}
		// relayed through parents: wrap as COMMAND_PIVOT / SMB_COMMAND callbacks
		for d := uint32(0); d < n("depth"); d++ {
			wb := &refdemon.Buf{}
			wb.I32(refdemon.PivotSmbCommand).Bytes(pkt)
			pkt = refdemon.Packages(rw.known, rw.kk, []refdemon.Sub{{Cmd: refdemon.CmdPivot, Body: wb.B}})
		}
		if s("magic") == "other" && len(pkt) >= 8 {
			binary.BigEndian.PutUint32(pkt[4:], 0x41414141)
		}
		switch s("hdr") {
		case "full":
		default:
			var l int
			fmt.Sscanf(s("hdr"), "%d", &l)
			if l < len(pkt) {
				pkt = pkt[:l]
			}
		}
		before := w.Snapshot()
		r := w.RequestWith(pkt, 10*time.Second)
		ok := true
		fail := func(kind, detail string) {
			ok = false
			sum.Incidents = append(sum.Incidents, Incident{Behaviour: bi, Kind: kind, Site: fmt.Sprintf("cmd=%d sub=%d shape=%s first=%s agent=%s depth=%d magic=%s service=%v", n("cmd"), n("sub"), s("shape"), s("first"), s("agent"), n("depth"), s("magic"), service), Detail: detail})
		}
		if r.Panic != "" {
			fail("panic", firstLines(r.Panic, 16))
		} else if r.Timeout {
			fail("hang", "handler did not return within 10s")
			delete(worlds, wk) // this world is gone
		}
		outcome := "?"
		switch {
		case r.Status == 404:
			outcome = "decoy"
		case r.Status == 200:
			outcome = "reply"
		}
		touched := false
		if !r.Timeout {
			for _, a := range w.TS.Agents.Agents {
				for name, m := range map[string]interface{ TryLock() bool }{"JobQueueMtx": &a.JobQueueMtx, "PortFwdsMtx": &a.PortFwdsMtx, "SocksCliMtx": &a.SocksCliMtx, "SocksSvrMtx": &a.SocksSvrMtx} {
					free := m.TryLock()
					for t := 0; t < 100 && !free; t++ { // a relay goroutine may hold it for a moment; "left held" is for good
						time.Sleep(2 * time.Millisecond)
						free = m.TryLock()
					}
					if free {
						switch name {
						case "JobQueueMtx":
							a.JobQueueMtx.Unlock()
						case "PortFwdsMtx":
							a.PortFwdsMtx.Unlock()
						case "SocksCliMtx":
							a.SocksCliMtx.Unlock()
						default:
							a.SocksSvrMtx.Unlock()
						}
					} else {
						fail("lock-held", name)
					}
				}
			}
			d := world.Diff(before, w.Snapshot(), false)
			touched = len(d) > 0
			if outcome == "decoy" && touched && len(sum.Samples) < 6 {
				sum.Samples = append(sum.Samples, map[string]any{"cell": c, "diff_after_decoy": d})
			}
		}
		if r.Panic != "" {
			outcome = "panic"
		}
		tr.Emit(map[string]any{"ev": "Reset", "cell": c})
		tr.Emit(map[string]any{"ev": "Handle", "res": map[string]any{"outcome": outcome, "ok": ok, "touched": touched}})
		sum.Counters["outcome."+outcome]++
		if bi < 2 {
			sum.Samples = append(sum.Samples, c)
		}
		sum.Behaviours++
		_ = agent.COMMAND_NOJOB
		_ = strings.Contains
	}
}

func init() {
	Modules["robust"] = func(behs [][]Step, tr *Trace, env Env, sum *Summary) { RunRobust(behs, tr, env, sum) }
}
