package drive

import (
	"encoding/json"
	"fmt"
	"os"
	"path/filepath"
	"runtime/debug"
	"strings"

	"Havoc/pkg/common/builder"
	"Havoc/pkg/handlers"

	"vcheck/refdemon"
)

// ---- ConfigLayout (C13) ----

const (
	cfgSpawn64 = "C:\\Windows\\System32\\notepad.exe"
	cfgSpawn32 = "C:\\Windows\\SysWOW64\\notepad.exe"
	cfgKill    = int64(133500000000000000)
)

func cfgOptions(o map[string]any) string {
	m := map[string]any{
		"Sleep": o["sleep"], "Jitter": o["jitter"], "Indirect Syscall": o["syscall"],
		"Injection":       map[string]any{"Alloc": o["alloc"], "Execute": o["exec"], "Spawn64": cfgSpawn64, "Spawn32": cfgSpawn32},
		"Sleep Technique": o["tech"], "Sleep Jmp Gadget": o["gadget"], "Stack Duplication": o["stack"],
		"Proxy Loading": o["load"], "Amsi/Etw Patch": o["amsi"], "Service Name": "svc",
	}
	b, _ := json.Marshal(m)
	return string(b)
}

func cfgListener(l map[string]any) (int, any) {
	s := func(k string) string { v, _ := l[k].(string); return v }
	bl := func(k string) bool { v, _ := l[k].(bool); return v }
	n := func(k string) int { v, _ := l[k].(float64); return int(v) }
	kill := int64(0)
	if bl("kill") {
		kill = cfgKill
	}
	sfx := cfgSfx[s("text")]
	if s("kind") == "smb" {
		return handlers.LISTENER_PIVOT_SMB, &handlers.SMB{Config: handlers.SMBConfig{Name: "smb", PipeName: "verifpipe" + sfx, KillDate: kill, WorkingHours: s("wh")}}
	}
	c := handlers.HTTPConfig{Name: "web", KillDate: kill, WorkingHours: s("wh"), HostBind: "0.0.0.0", PortBind: "4443", PortConn: s("portconn"),
		Methode: s("method"), HostRotation: s("rot"), Secure: bl("secure"), UserAgent: "VerifUA/1.0" + sfx}
	switch s("hosts") {
	case "one":
		c.Hosts = []string{"a.example"}
	case "oneport":
		c.Hosts = []string{"a.example:8080"}
	case "two":
		c.Hosts = []string{"a.example", "b.example:9090"}
	case "portfirst":
		c.Hosts = []string{"a.example:8443", "b.example"}
	case "three":
		c.Hosts = []string{"a.example", "b.example:9090", "c.example"}
	case "badport":
		c.Hosts = []string{"a.example:xyz"}
	case "v6":
		c.Hosts = []string{"::1"}
	}
	if n("nheaders") >= 1 {
		c.Headers = append(c.Headers, "X-One: 1"+sfx)
	}
	if n("nheaders") >= 2 {
		c.Headers = append(c.Headers, "X-Two: b: c")
	}
	if bl("hosthdr") {
		c.HostHeader = "front.example" + sfx
	}
	if n("nuris") >= 1 {
		c.Uris = append(c.Uris, "/a"+sfx)
	}
	if n("nuris") >= 2 {
		c.Uris = append(c.Uris, "/b?x=1")
	}
	if bl("proxy") {
		c.Proxy.Enabled, c.Proxy.Type, c.Proxy.Host, c.Proxy.Port, c.Proxy.Username, c.Proxy.Password = true, "http", "proxy.example", "3128", "puser"+sfx, "ppass"
	}
	return handlers.LISTENER_HTTP, &handlers.HTTP{Config: c}
}

// the characters the text classes of ConfigLayout.tla stand for, and the way a string that was read back is written for the specification:
// those two characters by their names, everything else as it is (so a character that came back as another one stays visible)
var cfgSfx = map[string]string{"bmp": "\u0416", "astral": "\U0001F680"}

func cfgName(s string) string {
	return strings.NewReplacer("\u0416", "<U+0416>", "\U0001F680", "<U+1F680>").Replace(s)
}

func strs(v []string) []string {
	out := []string{}
	for _, x := range v {
		out = append(out, cfgName(x))
	}
	return out
}

func RunConfig(behs [][]Step, tr *Trace, env Env, sum *Summary) {
	if env.Mode == "shell" {
		runConfigShell(tr, env, sum)
		return
	}
	_, cc, argvLog, back := cfgStubRoot(env)
	defer back()
	for bi, beh := range behs {
		cell := beh[0]
		o := cell["opt"].(map[string]any)
		l := cell["lst"].(map[string]any)
		b := builder.NewBuilder(builder.BuilderConfig{})
		b.SetSilent(true)
		b.SendConsoleMessage = func(string, string) {}
		must(b.SetConfig(cfgOptions(o)))
		lt, lc := cfgListener(l)
		b.SetListener(lt, lc)
		b.SetFormat(builder.FILETYPE_WINDOWS_EXE)
		var readBack func(blob []byte) map[string]any
		patch := func() map[string]any {
			var blob []byte
			var err error
			pan := ""
			func() {
				defer func() {
					if p := recover(); p != nil {
						pan = fmt.Sprintf("%v\n%s", p, debug.Stack())
					}
				}()
				blob, err = b.PatchConfig()
			}()
			if pan != "" {
				sum.Incidents = append(sum.Incidents, Incident{Behaviour: bi, Kind: "panic", Site: "PatchConfig", Detail: firstLines(pan, 12)})
			}
			res := map[string]any{"built": false, "o": []any{}, "l": []any{}}
			if err == nil && pan == "" {
				res = readBack(blob)
				sum.Counters["built"]++
			} else {
				sum.Counters["refused"]++
			}
			return res
		}
		_ = patch
		readBack = func(blob []byte) map[string]any {
			res := map[string]any{"built": false, "o": []any{}, "l": []any{}}
			{
				smb := lt == handlers.LISTENER_PIVOT_SMB
				c, rerr := refdemon.ReadConfig(blob, smb)
				if rerr != nil || c.Left != 0 {
					res["built"] = true
					res["o"] = map[string]any{"unreadable": fmt.Sprint(rerr, " left=", c.Left)}
					res["l"] = map[string]any{"unreadable": true}
				} else {
					res["built"] = true
					res["o"] = map[string]any{"sleep": c.Sleep, "jitter": c.Jitter, "alloc": c.Alloc, "exec": c.Exec, "tech": c.Tech, "gadget": c.Gadget, "stack": c.Stack,
						"load": c.Load, "syscall": c.Syscall, "amsi": c.Amsi, "spawn": c.Spawn64 == cfgSpawn64 && c.Spawn32 == cfgSpawn32}
					kill := any(c.KillDate)
					if c.KillDate == uint64(cfgKill) {
						kill = 1
					}
					if smb {
						res["l"] = map[string]any{"kind": "smb", "pipe": cfgName(c.Pipe), "kill": kill, "wh": c.WorkingHours}
					} else {
						hosts := [][]any{}
						for i := range c.Hosts {
							hosts = append(hosts, []any{c.Hosts[i], c.Ports[i]})
						}
						proxy := []string{}
						if c.ProxyEnabled != 0 {
							proxy = []string{cfgName(c.ProxyURL), cfgName(c.ProxyUser), cfgName(c.ProxyPass)}
						}
						res["l"] = map[string]any{"kind": "http", "kill": kill, "wh": c.WorkingHours, "method": c.Method, "rot": c.Rotation, "hosts": hosts,
							"secure": c.Secure, "ua": cfgName(c.UserAgent), "headers": strs(c.Headers), "uris": strs(c.Uris), "proxy": proxy}
					}
				}
			}
			return res
		}
		res := patch()
		tr.Emit(map[string]any{"ev": "Reset", "opt": o, "lst": l})
		tr.Emit(map[string]any{"ev": "Patch", "res": res})
		// a second payload for the same listener object (a fresh builder, as every build request creates one)
		b = builder.NewBuilder(builder.BuilderConfig{})
		b.SetSilent(true)
		b.SendConsoleMessage = func(string, string) {}
		must(b.SetConfig(cfgOptions(o)))
		b.SetListener(lt, lc)
		b.SetFormat(builder.FILETYPE_WINDOWS_EXE)
		tr.Emit(map[string]any{"ev": "Again", "res": patch()})
		// the whole build for one output format, with the stub tool chain: what is the compiler handed as CONFIG_BYTES?
		format := []string{"exe", "svc", "dll", "shellcode"}[bi%4]
		os.Remove(argvLog)
		b = builder.NewBuilder(builder.BuilderConfig{Compiler64: cc, Compiler86: cc, Nasm: cc})
		b.SetSilent(true)
		b.SendConsoleMessage = func(string, string) {}
		must(b.SetConfig(cfgOptions(o)))
		b.SetListener(lt, lc)
		arch, ext := builder.ARCHITECTURE_X64, ".exe"
		if (bi/4)%2 == 1 {
			arch = builder.ARCHITECTURE_X86
		}
		b.SetArch(arch)
		switch format {
		case "exe":
			b.SetFormat(builder.FILETYPE_WINDOWS_EXE)
		case "svc":
			b.SetFormat(builder.FILETYPE_WINDOWS_SERVICE_EXE)
		case "dll":
			b.SetFormat(builder.FILETYPE_WINDOWS_DLL)
			ext = ".dll"
		case "shellcode":
			b.SetFormat(builder.FILETYPE_WINDOWS_RAW_BINARY)
			ext = ".bin"
		}
		b.SetExtension(ext)
		okBuild, bpan := false, ""
		func() {
			defer func() {
				if p := recover(); p != nil {
					bpan = fmt.Sprintf("%v\n%s", p, debug.Stack())
				}
			}()
			okBuild = b.Build()
		}()
		if bpan != "" {
			sum.Incidents = append(sum.Incidents, Incident{Behaviour: bi, Kind: "panic", Site: "Build " + format, Detail: firstLines(bpan, 12)})
		}
		if b.CompileDir != "" && strings.HasPrefix(b.CompileDir, "/tmp/") {
			os.RemoveAll(b.CompileDir)
		}
		built := map[string]any{"built": false, "o": []any{}, "l": []any{}}
		if okBuild && bpan == "" {
			built = map[string]any{"built": true, "o": map[string]any{"unreadable": "no CONFIG_BYTES define in the compiler's arguments"}, "l": map[string]any{"unreadable": true}}
			argv, _ := os.ReadFile(argvLog)
			for _, line := range strings.Split(string(argv), "\n") {
				const pre = "ARG:-DCONFIG_BYTES={"
				if strings.HasPrefix(line, pre) {
					var blob []byte
					for _, f := range strings.FieldsFunc(line[len(pre):], func(r rune) bool { return r == ',' || r == '\\' || r == '}' }) {
						var v int
						if _, err := fmt.Sscanf(f, "0x%02x", &v); err == nil {
							blob = append(blob, byte(v))
						}
					}
					built = readBack(blob)
				}
			}
		}
		tr.Emit(map[string]any{"ev": "Built", "fmt": format, "res": built})
		sum.Counters["build."+format]++
		if bi < 3 {
			sum.Samples = append(sum.Samples, cell)
		}
		sum.Behaviours++
	}
}

// runConfigShell builds service executables with stub tools that record their argv; any other
// program started by the build shows up as a marker file.
// cfgStubRoot lays out a teamserver directory with Demon source stubs, shellcode templates and a stub tool that stands for
// compiler and assembler: it records its argv and creates its output file.  The process works inside that directory.
func cfgStubRoot(env Env) (root, cc, argvLog string, back func()) {
	root = filepath.Join(env.Scratch, "ts")
	for _, d := range []string{"payloads/Demon/src/core", "payloads/Demon/src/crypt", "payloads/Demon/src/inject", "payloads/Demon/src/asm", "payloads/Demon/src/main", "payloads/Demon/include", "bin"} {
		must(os.MkdirAll(filepath.Join(root, d), 0o755))
	}
	must(os.WriteFile(filepath.Join(root, "payloads/Demon/src/core/a.c"), []byte("int a;"), 0o644))
	must(os.WriteFile(filepath.Join(root, "payloads/Shellcode.x64.bin"), []byte("SC64"), 0o644))
	must(os.WriteFile(filepath.Join(root, "payloads/Shellcode.x86.bin"), []byte("SC86"), 0o644))
	argvLog = filepath.Join(root, "argv.log")
	stub := "#!/bin/sh\nfor a in \"$@\"; do printf '%s\\n' \"ARG:$a\" >> " + argvLog + "; done\nprintf 'END\\n' >> " + argvLog + "\n" +
		"out=\"\"; prev=\"\"; for a in \"$@\"; do if [ \"$prev\" = \"-o\" ]; then out=\"$a\"; fi; prev=\"$a\"; done; [ -n \"$out\" ] && : > \"$out\"\nexit 0\n"
	cc = filepath.Join(root, "bin", "stubcc")
	must(os.WriteFile(cc, []byte(stub), 0o755))
	cwd, _ := os.Getwd()
	must(os.Chdir(root))
	return root, cc, argvLog, func() { os.Chdir(cwd) }
}

func runConfigShell(tr *Trace, env Env, sum *Summary) {
	root, cc, argvLog, back := cfgStubRoot(env)
	defer back()
	marker := filepath.Join(root, "MARKER")
	names := map[string]string{
		"plain": "UpdateSvc", "space": "Update Service 2", "dollar": "a$(touch " + marker + ")b", "backtick": "a`touch " + marker + "`b",
		"semicolon": "a;touch " + marker + ";b", "dquote": "a\"b", "squote": "a'b", "backslash": "a\\b", "amp": "a&&touch " + marker + "&&b", "pipe": "a|touch " + marker,
	}
	for cls, name := range names {
		os.Remove(marker)
		os.Remove(argvLog)
		b := builder.NewBuilder(builder.BuilderConfig{Compiler64: cc, Compiler86: cc, Nasm: cc})
		b.SetSilent(true)
		b.SendConsoleMessage = func(string, string) {}
		o := map[string]any{"sleep": "2", "jitter": "15", "syscall": false, "alloc": "Win32", "exec": "Win32", "tech": "WaitForSingleObjectEx", "gadget": "None", "stack": false, "load": "None (LdrLoadDll)", "amsi": "None"}
		var m map[string]any
		json.Unmarshal([]byte(cfgOptions(o)), &m)
		m["Service Name"] = name
		jb, _ := json.Marshal(m)
		must(b.SetConfig(string(jb)))
		b.SetListener(handlers.LISTENER_PIVOT_SMB, &handlers.SMB{Config: handlers.SMBConfig{Name: "smb", PipeName: "verifpipe"}})
		b.SetFormat(builder.FILETYPE_WINDOWS_SERVICE_EXE)
		b.SetExtension(".exe")
		ok := false
		pan := ""
		func() {
			defer func() {
				if p := recover(); p != nil {
					pan = fmt.Sprintf("%v\n%s", p, debug.Stack())
				}
			}()
			ok = b.Build()
		}()
		argv, _ := os.ReadFile(argvLog)
		// the compiler must receive one argument -DSERVICE_NAME="<C string literal>" whose literal decodes to the name
		verbatim := false
		for _, line := range strings.Split(string(argv), "\n") {
			const pre = "ARG:-DSERVICE_NAME=\""
			if strings.HasPrefix(line, pre) && strings.HasSuffix(line, "\"") && len(line) >= len(pre)+1 {
				lit := line[len(pre) : len(line)-1]
				var dec strings.Builder
				okLit := true
				for i := 0; i < len(lit); i++ {
					if lit[i] == '\\' && i+1 < len(lit) && (lit[i+1] == '\\' || lit[i+1] == '"') {
						i++
					} else if lit[i] == '"' {
						okLit = false
					}
					dec.WriteByte(lit[i])
				}
				if okLit && dec.String() == name {
					verbatim = true
				}
			}
		}
		_, merr := os.Stat(marker)
		executed := merr == nil
		if b.CompileDir != "" && strings.HasPrefix(b.CompileDir, "/tmp/") {
			os.RemoveAll(b.CompileDir)
		}
		tr.Emit(map[string]any{"ev": "Reset", "cls": cls})
		tr.Emit(map[string]any{"ev": "Build", "cls": cls, "res": map[string]any{"ok": ok && pan == "", "verbatim": verbatim, "executed": executed}})
		sum.Counters["builds"]++
		sum.Samples = append(sum.Samples, map[string]any{"service_name": name, "build_ok": ok, "verbatim_in_argv": verbatim, "something_else_ran": executed})
		sum.Behaviours++
	}
}

func init() {
	Modules["config"] = func(behs [][]Step, tr *Trace, env Env, sum *Summary) { RunConfig(behs, tr, env, sum) }
}
