package drive

import (
	"encoding/json"
	"fmt"
	"strconv"
	"strings"
	"time"

	"Havoc/pkg/packager"

	"vcheck/refdemon"
	"vcheck/world"
)

// ---- Stall (C11): an operator connection that stays open but stops reading ----

func RunStall(behs [][]Step, tr *Trace, env Env, sum *Summary) {
	pad := strings.Repeat("x", 3<<20) // larger than any loopback socket buffer pair will take from a peer that does not read
	for bi, beh := range behs {
		func() {
			w, err := world.New(env.Scratch, world.Options{Users: map[string]string{"neo": "pw-neo", "trinity": "pw-trinity", "morpheus": "pw-morpheus"}})
			must(err)
			defer w.Close()
			ops := w.StartOps()
			defer ops.Close()
			cl := map[string]*world.OpClient{}
			chatsOf := func(c string) []int {
				out := []int{}
				for _, f := range cl[c].Frames() {
					var pk packager.Package
					if json.Unmarshal([]byte(f), &pk) != nil {
						continue
					}
					if pk.Head.Event == packager.Type.Chat.Type && pk.Body.SubEvent == packager.Type.Chat.NewMessage {
						if m, _ := pk.Body.Info["Message"].(string); strings.HasPrefix(m, "chat") {
							n, _ := strconv.Atoi(strings.SplitN(m[4:], " ", 2)[0])
							out = append(out, n)
						}
					}
				}
				return out
			}
			for _, c := range []string{"c1", "c2", "c3"} {
				oc, err := ops.Dial()
				must(err)
				cl[c] = oc
				oc.Send(authMessage(c, "good"))
				ok := false
				for i := 0; i < 1000 && !ok; i++ {
					for _, f := range oc.Frames() {
						if strings.Contains(f, fmt.Sprintf(`"SubEvent":%d`, packager.Type.InitConnection.Success)) {
							ok = true
						}
					}
					time.Sleep(5 * time.Millisecond)
				}
				if !ok {
					panic("harness-error: operator " + c + " could not authenticate")
				}
			}
			tr.Emit(map[string]any{"ev": "Reset"})
			stalled := map[string]bool{}
			sent := 0
			for si, st := range beh {
				op, c := st.Str("op"), st.Str("c")
				t0 := time.Now()
				agentOK := true
				switch op {
				case "Stall":
					cl[c].Stall()
					stalled[c] = true
				case "Chat":
					sent++
					msg := fmt.Sprintf("chat%d", sent)
					if big, _ := st["big"].(bool); big {
						msg += " " + pad
					}
					b, _ := json.Marshal(map[string]any{"Head": map[string]any{"Event": packager.Type.Chat.Type, "User": opUsers[c][0]},
						"Body": map[string]any{"SubEvent": packager.Type.Chat.NewMessage, "Info": map[string]any{"User": opUsers[c][0], "Message": msg}}})
					go cl[c].Send(string(b)) // the sender must not block the harness either
					// every operator that still reads gets it: wait for that, up to the bound
					deadline := time.Now().Add(45 * time.Second)
					for time.Now().Before(deadline) {
						all := true
						for _, d := range []string{"c1", "c2", "c3"} {
							if !stalled[d] && len(chatsOf(d)) < sent {
								all = false
							}
						}
						if all {
							break
						}
						time.Sleep(20 * time.Millisecond)
					}
				case "AgentRequest":
					id := uint32(0x6100_0000) + uint32(bi)<<8 + uint32(si)
					r := w.RequestWith(refdemon.Register(id, world.KeysFor(env.Seed, si+1, false), refdemon.DefaultMeta("st")), 45*time.Second)
					agentOK = !r.Timeout && r.Panic == "" && r.Status == 200
					if !agentOK {
						sum.Incidents = append(sum.Incidents, Incident{Behaviour: bi, Step: si, Kind: "hang", Site: "agent registration while an operator connection is stalled", Detail: fmt.Sprintf("timeout=%v status=%d %s", r.Timeout, r.Status, firstLines(r.Panic, 8))})
					}
				}
				got := map[string]any{}
				live := []string{}
				for _, d := range []string{"c1", "c2", "c3"} {
					got[d] = chatsOf(d)
					if !stalled[d] {
						live = append(live, d)
					}
				}
				tr.Emit(map[string]any{"ev": "Step", "o": st, "obs": map[string]any{"got": got, "live": live, "agent_ok": agentOK, "sent": sent, "ms": time.Since(t0).Milliseconds()}})
				sum.Counters["op."+op]++
			}
			for _, p := range ops.TakePanics() {
				sum.Incidents = append(sum.Incidents, Incident{Behaviour: bi, Kind: "panic", Site: "operator handler", Detail: firstLines(p, 12)})
			}
			if bi < 1 {
				sum.Samples = append(sum.Samples, beh)
			}
		}()
		sum.Behaviours++
	}
}

func init() {
	Modules["stall"] = func(behs [][]Step, tr *Trace, env Env, sum *Summary) { RunStall(behs, tr, env, sum) }
}
