// Package drive holds one executor per specification module: it turns the
// abstract steps of a TLC-generated behaviour into calls on the real
// teamserver and records what the code did as ndjson events for TLC.
package drive

import (
	"bufio"
	"encoding/json"
	"fmt"
	"os"
)

// Step is one entry of a behaviour's history variable.
type Step map[string]any

func (s Step) Str(k string) string {
	v, _ := s[k].(string)
	return v
}
func (s Step) Int(k string) int {
	switch v := s[k].(type) {
	case float64:
		return int(v)
	case int:
		return v
	case json.Number:
		n, _ := v.Int64()
		return int(n)
	}
	return 0
}

// Behaviours file: JSON array of arrays of steps.
func LoadBehaviours(path string) ([][]Step, error) {
	b, err := os.ReadFile(path)
	if err != nil {
		return nil, err
	}
	var out [][]Step
	if err := json.Unmarshal(b, &out); err != nil {
		return nil, err
	}
	return out, nil
}

// Trace writes ndjson events.
type Trace struct {
	f *os.File
	w *bufio.Writer
	N int
}

func NewTrace(path string) (*Trace, error) {
	f, err := os.Create(path)
	if err != nil {
		return nil, err
	}
	return &Trace{f: f, w: bufio.NewWriterSize(f, 1<<20)}, nil
}

func (t *Trace) Emit(ev map[string]any) {
	b, err := json.Marshal(ev)
	if err != nil {
		panic(err)
	}
	t.w.Write(b)
	t.w.WriteByte('\n')
	t.N++
}

func (t *Trace) Close() error {
	if err := t.w.Flush(); err != nil {
		return err
	}
	return t.f.Close()
}

// Incident is something the harness itself observed that the property
// forbids outright (panic, hang, held lock); the orchestrator classifies it.
type Incident struct {
	Behaviour int    `json:"behaviour"`
	Step      int    `json:"step"`
	Kind      string `json:"kind"` // panic | hang | lock-held | harness-error
	Site      string `json:"site"`
	Detail    string `json:"detail"`
}

// Summary is what a driver run reports back (JSON on stdout's last line / file).
type Summary struct {
	Module     string         `json:"module"`
	Behaviours int            `json:"behaviours"`
	Events     int            `json:"events"`
	Incidents  []Incident     `json:"incidents"`
	Counters   map[string]int `json:"counters"`
	Samples    []any          `json:"samples"`
}

func WriteSummary(path string, s *Summary) error {
	b, err := json.MarshalIndent(s, "", " ")
	if err != nil {
		return err
	}
	return os.WriteFile(path, b, 0o644)
}

func must(err error) {
	if err != nil {
		panic(fmt.Sprintf("harness-error: %v", err))
	}
}

// Env carries the run parameters to a module driver.
type Env struct {
	Scratch string
	Seed    int64
	Mode    string
	N       int
	Shard   int
	Shards  int
}

// Modules is the registry of drivers.
var Modules = map[string]func(behs [][]Step, tr *Trace, env Env, sum *Summary){}
