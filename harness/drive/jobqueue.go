package drive

import (
	"bytes"
	"encoding/base64"
	"encoding/binary"
	"fmt"
	"math/rand"

	"Havoc/pkg/agent"
	"Havoc/pkg/packager"

	"vcheck/refdemon"
	"vcheck/world"
)

// ---- JobQueue (C04): sequential behaviours ----

type jqJob struct {
	ID   int    `json:"id"`
	Sz   int    `json:"sz"`
	Kind string `json:"kind"`
	File int    `json:"file"`
	Len  int    `json:"len"`
}

type jqState struct {
	w       *world.World
	seed    int64
	agents  map[string]uint32 // symbol -> real id
	parents map[string]uint32 // pivot mode: symbol -> the id of the agent it sits behind (its tasks wait in that agent's queue, wrapped)
	nextID  int
	nextReq uint32
	reqID   map[uint32]int // real request id -> abstract job id
	fileSym map[uint32]int // real memfile id -> file symbol
	nextFil int
	uploads map[uint32][]byte // use-job request id -> content
	deliv   map[int]bool      // abstract ids already delivered
	chunks  map[string][]chunkSeen
	useReq  map[uint32]bool
	opReq   map[uint32]bool
	content map[int][]byte
	b64     map[int]string
}

type chunkSeen struct {
	file  uint32
	total uint64
	data  []byte
}

// countedSize re-implements the size rule the property talks about ("their
// data"): the encoded length of a job's arguments.
func countedSize(j agent.Job) int {
	n := 0
	for _, d := range j.Data {
		switch v := d.(type) {
		case int, int32, uint32, bool:
			n += 4
		case int64, uint64:
			n += 8
		case int16, uint16:
			n += 2
		case byte:
			n++
		case string:
			n += 4 + len(v)
		case []byte:
			n += 4 + len(v)
		}
	}
	return n
}

const uploadName = "C:\\t.txt"

func (s *jqState) fileContent(size int) ([]byte, string) {
	if c, ok := s.content[size]; ok {
		return c, s.b64[size]
	}
	c := make([]byte, size)
	r := rand.New(rand.NewSource(s.seed ^ int64(size)*7919))
	r.Read(c)
	s.content[size] = c
	s.b64[size] = base64.StdEncoding.EncodeToString(c)
	return c, s.b64[size]
}

var rawBacking []byte

func rawData(n int) []byte {
	if len(rawBacking) < n {
		rawBacking = make([]byte, n)
		for i := range rawBacking {
			rawBacking[i] = byte(i*31 + 7)
		}
	}
	return rawBacking[:n]
}

func (s *jqState) project() map[string]any {
	q := map[string]any{}
	for sym, id := range s.agents {
		if p, ok := s.parents[sym]; ok {
			id = p
		}
		a := s.w.Agent(id)
		list := []jqJob{}
		if a != nil {
			for _, j := range a.JobQueue {
				list = append(list, s.describe(j))
			}
		}
		q[sym] = list
	}
	return map[string]any{"queue": q}
}

// reqOf: the request id a queued job stands for; a COMMAND_PIVOT wrapper carries the wrapped task (command, request id,
// length, body) as its last argument
func reqOf(j agent.Job) uint32 {
	if j.Command == agent.COMMAND_PIVOT && len(j.Data) == 3 {
		// the last argument is what the pivot writes to the pipe: [agent id][length][command, request id, length, body]
		if p, ok := j.Data[2].([]byte); ok && len(p) >= 16 {
			return binary.LittleEndian.Uint32(p[12:16])
		}
	}
	return j.RequestID
}

func (s *jqState) describe(j agent.Job) jqJob {
	wrapped := j.Command == agent.COMMAND_PIVOT
	j.RequestID = reqOf(j)
	id, ok := s.reqID[j.RequestID]
	if !ok {
		id = s.nextID
		s.nextID++
		s.reqID[j.RequestID] = id
	}
	if wrapped {
		d := jqJob{ID: id, Sz: countedSize(j), Kind: "raw"}
		if s.opReq[j.RequestID] {
			d.Kind = "op"
		}
		return d
	}
	d := jqJob{ID: id, Sz: countedSize(j), Kind: "raw"}
	switch {
	case j.Command == agent.COMMAND_MEM_FILE:
		d.Kind = "chunk"
		if len(j.Data) == 3 {
			if fid, ok := j.Data[0].(uint32); ok {
				d.File = s.fileOf(fid)
			}
			if b, ok := j.Data[2].([]byte); ok {
				d.Len = len(b)
			}
		}
	case s.useReq[j.RequestID]:
		d.Kind = "use"
		if len(j.Data) == 3 {
			if fid, ok := j.Data[2].(uint32); ok {
				d.File = s.fileOf(fid)
			}
		}
		d.Len = len(s.uploads[j.RequestID])
	case s.opReq[j.RequestID]:
		d.Kind = "op"
	}
	return d
}

func (s *jqState) fileOf(real uint32) int {
	if v, ok := s.fileSym[real]; ok {
		return v
	}
	s.fileSym[real] = s.nextFil
	s.nextFil++
	return s.fileSym[real]
}

func (s *jqState) input(nameID string, info map[string]any) {
	info["DemonID"] = nameID
	pk := packager.Package{}
	pk.Head.Event = packager.Type.Session.Type
	pk.Head.User = "neo"
	pk.Body.SubEvent = packager.Type.Session.Input
	pk.Body.Info = info
	s.w.TS.DispatchEvent(pk)
}

// RunJobQueue replays behaviours of JobQueue.tla on a fresh teamserver each.
func RunJobQueue(behs [][]Step, tr *Trace, scratch string, seed int64, sum *Summary, pivot bool) {
	for bi, beh := range behs {
		func() {
			w, err := world.New(scratch, world.Options{})
			must(err)
			defer w.Close()
			s := &jqState{w: w, seed: seed, agents: map[string]uint32{}, nextID: 1, nextReq: 0x1000, reqID: map[uint32]int{},
				fileSym: map[uint32]int{}, nextFil: 1, uploads: map[uint32][]byte{}, deliv: map[int]bool{}, chunks: map[string][]chunkSeen{},
				useReq: map[uint32]bool{}, opReq: map[uint32]bool{}, content: map[int][]byte{}, b64: map[int]string{}, parents: map[string]uint32{}}
			rng := rand.New(rand.NewSource(seed + int64(bi)*1000003))
			for i, sym := range []string{"a1", "a2"} {
				id := uint32(rng.Int63n(0x7ffffff0)) + 1
				k := world.KeysFor(seed+int64(bi), i, false)
				r := w.Register(id, k, refdemon.DefaultMeta(sym))
				if r.Status != 200 {
					panic(fmt.Sprintf("harness-error: registration of %s failed: %+v", sym, r))
				}
				s.agents[sym] = id
				if pivot {
					// the agent of the behaviour sits behind this one (SMB pivot): its tasks wait, wrapped, in this one's queue
					cid := id + 0x1000
					ck := world.KeysFor(seed+int64(bi), i+10, false)
					b := &refdemon.Buf{}
					b.I32(refdemon.PivotSmbConnect).I32(1).Bytes(refdemon.Register(cid, ck, refdemon.DefaultMeta(sym+"c")))
					w.Request(refdemon.Packages(id, k, []refdemon.Sub{{Cmd: refdemon.CmdPivot, Body: b.B}}))
					if c := w.Agent(cid); c == nil || c.Pivots.Parent == nil {
						panic("harness-error: pivot setup failed")
					}
					s.parents[sym], s.agents[sym] = id, cid
					w.Keys[cid] = ck
				}
			}
			tr.Emit(map[string]any{"ev": "Reset"})
			steps := append([]Step{}, beh...)
			// drain: ask until no-job for every agent (these are ordinary CheckIn actions of the model)
			drained := map[string]bool{}
			for si := 0; si < len(steps) || len(drained) < 2; si++ {
				var st Step
				if si < len(steps) {
					st = steps[si]
				} else {
					var sym string
					for _, c := range []string{"a1", "a2"} {
						if !drained[c] {
							sym = c
							break
						}
					}
					st = Step{"op": "CheckIn", "a": sym, "arg": float64(1), "drain": true}
				}
				ev := s.step(st, bi, si, sum)
				tr.Emit(ev)
				if st["drain"] == true {
					res := ev["res"].(map[string]any)
					if res["kind"] != "jobs" || si > len(steps)+40 {
						drained[st.Str("a")] = true
					}
				}
			}
			if bi < 3 {
				sum.Samples = append(sum.Samples, beh)
			}
		}()
		sum.Behaviours++
	}
}

func (s *jqState) step(st Step, bi, si int, sum *Summary) map[string]any {
	a := st.Str("a")
	op := st.Str("op")
	arg := st.Int("arg")
	id := s.agents[a]
	ag := s.w.Agent(id)
	res := map[string]any{"kind": "none", "batch": []jqJob{}, "new": []int{}, "file_ok": true, "unknown": 0, "dup": 0}
	sum.Counters["op."+op]++
	assign := func(req uint32) {
		// ids follow queue order: unseen jobs ahead of the expected one first
		s.project()
		if _, ok := s.reqID[req]; !ok {
			s.reqID[req] = s.nextID
			s.nextID++
		}
		res["new"] = []int{s.reqID[req]}
	}
	switch op {
	case "EnqOp":
		req := s.nextReq
		s.nextReq++
		s.opReq[req] = true
		s.input(ag.NameID, map[string]any{"CommandID": "11", "TaskID": fmt.Sprintf("%08X", req), "CommandLine": "sleep 5 10", "Arguments": "5;10"})
		assign(req)
	case "EnqRaw":
		req := s.nextReq
		s.nextReq++
		ag.AddJobToQueue(agent.Job{Command: agent.COMMAND_SOCKET, RequestID: req,
			Data: []any{agent.SOCKET_COMMAND_WRITE, 7, rawData(arg - 12)}})
		assign(req)
	case "Upload":
		req := s.nextReq
		s.nextReq++
		s.useReq[req] = true
		c, b64 := s.fileContent(arg)
		s.uploads[req] = c
		s.input(ag.NameID, map[string]any{"CommandID": "15", "SubCommand": "upload", "TaskID": fmt.Sprintf("%08X", req), "CommandLine": "upload",
			"Arguments": base64.StdEncoding.EncodeToString([]byte(uploadName)) + ";" + b64})
		assign(req)
	case "Clear":
		s.input(ag.NameID, map[string]any{"CommandID": "Teamserver", "Command": "task::clear", "TaskID": "0000AAAA", "CommandLine": "task clear"})
	case "CheckIn":
		if p, ok := s.parents[a]; ok {
			id = p // the agent in front checks in and is handed the wrapped tasks
		}
		k := s.w.Keys[id]
		var body []byte
		if arg == 1 {
			body = refdemon.CheckIn(id, k)
		} else {
			b := &refdemon.Buf{}
			b.Str("stray output")
			body = refdemon.Packages(id, k, []refdemon.Sub{{Cmd: refdemon.CmdOutput, Req: 0xEEEE0001, Body: b.B}})
		}
		r := s.w.Request(body)
		if r.Panic != "" || r.Timeout || r.Status != 200 {
			kind := "bad-status"
			if r.Panic != "" {
				kind = "panic"
			} else if r.Timeout {
				kind = "hang"
			}
			sum.Incidents = append(sum.Incidents, Incident{Behaviour: bi, Step: si, Kind: kind, Site: "CheckIn", Detail: fmt.Sprintf("status=%d %s", r.Status, firstLines(r.Panic, 12))})
			res["kind"] = "error"
			break
		}
		tasks, err := refdemon.ParseTasks(r.Body, k)
		if err != nil {
			res["kind"] = "error"
			res["unknown"] = 1
			sum.Incidents = append(sum.Incidents, Incident{Behaviour: bi, Step: si, Kind: "undecodable-reply", Site: "CheckIn", Detail: err.Error()})
			break
		}
		if len(tasks) == 1 && tasks[0].Cmd == refdemon.CmdNoJob && len(tasks[0].Raw) == 0 {
			res["kind"] = "nojob"
			break
		}
		res["kind"] = "jobs"
		batch := []jqJob{}
		unknown, dup := 0, 0
		fileOK := true
		for _, t := range tasks {
			j := jqJob{Sz: len(t.Body), Kind: "raw"}
			if t.Cmd == refdemon.CmdPivot { // [SMB_COMMAND][agent behind][wrapped task]: identified by the wrapped task's request id
				rd := &refdemon.Rd{B: t.Body}
				rd.I32()
				rd.I32()
				if p := rd.Bytes(); rd.Err == nil && len(p) >= 20 {
					t.Req = binary.LittleEndian.Uint32(p[12:16])
					t.Cmd = binary.LittleEndian.Uint32(p[8:12])
					// the wrapped task's body is under the key of the agent behind
					if n := int(binary.LittleEndian.Uint32(p[16:20])); 20+n <= len(p) {
						t.Body = refdemon.CTR(s.w.Keys[s.agents[a]], p[20:20+n])
					}
				}
			}
			aid, known := s.reqID[t.Req]
			j.ID = aid
			if !known {
				unknown++
				j.ID = -1
			} else {
				if s.deliv[aid] {
					dup++
				}
				s.deliv[aid] = true
			}
			switch {
			case t.Cmd == refdemon.CmdMemFile:
				j.Kind = "chunk"
				rd := &refdemon.Rd{B: t.Body}
				fid := rd.I32()
				total := rd.I64()
				data := rd.Bytes()
				if rd.Err != nil || len(rd.B) != 0 {
					fileOK = false
				}
				j.File = s.fileOf(fid)
				j.Len = len(data)
				s.chunks[a] = append(s.chunks[a], chunkSeen{file: fid, total: total, data: append([]byte{}, data...)})
			case s.useReq[t.Req]:
				j.Kind = "use"
				rd := &refdemon.Rd{B: t.Body}
				sub := rd.I32()
				name := rd.Bytes()
				fid := rd.I32()
				want := s.uploads[t.Req]
				j.File = s.fileOf(fid)
				j.Len = len(want)
				var cat []byte
				for _, c := range s.chunks[a] {
					if c.file == fid {
						if c.total != uint64(len(want)) {
							fileOK = false
						}
						cat = append(cat, c.data...)
					}
				}
				wantName := append(refdemon.UTF16LE(uploadName, true), 0, 0)
				if rd.Err != nil || len(rd.B) != 0 || sub != 3 || t.Cmd != refdemon.CmdFS || !bytes.Equal(cat, want) || !bytes.Equal(name, wantName) {
					fileOK = false
				}
			case s.opReq[t.Req]:
				j.Kind = "op"
				if t.Cmd != refdemon.CmdSleep || len(t.Body) != 8 || binary.LittleEndian.Uint32(t.Body) != 5 || binary.LittleEndian.Uint32(t.Body[4:]) != 10 {
					fileOK = false
				}
			}
			batch = append(batch, j)
		}
		res["batch"] = batch
		res["unknown"] = unknown
		res["dup"] = dup
		res["file_ok"] = fileOK
		sum.Counters["delivered"] += len(batch)
		if len(batch) > 1 {
			sum.Counters["multi-task-batches"]++
		}
	default:
		panic("harness-error: unknown op " + op)
	}
	return map[string]any{"ev": op, "a": a, "arg": arg, "res": res, "st": s.project()}
}

func firstLines(s string, n int) string {
	out := ""
	c := 0
	for _, ch := range s {
		out += string(ch)
		if ch == '\n' {
			c++
			if c >= n {
				break
			}
		}
	}
	return out
}

func init() {
	Modules["jobqueue"] = func(behs [][]Step, tr *Trace, env Env, sum *Summary) {
		RunJobQueue(behs, tr, env.Scratch, env.Seed, sum, env.Mode == "pivot")
	}
}
