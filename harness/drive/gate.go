package drive

import (
	"fmt"
	"math/rand"
	"sort"
	"strings"

	"Havoc/pkg/agent"
	"Havoc/pkg/packager"

	"vcheck/refdemon"
	"vcheck/world"
)

// ---- Gate (C05): only callbacks to outstanding tasks have any effect ----

type gateState struct {
	w      *world.World
	agents map[string]uint32
	real   map[int]uint32 // abstract request id -> real request id
	abs    map[uint32]int
	n      int
}

const gateFileID = 0x51f1

// callback builds the sub-package for a callback class.
func gateCallback(c string, req uint32, n int) refdemon.Sub {
	b := &refdemon.Buf{}
	switch c {
	case "sleep":
		b.I32(uint32(100 + n)).I32(uint32(n % 50))
		return refdemon.Sub{Cmd: refdemon.CmdSleep, Req: req, Body: b.B}
	case "output":
		b.Str(fmt.Sprintf("output line %d", n))
		return refdemon.Sub{Cmd: refdemon.CmdOutput, Req: req, Body: b.B}
	case "beacon":
		b.I32(0).Str(fmt.Sprintf("beacon log %d", n))
		return refdemon.Sub{Cmd: refdemon.CmdBeacon, Req: req, Body: b.B}
	case "dlopen":
		b.I32(2).I32(0).I32(gateFileID).I64(1234).WStr(fmt.Sprintf("C:\\Users\\x\\file%d.bin", n))
		return refdemon.Sub{Cmd: refdemon.CmdFS, Req: req, Body: b.B}
	case "dlwrite":
		b.I32(2).I32(1).I32(gateFileID).Bytes([]byte(fmt.Sprintf("chunk-%d;", n)))
		return refdemon.Sub{Cmd: refdemon.CmdFS, Req: req, Body: b.B}
	case "dlclose":
		b.I32(2).I32(2).I32(gateFileID).I32(0)
		return refdemon.Sub{Cmd: refdemon.CmdFS, Req: req, Body: b.B}
	case "socket":
		b.I32(0x13).I32(0x7777).I32(2) // SOCKET_COMMAND_CLOSE, unknown id, reverse proxy
		return refdemon.Sub{Cmd: refdemon.CmdSocket, Req: req, Body: b.B}
	case "pivotlist":
		b.I32(refdemon.PivotList)
		return refdemon.Sub{Cmd: refdemon.CmdPivot, Req: req, Body: b.B}
	case "joblist":
		b.I32(1)
		return refdemon.Sub{Cmd: refdemon.CmdJob, Req: req, Body: b.B}
	case "exit_malformed":
		return refdemon.Sub{Cmd: refdemon.CmdExit, Req: req, Body: nil}
	}
	panic("harness-error: unknown callback class " + c)
}

func (s *gateState) project() map[string]any {
	tasks := map[string]any{}
	open := map[string]any{}
	for sym, id := range s.agents {
		a := s.w.Agent(id)
		ids := []int{}
		if a != nil {
			for _, t := range a.Tasks {
				if v, ok := s.abs[t.RequestID]; ok {
					ids = append(ids, v)
				} else {
					ids = append(ids, -int(t.RequestID%100000)-1)
				}
			}
			open[sym] = len(a.Downloads) > 0
		}
		sort.Ints(ids)
		tasks[sym] = ids
	}
	return map[string]any{"tasks": tasks, "open": open}
}

func RunGate(behs [][]Step, tr *Trace, env Env, sum *Summary) {
	sendLogs := strings.Contains(env.Mode, "logs")
	pivot := strings.Contains(env.Mode, "pivot")
	for bi, beh := range behs {
		func() {
			w, err := world.New(env.Scratch, world.Options{SendLogs: sendLogs})
			must(err)
			defer w.Close()
			s := &gateState{w: w, agents: map[string]uint32{}, real: map[int]uint32{}, abs: map[uint32]int{}}
			rng := rand.New(rand.NewSource(env.Seed + int64(bi)*1000003))
			for i, sym := range []string{"a1", "a2"} {
				id := uint32(rng.Int63n(0x7ffffff0)) + 1
				k := world.KeysFor(env.Seed+int64(bi), i, false)
				if pivot && sym == "a2" {
					// a2 sits behind a1 (SMB pivot): its registration arrives inside a1's connect callback
					b := &refdemon.Buf{}
					b.I32(refdemon.PivotSmbConnect).I32(1).Bytes(refdemon.Register(id, k, refdemon.DefaultMeta(sym)))
					a1 := s.agents["a1"]
					w.Request(refdemon.Packages(a1, w.Keys[a1], []refdemon.Sub{{Cmd: refdemon.CmdPivot, Body: b.B}}))
					if w.Agent(id) == nil || w.Agent(id).Pivots.Parent == nil {
						panic("harness-error: pivot setup failed")
					}
					w.Keys[id] = k
				} else {
					r := w.Register(id, k, refdemon.DefaultMeta(sym))
					if r.Status != 200 {
						panic(fmt.Sprintf("harness-error: registration failed: %+v", r))
					}
				}
				s.agents[sym] = id
			}
			for r := 1; r <= 8; r++ {
				v := rng.Uint32() | 0x10
				s.real[r] = v
				s.abs[v] = r
			}
			s.real[0], s.abs[0] = 0, 0 // the id of the teamserver's own relay jobs
			tr.Emit(map[string]any{"ev": "Reset"})
			for si, st := range beh {
				s.n++
				a, r, c := st.Str("a"), st.Int("r"), st.Str("c")
				id := s.agents[a]
				ag := w.Agent(id)
				res := map[string]any{"effect": false, "diff": []string{}}
				sum.Counters["op."+st.Str("op")]++
				switch st.Str("op") {
				case "Issue":
					pk := packager.Package{}
					pk.Head.Event = packager.Type.Session.Type
					pk.Head.User = "neo"
					pk.Body.SubEvent = packager.Type.Session.Input
					pk.Body.Info = map[string]any{"DemonID": ag.NameID, "CommandID": "11", "TaskID": fmt.Sprintf("%08X", s.real[r]), "CommandLine": "sleep 1 1", "Arguments": "1;1"}
					w.TS.DispatchEvent(pk)
				case "RelayJob":
					// as the SOCKS / port-forward relay goroutines do it
					ag.AddJobToQueue(agent.Job{Command: agent.COMMAND_SOCKET, Data: []any{agent.SOCKET_COMMAND_WRITE, 0x77, []byte("relayed")}})
				case "HandOut":
					rr := w.Request(refdemon.CheckIn(id, w.Keys[id]))
					if rr.Panic != "" || rr.Timeout {
						sum.Incidents = append(sum.Incidents, Incident{Behaviour: bi, Step: si, Kind: map[bool]string{true: "hang", false: "panic"}[rr.Timeout], Site: "HandOut", Detail: firstLines(rr.Panic, 14)})
					}
				case "Callback":
					before := w.Snapshot()
					rr := w.Request(refdemon.Packages(id, w.Keys[id], []refdemon.Sub{gateCallback(c, s.real[r], s.n)}))
					if rr.Panic != "" || rr.Timeout {
						kind := "panic"
						if rr.Timeout {
							kind = "hang"
						}
						sum.Incidents = append(sum.Incidents, Incident{Behaviour: bi, Step: si, Kind: kind, Site: "Callback:" + c, Detail: firstLines(rr.Panic, 14)})
					}
					d := world.Diff(before, w.Snapshot(), false)
					res["effect"] = len(d) > 0
					if len(d) > 4 {
						d = d[:4]
					}
					if d == nil {
						d = []string{}
					}
					res["diff"] = d
					if len(d) > 0 {
						sum.Counters["effects"]++
					}
				}
				tr.Emit(map[string]any{"ev": st.Str("op"), "a": a, "r": r, "c": c, "res": res, "st": s.project()})
			}
			if bi < 2 {
				sum.Samples = append(sum.Samples, beh)
			}
		}()
		sum.Behaviours++
	}
}

func init() {
	Modules["gate"] = func(behs [][]Step, tr *Trace, env Env, sum *Summary) { RunGate(behs, tr, env, sum) }
}
