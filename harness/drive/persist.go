package drive

import (
	"bytes"
	"encoding/json"
	"fmt"
	"io"
	"math/rand"
	"os"
	"path/filepath"
	"sort"
	"strconv"
	"strings"
	"time"

	"Havoc/pkg/agent"
	"Havoc/pkg/db"
	"Havoc/pkg/handlers"
	"Havoc/pkg/packager"
	"Havoc/pkg/verifhook"

	"vcheck/refdemon"
	"vcheck/world"
)

// ---- Persist (C10): what reopening the database shows at every kill point ----

type persState struct {
	w     *world.World
	ids   map[string]uint32
	sym   map[uint32]string
	keys  map[string]refdemon.Keys
	metas map[string]refdemon.Meta
	cur   map[string]string        // agent symbol -> meta symbol last sent
	alt   map[string]refdemon.Keys // key material of a refresh that is in flight
	req   uint32
	tr    *Trace
	n     int
	extIP string
}

var persStrings = []string{"WIN-HOST", "007", "1e3", " 5 ", "", "hôst-中", "0x10", "12.50", "-0", "NULL"}

func persMeta(rng *rand.Rand, tag string) refdemon.Meta {
	m := mkMeta(rng, tag)
	pick := func() string { return persStrings[rng.Intn(len(persStrings))] }
	m.Hostname, m.Username, m.Domain, m.InternalIP = pick(), pick(), pick(), pick()
	m.ProcessPath = "C:\\bin\\" + pick()
	if rng.Intn(2) == 0 {
		m.ProcessPath = pick()
	}
	return m
}

func copyFile(src, dst string) error {
	in, err := os.Open(src)
	if err != nil {
		return err
	}
	defer in.Close()
	out, err := os.Create(dst)
	if err != nil {
		return err
	}
	_, err = io.Copy(out, in)
	out.Close()
	return err
}

// storedMatches compares what AgentAll restored with what the agent sent (the persisted subset).
func storedMatches(a *agent.Agent, m refdemon.Meta, k refdemon.Keys, extIP string) string {
	i := a.Info
	proc := m.ProcessPath
	if j := strings.LastIndex(proc, "\\"); j >= 0 {
		proc = proc[j+1:]
	}
	switch {
	case !bytes.Equal(a.Encryption.AESKey, k.Key) || !bytes.Equal(a.Encryption.AESIv, k.IV):
		return "key"
	case i.Hostname != m.Hostname:
		return "Hostname"
	case i.Username != m.Username:
		return "Username"
	case i.DomainName != m.Domain:
		return "DomainName"
	case i.InternalIP != m.InternalIP:
		return "InternalIP"
	case i.ProcessName != proc:
		return "ProcessName"
	case uint32(i.ProcessPID) != m.PID:
		return "ProcessPID"
	case uint32(i.ProcessTID) != m.TID:
		return "ProcessTID"
	case uint32(i.ProcessPPID) != m.PPID:
		return "ProcessPPID"
	case uint64(i.BaseAddress) != m.Base:
		return "BaseAddress"
	case uint32(i.SleepDelay) != m.Sleep:
		return "SleepDelay"
	case uint32(i.SleepJitter) != m.Jitter:
		return "SleepJitter"
	case uint64(i.KillDate) != m.KillDate:
		return "KillDate"
	case uint32(i.WorkingHours) != m.WorkingHours:
		return "WorkingHours"
	case (i.Elevated == "true") != (m.Elevated == 1):
		return "Elevated"
	}
	return ""
}

// restoreView reopens a copy of the database with the real reader calls Start() uses.
func (s *persState) restoreView() map[string]any {
	s.n++
	src := filepath.Join(s.w.Dir, "data", "ts.db")
	dst := filepath.Join(s.w.Dir, fmt.Sprintf("crash%d.db", s.n))
	must(copyFile(src, dst))
	for _, suf := range []string{"-journal", "-wal", "-shm"} {
		if _, err := os.Stat(src + suf); err == nil {
			copyFile(src+suf, dst+suf)
		}
	}
	defer func() {
		for _, suf := range []string{"", "-journal", "-wal", "-shm"} {
			os.Remove(dst + suf)
		}
	}()
	d, err := db.DatabaseNew(dst)
	must(err)
	symOf := func(id int) string {
		if v, ok := s.sym[uint32(id)]; ok && id >= 0 && id <= 0xFFFFFFFF {
			return v
		}
		return fmt.Sprintf("?%x", id)
	}
	restored := []map[string]any{}
	links := [][]string{}
	for _, a := range d.AgentAll() {
		v, _ := strconv.ParseInt(a.NameID, 16, 64)
		sy := symOf(int(v))
		meta := "?"
		for _, ms := range []string{"m1", "m2"} {
			diff := storedMatches(a, s.metas[ms], s.keys[sy], s.extIP)
			if ak, ok := s.alt[sy]; ok && diff == "key" {
				diff = storedMatches(a, s.metas[ms], ak, s.extIP)
			}
			if diff == "" {
				meta = ms
			} else if meta == "?" && s.cur[sy] == ms {
				meta = "?" + ms + ":" + diff
			}
		}
		restored = append(restored, map[string]any{"id": sy, "meta": meta})
		if p, err := d.ParentOf(int(v)); err == nil {
			links = append(links, []string{symOf(p), sy, "parentof"})
		}
		for _, c := range d.LinksOf(int(v)) {
			links = append(links, []string{sy, symOf(c), "linksof"})
		}
	}
	lsn := []string{}
	for _, l := range d.ListenerAll() {
		if l["Name"] == "ext" {
			continue
		}
		var cfg map[string]any
		ok := json.Unmarshal([]byte(l["Config"]), &cfg) == nil && cfg["Endpoint"] == l["Name"]+"-ep" && l["Protocol"] == handlers.AGENT_EXTERNAL
		if ok {
			lsn = append(lsn, l["Name"])
		} else {
			lsn = append(lsn, "?"+l["Name"])
		}
	}
	sort.Strings(lsn)
	// independent SQL view of all rows (also the inactive ones)
	rows := []map[string]any{}
	rawLinks := [][]string{}
	if c, err := s.w.DBConnAt(dst); err == nil {
		if q, err := c.Query(`SELECT AgentID, Active FROM TS_Agents`); err == nil {
			for q.Next() {
				var id, act int64
				if q.Scan(&id, &act) == nil {
					rows = append(rows, map[string]any{"id": symOf(int(id)), "active": act == 1})
				}
			}
			q.Close()
		}
		if q, err := c.Query(`SELECT ParentAgentID, LinkAgentID FROM TS_Links`); err == nil {
			for q.Next() {
				var p, ch int64
				if q.Scan(&p, &ch) == nil {
					rawLinks = append(rawLinks, []string{symOf(int(p)), symOf(int(ch))})
				}
			}
			q.Close()
		}
		c.Close()
	}
	return map[string]any{"R": restored, "rows": rows, "links": rawLinks, "views": links, "lsn": lsn}
}

func RunPersist(behs [][]Step, tr *Trace, env Env, sum *Summary) {
	for bi, beh := range behs {
		func() {
			w, err := world.New(env.Scratch, world.Options{})
			must(err)
			defer w.Close()
			defer func() { verifhook.Hook = nil }()
			rng := rand.New(rand.NewSource(env.Seed + int64(bi)*1000003))
			s := &persState{w: w, ids: map[string]uint32{}, sym: map[uint32]string{}, keys: map[string]refdemon.Keys{}, metas: map[string]refdemon.Meta{}, cur: map[string]string{}, alt: map[string]refdemon.Keys{}, req: 0xA000, tr: tr, extIP: "192.0.2.10"}
			for i, sy := range []string{"a1", "a2", "a3"} {
				id := uint32(rng.Int63n(0x7ffffff0)) + 2
				if sy == "a3" && rng.Intn(2) == 0 {
					id |= 0x80000000 // ids with the top bit set are part of the quantifier
				}
				s.ids[sy], s.sym[id] = id, sy
				s.keys[sy] = world.KeysFor(env.Seed+int64(bi), i, false)
			}
			s.metas["m1"], s.metas["m2"] = persMeta(rng, "A"), persMeta(rng, "B")
			tr.Emit(map[string]any{"ev": "Reset"})
			verifhook.Hook = func(name string) {
				if strings.HasPrefix(name, "db.exec.") {
					sum.Counters["kill-points"]++
					tr.Emit(map[string]any{"ev": "Stmt", "name": name[8:], "st": s.restoreView()})
				}
			}
			for si, st := range beh {
				op, a, b, m := st.Str("op"), st.Str("a"), st.Str("b"), st.Str("m")
				sum.Counters["op."+op]++
				tr.Emit(map[string]any{"ev": "Begin", "op": op, "a": a, "b": b, "m": m})
				var r world.Result
				connect := func(p, c, ms string) world.Result {
					inner := refdemon.Register(s.ids[c], s.keys[c], s.metas[ms])
					bb := &refdemon.Buf{}
					bb.I32(refdemon.PivotSmbConnect).I32(1).Bytes(inner)
					return w.RequestWith(refdemon.Packages(s.ids[p], s.keys[p], []refdemon.Sub{{Cmd: refdemon.CmdPivot, Body: bb.B}}), 10*time.Second)
				}
				switch op {
				case "Register":
					s.cur[a] = m
					r = w.Request(refdemon.Register(s.ids[a], s.keys[a], s.metas[m]))
				case "Update":
					s.cur[a] = m
					ag := w.Agent(s.ids[a])
					s.req++
					pk := packager.Package{}
					pk.Head.Event, pk.Head.User, pk.Body.SubEvent = packager.Type.Session.Type, "neo", packager.Type.Session.Input
					pk.Body.Info = map[string]any{"DemonID": ag.NameID, "CommandID": "100", "TaskID": fmt.Sprintf("%08X", s.req), "CommandLine": "checkin"}
					guarded(func() { w.TS.DispatchEvent(pk) }, 5*time.Second)
					// the refresh also carries fresh key material (an agent may re-key): it must be what a restart restores
					k := s.keys[a]
					nk := world.KeysFor(env.Seed+int64(bi)*31+int64(si), 40+si, false)
					cb := append(append(append([]byte{}, nk.Key...), nk.IV...), refdemon.MetaBody(s.ids[a], s.metas[m])...)
					s.alt[a] = nk
					r = w.Request(refdemon.Packages(s.ids[a], k, []refdemon.Sub{{Cmd: refdemon.CmdCheckin, Req: s.req, Body: cb}}))
					delete(s.alt, a)
					s.keys[a] = nk
				case "ConnectNew":
					s.cur[b] = m
					r = connect(a, b, m)
				case "Reparent":
					r = connect(a, b, s.cur[b])
				case "Disconnect":
					bb := &refdemon.Buf{}
					bb.I32(refdemon.PivotSmbDisconnect).I32(1).I32(s.ids[b])
					r = w.RequestWith(refdemon.Packages(s.ids[a], s.keys[a], []refdemon.Sub{{Cmd: refdemon.CmdPivot, Body: bb.B}}), 10*time.Second)
				case "Died":
					ag := w.Agent(s.ids[a])
					pk := packager.Package{}
					pk.Head.Event, pk.Head.User, pk.Body.SubEvent = packager.Type.Session.Type, "neo", packager.Type.Session.MarkAsDead
					pk.Body.Info = map[string]any{"AgentID": ag.NameID, "Marked": "Dead"}
					p, to := guarded(func() { w.TS.DispatchEvent(pk) }, 10*time.Second)
					r = world.Result{Status: 200, Panic: p, Timeout: to}
				case "AddListener":
					p, to := guarded(func() {
						w.TS.ListenerStart(handlers.LISTENER_EXTERNAL, handlers.ExternalConfig{Name: a, Endpoint: a + "-ep"})
					}, 10*time.Second)
					r = world.Result{Status: 200, Panic: p, Timeout: to}
				case "RemoveListener":
					p, to := guarded(func() { w.TS.ListenerRemove(a) }, 10*time.Second)
					r = world.Result{Status: 200, Panic: p, Timeout: to}
				}
				if r.Panic != "" || r.Timeout {
					sum.Incidents = append(sum.Incidents, Incident{Behaviour: bi, Step: si, Kind: map[bool]string{true: "hang", false: "panic"}[r.Timeout], Site: op, Detail: firstLines(r.Panic, 14)})
				}
				tr.Emit(map[string]any{"ev": "End", "op": op, "res": map[string]any{"ack": r.Status == 200}, "st": s.restoreView()})
			}
			verifhook.Hook = nil
			if bi < 2 {
				sum.Samples = append(sum.Samples, map[string]any{"ops": beh, "ids": fmt.Sprintf("%x", s.ids), "m1.Hostname": s.metas["m1"].Hostname, "m2.Hostname": s.metas["m2"].Hostname})
			}
		}()
		sum.Behaviours++
	}
}

func init() {
	Modules["persist"] = func(behs [][]Step, tr *Trace, env Env, sum *Summary) { RunPersist(behs, tr, env, sum) }
}
