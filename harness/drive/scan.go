package drive

import (
	"bytes"
	"fmt"
	"math/rand"
	"strings"
	"time"
	"unicode/utf8"

	"Havoc/pkg/profile"
	hcl "Havoc/pkg/profile/yaotl"
	"Havoc/pkg/profile/yaotl/gohcl"
	"Havoc/pkg/profile/yaotl/hcldec"
	"Havoc/pkg/profile/yaotl/hclsyntax"
	hcljson "Havoc/pkg/profile/yaotl/json"
)

// ---- ScanModes (C17): any bytes through every lexer / parser entry point ----

var scanLexemes = map[string][]string{
	"TokenIdent": {"foo", "a-b", "x1", "é"}, "TokenNumberLit": {"12", "1.5e3", "0"}, "TokenNewline": {"\n", "\r\n"},
	"TokenComment": {"# c\n", "// c\n", "/* c */", "/* a\nb */"}, "TokenEqual": {"="}, "TokenOBrack": {"["}, "TokenCBrack": {"]"},
	"TokenDot": {"."}, "TokenComma": {","}, "TokenOParen": {"("}, "TokenCParen": {")"}, "TokenMinus": {"-"}, "TokenQuestion": {"?"},
	"TokenColon": {":"}, "TokenFatArrow": {"=>"}, "TokenEllipsis": {"..."}, "TokenStar": {"*"}, "TokenOBrace": {"{"}, "TokenCBrace": {"}"},
	"TokenTemplateSeqEnd": {"}", "~}"}, "TokenOQuote": {`"`}, "TokenCQuote": {`"`}, "TokenOHeredoc": {"<<EOT\n", "<<-EOT\n"},
	"TokenCHeredoc": {"EOT\n", "  EOT\n"}, "TokenQuotedLit": {"lit", `a\"b`, "$${x}", "é"}, "TokenStringLit": {"text\n", "more ", "$"},
	"TokenQuotedNewline": {"\n"}, "TokenTemplateInterp": {"${", "${~"}, "TokenTemplateControl": {"%{", "%{~"},
	"TokenInvalid": {"@", "\x01", "'"}, "TokenBadUTF8": {"\xff", "\xc3"}, "TokenEOF": {""},
}

func scanTextOf(seq []Step, rng *rand.Rand) string {
	var sb strings.Builder
	inTemplate := 0
	for _, t := range seq {
		ty := t.Str("ty")
		if ty == "" {
			continue
		}
		ls := scanLexemes[ty]
		if len(ls) == 0 {
			ls = []string{"?"}
		}
		sb.WriteString(ls[rng.Intn(len(ls))])
		switch ty {
		case "TokenOQuote", "TokenOHeredoc":
			inTemplate++
		case "TokenCQuote", "TokenCHeredoc":
			inTemplate--
		}
		if inTemplate <= 0 && rng.Intn(3) > 0 {
			sb.WriteString([]string{" ", "  ", "\t", ""}[rng.Intn(4)])
		}
	}
	return sb.String()
}

func scanMutants(base string, rng *rand.Rand, n int, depth int) []string {
	out := []string{}
	b := []byte(base)
	for i := 0; i < n; i++ {
		switch rng.Intn(7) {
		case 0: // truncated
			if len(b) > 0 {
				out = append(out, string(b[:rng.Intn(len(b))]))
			}
		case 1: // one byte changed
			if len(b) > 0 {
				c := append([]byte{}, b...)
				c[rng.Intn(len(c))] = byte(rng.Intn(256))
				out = append(out, string(c))
			}
		case 2: // something inserted
			ins := []string{"\xff", "\x00", "${", "%{", `"`, "<<EOT\n", "}", "{", "\\", "\n", "*/", "/*", "[", "(", "...", "~}", "\xe2\x80", "for ", "%{ if "}[rng.Intn(19)]
			at := 0
			if len(b) > 0 {
				at = rng.Intn(len(b) + 1)
			}
			out = append(out, string(b[:at])+ins+string(b[at:]))
		case 3: // a slice repeated
			if len(b) > 1 {
				x, y := rng.Intn(len(b)), rng.Intn(len(b))
				if x > y {
					x, y = y, x
				}
				out = append(out, string(b[:y])+string(b[x:y])+string(b[y:]))
			}
		case 4: // nested
			pairs := [][2]string{{"(", ")"}, {"[", "]"}, {"{a=", "}"}, {`"${`, `}"`}, {"f(", ")"}, {"[for x in ", ": x]"}, {"-", ""}, {"!", ""}, {"{", ""}, {`"%{if `, ""}}
			pr := pairs[rng.Intn(len(pairs))]
			d := 1 + rng.Intn(depth)
			out = append(out, strings.Repeat(pr[0], d)+base+strings.Repeat(pr[1], d))
		case 5: // truncated at a token-ish boundary: everything after some newline / brace removed
			if i := strings.LastIndexAny(base, "\n{\"$"); i > 0 {
				out = append(out, base[:i+1])
			}
		case 6: // random bytes
			r := make([]byte, rng.Intn(40))
			rng.Read(r)
			out = append(out, string(r))
		}
	}
	return out
}

// tokenMutants changes a text at token granularity: cut after a token, drop / repeat / swap tokens, or put
// another token (keywords of the template directives included) in a token's place
func tokenMutants(base string, rng *rand.Rand, n int, all bool) []string {
	src := []byte(base)
	var toks hclsyntax.Tokens
	if p, _ := guarded(func() { toks, _ = hclsyntax.LexConfig(src, "m.hcl", hcl.Pos{Line: 1, Column: 1}) }, 5*time.Second); p != "" || len(toks) < 2 {
		return nil
	}
	toks = toks[:len(toks)-1]     // without the end-of-file token
	piece := func(i int) string { // token i with the blanks before it
		st := 0
		if i > 0 {
			st = toks[i-1].Range.End.Byte
		}
		e := toks[i].Range.End.Byte
		if st < 0 || e > len(src) || st > e {
			return ""
		}
		return string(src[st:e])
	}
	pool := []string{"for", "in", "if", "else", "endif", "endfor", "x", "1", ",", ":", "=>", "...", "?", "(", ")", "[", "]", "{", "}", "~}", "${", "%{", "\"", "=", ".", "*", "null", "<<EOT\n", "\n", "-", "!"}
	build := func(f func(i int) string) string {
		var sb strings.Builder
		for i := range toks {
			sb.WriteString(f(i))
		}
		return sb.String()
	}
	out := []string{}
	if all { // every cut at a token boundary
		for k := 1; k < len(toks); k++ {
			out = append(out, string(src[:toks[k-1].Range.End.Byte]))
		}
	}
	for j := 0; j < n; j++ {
		k := rng.Intn(len(toks))
		switch rng.Intn(5) {
		case 0:
			out = append(out, string(src[:toks[k].Range.End.Byte]))
		case 1:
			out = append(out, build(func(i int) string {
				if i == k {
					return ""
				}
				return piece(i)
			}))
		case 2:
			out = append(out, build(func(i int) string {
				if i == k {
					return piece(i) + piece(i)
				}
				return piece(i)
			}))
		case 3:
			r := pool[rng.Intn(len(pool))]
			out = append(out, build(func(i int) string {
				if i == k {
					return " " + r
				}
				return piece(i)
			}))
		case 4:
			out = append(out, build(func(i int) string {
				if i == k && k+1 < len(toks) {
					return piece(k + 1)
				}
				if i == k+1 {
					return piece(k)
				}
				return piece(i)
			}))
		}
	}
	return out
}

func gapClass(b []byte) string {
	if len(b) == 0 {
		return "none"
	}
	for _, c := range b {
		if c != ' ' && c != '\t' {
			return "other"
		}
	}
	return "blank"
}

func lexRecord(toks hclsyntax.Tokens, src []byte) []any {
	out := []any{}
	prev := 0
	bom := bytes.HasPrefix(src, []byte("\xef\xbb\xbf"))
	valid := utf8.Valid(src) // line numbers are only judged on valid UTF-8 (a broken sequence can swallow a newline into one token)
	for _, t := range toks {
		s, e := t.Range.Start.Byte, t.Range.End.Byte
		gap := "other"
		okb := false
		line := false
		if s >= prev && s <= len(src) && e >= s && e <= len(src) {
			gap = gapClass(src[prev:s])
			if bom && prev == 0 && s >= 3 && gapClass(src[3:s]) != "other" {
				gap = "bom" // a byte order mark at the very start is not part of any token
			}
			okb = bytes.Equal(t.Bytes, src[s:e])
			line = t.Range.Start.Line == 1+bytes.Count(src[:s], []byte("\n")) && t.Range.End.Line == 1+bytes.Count(src[:e], []byte("\n")) &&
				t.Range.Start.Column >= 1 && t.Range.End.Column >= 1
			line = line || !valid
		}
		out = append(out, map[string]any{"ty": t.Type.String(), "s": s, "e": e, "gap": gap, "bytes": okb, "line": line})
		if e > prev {
			prev = e
		}
	}
	return out
}

type nodeCollector struct {
	depth   int
	out     []any
	skipped []bool
}

func (c *nodeCollector) Enter(n hclsyntax.Node) hcl.Diagnostics {
	r := n.Range()
	_, isAttrs := n.(hclsyntax.Attributes)
	_, isBlocks := n.(hclsyntax.Blocks)
	if isAttrs || isBlocks || (r.Start.Line == 0 && r.End.Line == 0 && r.Start.Byte == 0 && r.End.Byte == 0) {
		// grouping constructs without a source range of their own (Attributes and Blocks answer Range() with an
		// arbitrary member's, "only to complete the Node interface"): nothing is attached to them,
		// its children are judged against the nearest ancestor that has one
		c.skipped = append(c.skipped, true)
		return nil
	}
	c.skipped = append(c.skipped, false)
	c.out = append(c.out, map[string]any{"d": c.depth, "s": r.Start.Byte, "e": r.End.Byte, "n": fmt.Sprintf("%T", n)})
	c.depth++
	return nil
}
func (c *nodeCollector) Exit(n hclsyntax.Node) hcl.Diagnostics {
	sk := c.skipped[len(c.skipped)-1]
	c.skipped = c.skipped[:len(c.skipped)-1]
	if !sk {
		c.depth--
	}
	return nil
}

func diagRecord(diags hcl.Diagnostics) ([]any, bool) {
	out := []any{}
	errs := false
	for _, d := range diags {
		if d.Severity == hcl.DiagError {
			errs = true
		}
		m := map[string]any{"s": 0, "e": 0, "ctx": false, "cs": 0, "ce": 0}
		if d.Subject != nil {
			m["s"], m["e"] = d.Subject.Start.Byte, d.Subject.End.Byte
		}
		if d.Context != nil {
			m["ctx"], m["cs"], m["ce"] = true, d.Context.Start.Byte, d.Context.End.Byte
		}
		out = append(out, m)
	}
	return out, errs
}

type scanCall struct {
	name string
	f    func(src []byte) map[string]any
}

func scanCalls() []scanCall {
	pos := hcl.Pos{Line: 1, Column: 1}
	ctx := exprCtx(map[string]any{})
	lex := func(f func([]byte, string, hcl.Pos) (hclsyntax.Tokens, hcl.Diagnostics), mode string) func([]byte) map[string]any {
		return func(src []byte) map[string]any {
			toks, diags := f(src, "x.hcl", pos)
			dr, _ := diagRecord(diags)
			return map[string]any{"k": "lex", "mode": mode, "toks": lexRecord(toks, src), "diags": dr}
		}
	}
	tree := func(n hclsyntax.Node) []any {
		c := &nodeCollector{}
		if n != nil {
			hclsyntax.Walk(n, c)
		}
		if c.out == nil {
			return []any{}
		}
		return c.out
	}
	return []scanCall{
		{"LexConfig", lex(hclsyntax.LexConfig, "main")},
		{"LexExpression", lex(hclsyntax.LexExpression, "main")},
		{"LexTemplate", lex(hclsyntax.LexTemplate, "bare")},
		{"ParseConfig", func(src []byte) map[string]any {
			f, diags := hclsyntax.ParseConfig(src, "x.hcl", pos)
			dr, errs := diagRecord(diags)
			var nodes []any = []any{}
			if f != nil && f.Body != nil {
				body := f.Body.(*hclsyntax.Body)
				nodes = tree(body)
				if !errs { // an input without errors can be evaluated and decoded
					attrs, _ := body.JustAttributes()
					for _, a := range attrs {
						a.Expr.Value(ctx)
						a.Expr.Variables()
					}
					for _, b := range body.Blocks {
						b.Body.JustAttributes()
					}
					var schema hcl.BodySchema
					body.PartialContent(&schema)
					// ... and decoded: into the real profile type, into a catch-all struct, and by a spec
					var cfg profile.HavocConfig
					gohcl.DecodeBody(body, ctx, &cfg)
					var rest struct {
						Remain hcl.Body `yaotl:",remain"`
					}
					gohcl.DecodeBody(body, ctx, &rest)
					hcldec.Decode(body, rwSpec, ctx)
				}
			}
			return map[string]any{"k": "parse", "nodes": nodes, "diags": dr, "errs": errs}
		}},
		{"ParseExpression", func(src []byte) map[string]any {
			e, diags := hclsyntax.ParseExpression(src, "x.hcl", pos)
			dr, errs := diagRecord(diags)
			var nodes []any = []any{}
			if e != nil {
				nodes = tree(e)
				if !errs {
					e.Value(ctx)
					e.Variables()
				}
			}
			return map[string]any{"k": "parse", "nodes": nodes, "diags": dr, "errs": errs}
		}},
		{"ParseTemplate", func(src []byte) map[string]any {
			e, diags := hclsyntax.ParseTemplate(src, "x.hcl", pos)
			dr, errs := diagRecord(diags)
			var nodes []any = []any{}
			if e != nil {
				nodes = tree(e)
				if !errs {
					e.Value(ctx)
				}
			}
			return map[string]any{"k": "parse", "nodes": nodes, "diags": dr, "errs": errs}
		}},
		{"ParseTraversalAbs", func(src []byte) map[string]any {
			tv, diags := hclsyntax.ParseTraversalAbs(src, "x.hcl", pos)
			dr, errs := diagRecord(diags)
			nodes := []any{}
			if !errs && len(tv) > 0 {
				r := tv.SourceRange()
				nodes = append(nodes, map[string]any{"d": 0, "s": r.Start.Byte, "e": r.End.Byte, "n": "Traversal"})
				for _, st := range tv {
					sr := st.SourceRange()
					nodes = append(nodes, map[string]any{"d": 1, "s": sr.Start.Byte, "e": sr.End.Byte, "n": fmt.Sprintf("%T", st)})
				}
				tv.TraverseAbs(ctx)
			}
			return map[string]any{"k": "parse", "nodes": nodes, "diags": dr, "errs": errs}
		}},
		{"json.Parse", func(src []byte) map[string]any {
			f, diags := hcljson.Parse(src, "x.json")
			dr, errs := diagRecord(diags)
			if f != nil && f.Body != nil && !errs {
				attrs, _ := f.Body.JustAttributes()
				for _, a := range attrs {
					a.Expr.Value(ctx)
					a.Expr.Variables()
				}
				var schema hcl.BodySchema
				f.Body.PartialContent(&schema)
				var cfg profile.HavocConfig
				gohcl.DecodeBody(f.Body, ctx, &cfg)
				hcldec.Decode(f.Body, rwSpec, ctx)
			}
			return map[string]any{"k": "parse", "nodes": []any{}, "diags": dr, "errs": errs}
		}},
	}
}

func randJSON(rng *rand.Rand, d int) string {
	switch k := rng.Intn(8); {
	case d <= 0 || k < 2:
		if rng.Intn(4) == 0 {
			return randJSONNumber(rng)
		}
		return []string{`"s"`, `"a${x}b"`, "1", "-2.5e3", "true", "null", `"é\n"`, `""`}[rng.Intn(8)]
	case k < 5:
		n := rng.Intn(4)
		parts := []string{}
		for i := 0; i < n; i++ {
			parts = append(parts, fmt.Sprintf("%q: %s", []string{"a", "b", "Teamserver", "//", "x y"}[rng.Intn(5)], randJSON(rng, d-1)))
		}
		return "{" + strings.Join(parts, ", ") + "}"
	default:
		n := rng.Intn(4)
		parts := []string{}
		for i := 0; i < n; i++ {
			parts = append(parts, randJSON(rng, d-1))
		}
		return "[" + strings.Join(parts, ",") + "]"
	}
}

// randJSONNumber writes a number of the JSON grammar ( -? int frac? exp? ) with every part taken from boundary classes: mantissas of zero,
// one digit and many digits, exponents of one digit up to more digits than any machine integer holds, both signs
func randJSONNumber(rng *rand.Rand) string {
	pick := func(v ...string) string { return v[rng.Intn(len(v))] }
	n := pick("", "-") + pick("0", "1", "7", "12", "4294967296", "18446744073709551616", strings.Repeat("9", 40), strings.Repeat("9", 400))
	n += pick("", "", ".0", ".5", ".000000000000000000001", "."+strings.Repeat("3", 60))
	if rng.Intn(2) == 0 {
		n += pick("e", "E") + pick("", "+", "-") + pick("0", "3", "308", "309", "999999999", "2147483647", "2147483648", "4294967296", "9999999999", strings.Repeat("9", 20), strings.Repeat("9", 64))
	}
	return n
}

func RunScan(behs [][]Step, tr *Trace, env Env, sum *Summary) {
	calls := scanCalls()
	nmut, depth := 3, 150
	if env.Mode == "thorough" {
		nmut, depth = 10, 1500
	}
	hangs := 0
	for bi, beh := range behs {
		rng := rand.New(rand.NewSource(env.Seed*7919 + int64(bi)*104729 + int64(env.Shard)))
		cell := beh[0]
		var base string
		kind := "tokens"
		switch {
		case cell["tree"] != nil:
			kind = "expr"
			pr := exprPrinter{full: rng.Intn(4) == 0, tight: rng.Intn(3) == 0}
			pr.brk = !pr.full && !pr.tight && rng.Intn(2) == 0
			tree := nodeOf(cell["tree"])
			pr.root = tree
			base = pr.expr(tree)
			if pr.brk || rng.Intn(2) == 0 { // as the value of an argument: line ends are significant around it
				base = "v = " + base + "\n"
			}
		case cell["e"] != nil:
			kind = "doc"
			base = renderProfile(beh, nil)
		case cell["json"] != nil:
			kind = "json"
			base = "{" + fmt.Sprintf("%q: %s", "a", randJSON(rng, 4)) + "}"
		default:
			base = scanTextOf(beh, rng)
		}
		texts := append([]string{base}, scanMutants(base, rng, nmut, depth)...)
		if kind != "json" {
			texts = append(texts, tokenMutants(base, rng, nmut, env.Mode == "thorough" && kind == "expr")...)
			if rng.Intn(4) == 0 {
				texts = append(texts, "\xef\xbb\xbf"+base)
			}
			if strings.Contains(base, "\n") && (rng.Intn(3) == 0 || strings.Contains(base, "<<")) {
				texts = append(texts, strings.ReplaceAll(base, "\n", "\r\n")) // the same text with CRLF line ends
			}
		}
		for ti, text := range texts {
			src := []byte(text)
			ev := map[string]any{"ev": "Text", "len": len(src), "kind": kind, "calls": map[string]any{}}
			crashed := false
			for _, c := range calls {
				var res map[string]any
				t0 := time.Now()
				pan, hung := guarded(func() { res = c.f(src) }, 15*time.Second)
				dt := time.Since(t0)
				if pan != "" || hung || (dt > 3*time.Second && len(src) < 8192) {
					k := "panic"
					if hung {
						k = "hang"
						hangs++
					} else if pan == "" {
						k = "slow"
					}
					where := firstLines(pan, 14)
					if pan == "" {
						where = fmt.Sprintf("%s took %v for %d bytes", c.name, dt, len(src))
					}
					sum.Incidents = append(sum.Incidents, Incident{Behaviour: bi, Step: ti, Kind: k, Site: c.name, Detail: where + "\n--- input (quoted):\n" + fmt.Sprintf("%q", text)})
					res = map[string]any{"k": "crash"}
					crashed = true
				}
				ev["calls"].(map[string]any)[c.name] = res
				sum.Counters["call."+c.name]++
				if res["errs"] == false {
					sum.Counters["clean."+c.name]++
				}
			}
			ev["crashed"] = crashed
			if crashed || ti == 0 || len(src) <= 4096 {
				// very long nested inputs are judged by the harness probes only (panic / hang); their records would dominate the trace
				if len(src) > 4096 {
					ev["calls"] = map[string]any{}
				}
				ev["src"] = fmt.Sprintf("%q", text)
				tr.Emit(map[string]any{"ev": "Reset"})
				tr.Emit(ev)
			}
			sum.Counters["texts"]++
			if hangs > 3 {
				break
			}
		}
		if hangs > 3 { // the stuck goroutines keep their cores: the rest of this shard would only time out
			sum.Counters["abandoned_after_hangs"]++
			break
		}
		if bi < 2 {
			sum.Samples = append(sum.Samples, map[string]any{"kind": kind, "texts": texts})
		}
		sum.Behaviours++
	}
}

func init() {
	Modules["scan"] = func(behs [][]Step, tr *Trace, env Env, sum *Summary) { RunScan(behs, tr, env, sum) }
}
