package drive

import (
	"encoding/json"
	"fmt"
	"sort"
	"strconv"
	"strings"
	"time"

	hcl "Havoc/pkg/profile/yaotl"
	"Havoc/pkg/profile/yaotl/ext/dynblock"
	"Havoc/pkg/profile/yaotl/gohcl"
	"Havoc/pkg/profile/yaotl/hcldec"
	"Havoc/pkg/profile/yaotl/hclsyntax"
	"Havoc/pkg/profile/yaotl/hclwrite"
	hcljson "Havoc/pkg/profile/yaotl/json"

	"github.com/zclconf/go-cty/cty"
)

// ---- Rewrite (C19): representations chosen by the specification, rendered to files, decoded by both decoders ----

type rwOpt struct {
	V string `yaotl:"v,optional"`
}
type rwServer struct {
	Label string `yaotl:"label,label"`
	Host  string `yaotl:"host"`
	Port  *int   `yaotl:"port,optional"`
	Opt   *rwOpt `yaotl:"opt,block"`
}
type rwLimits struct {
	Max int `yaotl:"max"`
}
type rwRoot struct {
	Name    string            `yaotl:"name"`
	Count   *int              `yaotl:"count,optional"`
	Flag    *bool             `yaotl:"flag,optional"`
	Tags    []string          `yaotl:"tags,optional"`
	Meta    map[string]string `yaotl:"meta,optional"`
	Servers []rwServer        `yaotl:"server,block"`
	Limits  *rwLimits         `yaotl:"limits,block"`
}

var rwSpec = hcldec.ObjectSpec{
	"name":  &hcldec.AttrSpec{Name: "name", Type: cty.String, Required: true},
	"count": &hcldec.AttrSpec{Name: "count", Type: cty.Number},
	"flag":  &hcldec.AttrSpec{Name: "flag", Type: cty.Bool},
	"tags":  &hcldec.AttrSpec{Name: "tags", Type: cty.List(cty.String)},
	"meta":  &hcldec.AttrSpec{Name: "meta", Type: cty.Map(cty.String)},
	"server": &hcldec.BlockListSpec{TypeName: "server", Nested: hcldec.ObjectSpec{
		"label": &hcldec.BlockLabelSpec{Index: 0, Name: "label"},
		"host":  &hcldec.AttrSpec{Name: "host", Type: cty.String, Required: true},
		"port":  &hcldec.AttrSpec{Name: "port", Type: cty.Number},
		"opt":   &hcldec.BlockSpec{TypeName: "opt", Nested: hcldec.ObjectSpec{"v": &hcldec.AttrSpec{Name: "v", Type: cty.String}}},
	}},
	"limits": &hcldec.BlockSpec{TypeName: "limits", Nested: hcldec.ObjectSpec{"max": &hcldec.AttrSpec{Name: "max", Type: cty.Number, Required: true}}},
}

// the specification's strings are ASCII; {eacute} stands for a non-ASCII character in the files
func rwOut(s string) string { return strings.ReplaceAll(s, "{eacute}", "é") }
func rwIn(s string) string  { return strings.ReplaceAll(s, "é", "{eacute}") }

func rwStrs(v map[string]any) []string {
	out := []string{}
	for _, x := range listOf(v["v"]) {
		out = append(out, rwOut(x.(string)))
	}
	return out
}

func nativeQuote(s string) string {
	var sb strings.Builder
	sb.WriteByte('"')
	for _, r := range s {
		switch r {
		case '"':
			sb.WriteString(`\"`)
		case '\\':
			sb.WriteString(`\\`)
		case '\n':
			sb.WriteString(`\n`)
		default:
			sb.WriteRune(r)
		}
	}
	sb.WriteByte('"')
	return strings.ReplaceAll(strings.ReplaceAll(sb.String(), "${", "$${"), "%{", "%%{")
}

// strings written as templates: the same text in both syntaxes (native: inside quotes; JSON: the string's content)
var rwTemplates = map[string]string{
	"if":     "%{ if true }on%{ else }off%{ endif }",
	"interp": "v${1 + 1}",
	"pct":    "50%%{x} %{ if false }no%{ endif }",
	"badif":  "%{ if true }never closed",
	"here":   "${1 + 1} up\n", // native: a heredoc whose text starts with the interpolation
}

func nativeValue(v map[string]any) string {
	ss := rwStrs(v)
	if sp, _ := v["sp"].(string); sp == "here" {
		return "<<EOT\n" + rwTemplates[sp] + "EOT"
	} else if sp != "" {
		return `"` + rwTemplates[sp] + `"`
	}
	switch v["t"] {
	case "str":
		return nativeQuote(ss[0])
	case "num", "bool":
		return ss[0]
	case "list":
		q := []string{}
		for _, s := range ss {
			q = append(q, nativeQuote(s))
		}
		return "[" + strings.Join(q, ", ") + "]"
	case "map":
		q := []string{}
		for i := 0; i+1 < len(ss); i += 2 {
			q = append(q, nativeQuote(ss[i])+" = "+nativeQuote(ss[i+1]))
		}
		return "{" + strings.Join(q, ", ") + "}"
	}
	panic("harness-error: value kind")
}

func jsonValue(v map[string]any) any {
	ss := rwStrs(v)
	if sp, _ := v["sp"].(string); sp != "" {
		return rwTemplates[sp]
	}
	esc := func(s string) string { return strings.ReplaceAll(strings.ReplaceAll(s, "${", "$${"), "%{", "%%{") }
	switch v["t"] {
	case "str":
		return esc(ss[0])
	case "num":
		return json.Number(ss[0])
	case "bool":
		return ss[0] == "true"
	case "list":
		l := []any{}
		for _, s := range ss {
			l = append(l, esc(s))
		}
		return l
	case "map":
		m := orderedObj{}
		for i := 0; i+1 < len(ss); i += 2 {
			m = append(m, kv{ss[i], esc(ss[i+1])})
		}
		return m
	}
	panic("harness-error: value kind")
}

// a JSON object that keeps the order of its properties
type kv struct {
	k string
	v any
}
type orderedObj []kv

func (o orderedObj) MarshalJSON() ([]byte, error) {
	var sb strings.Builder
	sb.WriteByte('{')
	for i, p := range o {
		if i > 0 {
			sb.WriteByte(',')
		}
		kb, _ := json.Marshal(p.k)
		vb, err := json.Marshal(p.v)
		if err != nil {
			return nil, err
		}
		sb.Write(kb)
		sb.WriteByte(':')
		sb.Write(vb)
	}
	sb.WriteByte('}')
	return []byte(sb.String()), nil
}

// the flat object a dynamic block iterates over: the block's label, attributes and nested single-block attributes
func dynFields(b map[string]any) (labels []string, attrs [][2]any, subs map[string][][2]any, subOrder []string) {
	for _, l := range listOf(b["labels"]) {
		labels = append(labels, l.(string))
	}
	subs = map[string][][2]any{}
	for _, it := range listOf(b["body"]) {
		m := nodeOf(it)
		if m["k"] == "attr" {
			attrs = append(attrs, [2]any{m["name"], nodeOf(m["val"])})
		} else {
			t := m["type"].(string)
			subOrder = append(subOrder, t)
			for _, s := range listOf(m["body"]) {
				sm := nodeOf(s)
				subs[t] = append(subs[t], [2]any{sm["name"], nodeOf(sm["val"])})
			}
		}
	}
	return
}

func renderNativeItems(items []any, ind string, lay int, sb *strings.Builder) {
	eq := " = "
	if lay == 1 {
		eq = "="
	}
	for n, it := range items {
		m := nodeOf(it)
		if lay == 1 && n%2 == 0 {
			sb.WriteString(ind + "# note " + fmt.Sprint(n) + " { \"\n\n")
		}
		switch m["k"] {
		case "attr":
			val := nativeValue(nodeOf(m["val"]))
			sb.WriteString(ind + m["name"].(string) + eq + val)
			if lay == 1 && !strings.HasSuffix(val, "EOT") { // nothing may follow a heredoc's closing marker on its line
				sb.WriteString("   // trailing")
			}
			sb.WriteString("\n")
		case "block":
			sb.WriteString(ind + m["type"].(string))
			for _, l := range listOf(m["labels"]) {
				sb.WriteString(" " + nativeQuote(l.(string)))
			}
			sb.WriteString(" {\n")
			renderNativeItems(listOf(m["body"]), ind+"  ", lay, sb)
			sb.WriteString(ind + "}\n")
		case "dyn":
			t := m["type"].(string)
			each := listOf(m["each"])
			sb.WriteString(ind + "dynamic " + nativeQuote(t) + " {\n" + ind + "  for_each = [\n")
			for _, b := range each {
				labels, attrs, subs, subOrder := dynFields(nodeOf(b))
				fs := []string{}
				for i, l := range labels {
					fs = append(fs, fmt.Sprintf("label%d = %s", i, nativeQuote(l)))
				}
				for _, a := range attrs {
					fs = append(fs, a[0].(string)+" = "+nativeValue(a[1].(map[string]any)))
				}
				for _, st := range subOrder {
					for _, a := range subs[st] {
						fs = append(fs, st+"_"+a[0].(string)+" = "+nativeValue(a[1].(map[string]any)))
					}
				}
				sb.WriteString(ind + "    {" + strings.Join(fs, ", ") + "},\n")
			}
			sb.WriteString(ind + "  ]\n")
			labels, attrs, subs, subOrder := dynFields(nodeOf(each[0]))
			if len(labels) > 0 {
				ls := []string{}
				for i := range labels {
					ls = append(ls, fmt.Sprintf("%s.value.label%d", t, i))
				}
				sb.WriteString(ind + "  labels = [" + strings.Join(ls, ", ") + "]\n")
			}
			sb.WriteString(ind + "  content {\n")
			for _, a := range attrs {
				sb.WriteString(ind + "    " + a[0].(string) + eq + t + ".value." + a[0].(string) + "\n")
			}
			inner, _ := m["inner"].(bool)
			for _, st := range subOrder {
				if inner {
					// a dynamic block inside the dynamic block, its iterator named like the outer one: for_each is evaluated
					// with the outer element, the content with the inner one
					fs := []string{}
					for _, a := range subs[st] {
						fs = append(fs, a[0].(string)+" = "+t+".value."+st+"_"+a[0].(string))
					}
					sb.WriteString(ind + "    dynamic " + nativeQuote(st) + " {\n" + ind + "      for_each = [{" + strings.Join(fs, ", ") + "}]\n" + ind + "      iterator = " + t + "\n" + ind + "      content {\n")
					for _, a := range subs[st] {
						sb.WriteString(ind + "        " + a[0].(string) + eq + t + ".value." + a[0].(string) + "\n")
					}
					sb.WriteString(ind + "      }\n" + ind + "    }\n")
					continue
				}
				sb.WriteString(ind + "    " + st + " {\n")
				for _, a := range subs[st] {
					sb.WriteString(ind + "      " + a[0].(string) + eq + t + ".value." + st + "_" + a[0].(string) + "\n")
				}
				sb.WriteString(ind + "    }\n")
			}
			sb.WriteString(ind + "  }\n" + ind + "}\n")
		}
	}
}

func jsonItems(items []any, lay int) orderedObj {
	obj := orderedObj{}
	if lay == 1 {
		obj = append(obj, kv{"//", "a comment property"})
	}
	// properties in item order: a run of blocks of one type is one property (an array when there are several, or in layout 2),
	// a dynamic block is its own "dynamic" property; property names may therefore repeat, which the JSON syntax allows
	var runType string
	var run []any
	flush := func() {
		if len(run) == 0 {
			return
		}
		if len(run) == 1 && lay != 2 {
			obj = append(obj, kv{runType, run[0]})
		} else {
			obj = append(obj, kv{runType, run})
		}
		run, runType = nil, ""
	}
	order := []string{}
	dyn := orderedObj{}
	for _, it := range items {
		m := nodeOf(it)
		switch m["k"] {
		case "attr":
			flush()
			obj = append(obj, kv{m["name"].(string), jsonValue(nodeOf(m["val"]))})
		case "block":
			t := m["type"].(string)
			if t != runType {
				flush()
				runType = t
			}
			var inner any = jsonItems(listOf(m["body"]), lay)
			ls := listOf(m["labels"])
			for i := len(ls) - 1; i >= 0; i-- {
				inner = orderedObj{kv{ls[i].(string), inner}}
			}
			run = append(run, inner)
		case "dyn":
			flush()
			t := m["type"].(string)
			each := listOf(m["each"])
			fe := []any{}
			for _, b := range each {
				labels, attrs, subs, subOrder := dynFields(nodeOf(b))
				o := orderedObj{}
				for i, l := range labels {
					o = append(o, kv{fmt.Sprintf("label%d", i), l})
				}
				for _, a := range attrs {
					o = append(o, kv{a[0].(string), jsonValue(a[1].(map[string]any))})
				}
				for _, st := range subOrder {
					for _, a := range subs[st] {
						o = append(o, kv{st + "_" + a[0].(string), jsonValue(a[1].(map[string]any))})
					}
				}
				fe = append(fe, o)
			}
			labels, attrs, subs, subOrder := dynFields(nodeOf(each[0]))
			d := orderedObj{kv{"for_each", fe}}
			if len(labels) > 0 {
				ls := []any{}
				for i := range labels {
					ls = append(ls, fmt.Sprintf("${%s.value.label%d}", t, i))
				}
				d = append(d, kv{"labels", ls})
			}
			content := orderedObj{}
			for _, a := range attrs {
				content = append(content, kv{a[0].(string), fmt.Sprintf("${%s.value.%s}", t, a[0])})
			}
			inner, _ := m["inner"].(bool)
			for _, st := range subOrder {
				so := orderedObj{}
				if inner {
					el := orderedObj{}
					for _, a := range subs[st] {
						el = append(el, kv{a[0].(string), fmt.Sprintf("${%s.value.%s_%s}", t, st, a[0])})
						so = append(so, kv{a[0].(string), fmt.Sprintf("${%s.value.%s}", t, a[0])})
					}
					content = append(content, kv{"dynamic", orderedObj{kv{st, orderedObj{kv{"for_each", []any{el}}, kv{"iterator", t}, kv{"content", so}}}}})
					continue
				}
				for _, a := range subs[st] {
					so = append(so, kv{a[0].(string), fmt.Sprintf("${%s.value.%s_%s}", t, st, a[0])})
				}
				content = append(content, kv{st, so})
			}
			d = append(d, kv{"content", content})
			obj = append(obj, kv{"dynamic", orderedObj{kv{t, d}}})
		}
	}
	flush()
	_ = order
	_ = dyn
	return obj
}

func renderFile(f map[string]any) (string, string) {
	lay := int(f["lay"].(float64))
	items := listOf(f["items"])
	if f["syn"] == "json" {
		o := jsonItems(items, lay)
		var b []byte
		if lay == 0 {
			b, _ = json.Marshal(o)
		} else {
			b, _ = json.MarshalIndent(o, "", "   ")
		}
		return string(b), "json"
	}
	var sb strings.Builder
	renderNativeItems(items, "", lay, &sb)
	src := sb.String()
	if lay == 2 {
		src = string(hclwrite.Format([]byte(strings.ReplaceAll(src, " = ", "=   "))))
	}
	return src, "hcl"
}

func rwVal(t string, ss []string) map[string]any {
	in := make([]string, len(ss))
	for i, s := range ss {
		in[i] = rwIn(s)
	}
	return map[string]any{"t": t, "v": in}
}

func numText(v cty.Value) string {
	f := v.AsBigFloat()
	if f.IsInt() {
		i, _ := f.Int(nil)
		return i.String()
	}
	return f.Text('g', -1)
}

func projectCty(v cty.Value) map[string]any {
	attrs := [][]any{}
	blocks := map[string]any{}
	get := func(n string) cty.Value {
		if v.Type().HasAttribute(n) {
			return v.GetAttr(n)
		}
		return cty.NullVal(cty.DynamicPseudoType)
	}
	add := func(n string, val map[string]any) { attrs = append(attrs, []any{n, val}) }
	for _, n := range []string{"count", "flag", "host", "max", "meta", "name", "port", "tags", "v"} {
		a := get(n)
		if a.IsNull() || !a.IsKnown() {
			continue
		}
		switch {
		case a.Type() == cty.String:
			add(n, rwVal("str", []string{a.AsString()}))
		case a.Type() == cty.Number:
			add(n, rwVal("num", []string{numText(a)}))
		case a.Type() == cty.Bool:
			add(n, rwVal("bool", []string{fmt.Sprint(a.True())}))
		case a.Type().IsListType():
			ss := []string{}
			for it := a.ElementIterator(); it.Next(); {
				_, e := it.Element()
				ss = append(ss, e.AsString())
			}
			add(n, rwVal("list", ss))
		case a.Type().IsMapType():
			m := a.AsValueMap()
			keys := []string{}
			for k := range m {
				keys = append(keys, k)
			}
			sort.Strings(keys)
			ss := []string{}
			for _, k := range keys {
				ss = append(ss, k, m[k].AsString())
			}
			add(n, rwVal("map", ss))
		}
	}
	if s := get("server"); !s.IsNull() && s.IsKnown() && s.LengthInt() > 0 {
		l := []any{}
		for it := s.ElementIterator(); it.Next(); {
			_, e := it.Element()
			l = append(l, map[string]any{"labels": []string{e.GetAttr("label").AsString()}, "body": projectCty(e)})
		}
		blocks["server"] = l
	}
	for _, t := range []string{"opt", "limits"} {
		if b := get(t); !b.IsNull() && b.IsKnown() {
			blocks[t] = []any{map[string]any{"labels": []string{}, "body": projectCty(b)}}
		}
	}
	return map[string]any{"attrs": attrs, "blocks": blocks}
}

func projectStruct(r *rwRoot) map[string]any {
	attrs := [][]any{}
	add := func(n string, val map[string]any) { attrs = append(attrs, []any{n, val}) }
	if r.Count != nil {
		add("count", rwVal("num", []string{strconv.Itoa(*r.Count)}))
	}
	if r.Flag != nil {
		add("flag", rwVal("bool", []string{fmt.Sprint(*r.Flag)}))
	}
	if r.Meta != nil {
		keys := []string{}
		for k := range r.Meta {
			keys = append(keys, k)
		}
		sort.Strings(keys)
		ss := []string{}
		for _, k := range keys {
			ss = append(ss, k, r.Meta[k])
		}
		add("meta", rwVal("map", ss))
	}
	add("name", rwVal("str", []string{r.Name}))
	if r.Tags != nil {
		add("tags", rwVal("list", append([]string{}, r.Tags...)))
	}
	blocks := map[string]any{}
	if len(r.Servers) > 0 {
		l := []any{}
		for _, s := range r.Servers {
			sa := [][]any{{"host", rwVal("str", []string{s.Host})}}
			if s.Port != nil {
				sa = append(sa, []any{"port", rwVal("num", []string{strconv.Itoa(*s.Port)})})
			}
			sb := map[string]any{}
			if s.Opt != nil {
				sb["opt"] = []any{map[string]any{"labels": []string{}, "body": map[string]any{"attrs": [][]any{{"v", rwVal("str", []string{s.Opt.V})}}, "blocks": map[string]any{}}}}
			}
			l = append(l, map[string]any{"labels": []string{s.Label}, "body": map[string]any{"attrs": sa, "blocks": sb}})
		}
		blocks["server"] = l
	}
	if r.Limits != nil {
		blocks["limits"] = []any{map[string]any{"labels": []string{}, "body": map[string]any{"attrs": [][]any{{"max", rwVal("num", []string{strconv.Itoa(r.Limits.Max)})}}, "blocks": map[string]any{}}}}
	}
	return map[string]any{"attrs": attrs, "blocks": blocks}
}

func RunRewrite(behs [][]Step, tr *Trace, env Env, sum *Summary) {
	for bi, beh := range behs {
		cell := beh[0]
		files := listOf(cell["files"])
		texts := []string{}
		var bodies []hcl.Body
		var perr string
		hasDyn := strings.Contains(fmt.Sprint(cell["files"]), "k:dyn")
		emptyVal := func() map[string]any { return map[string]any{"attrs": [][]any{}, "blocks": map[string]any{}} }
		res := map[string]any{"hcldec": map[string]any{"err": true, "text": "not reached", "val": emptyVal()}, "gohcl": map[string]any{"err": true, "text": "not reached", "val": emptyVal()}}
		pan, hung := guarded(func() {
			for fi, f := range files {
				src, ext := renderFile(nodeOf(f))
				texts = append(texts, src)
				var hf *hcl.File
				var diags hcl.Diagnostics
				name := fmt.Sprintf("f%d.%s", fi, ext)
				if ext == "json" {
					hf, diags = hcljson.Parse([]byte(src), name)
				} else {
					hf, diags = hclsyntax.ParseConfig([]byte(src), name, hcl.Pos{Line: 1, Column: 1})
				}
				if diags.HasErrors() {
					perr = diags.Error()
					return
				}
				bodies = append(bodies, hf.Body)
			}
			ctx := &hcl.EvalContext{}
			mk := func(order int) hcl.Body {
				bs := append([]hcl.Body{}, bodies...)
				if hasDyn && order == 0 { // expand every file, then merge
					for i := range bs {
						bs[i] = dynblock.Expand(bs[i], ctx)
					}
				}
				var b hcl.Body
				grpf, _ := nodeOf(files[0])["grp"].(float64)
				switch grp := int(grpf); {
				case len(bs) == 1 && bi%2 == 0:
					b = bs[0]
				case len(bs) >= 2 && grp == 1: // from the left: merge(merge(f1, f2), f3)
					b = hcl.MergeBodies([]hcl.Body{bs[0], bs[1]})
					for _, x := range bs[2:] {
						b = hcl.MergeBodies([]hcl.Body{b, x})
					}
				case len(bs) >= 2 && grp == 2: // from the right: merge(f1, merge(f2, f3))
					b = hcl.MergeBodies([]hcl.Body{bs[len(bs)-2], bs[len(bs)-1]})
					for i := len(bs) - 3; i >= 0; i-- {
						b = hcl.MergeBodies([]hcl.Body{bs[i], b})
					}
				default:
					b = hcl.MergeBodies(bs)
				}
				if hasDyn && order == 1 { // merge, then expand
					b = dynblock.Expand(b, ctx)
				}
				return b
			}
			order := bi % 2
			v, diags := hcldec.Decode(mk(order), rwSpec, ctx)
			if diags.HasErrors() {
				res["hcldec"] = map[string]any{"err": true, "text": diags.Error(), "val": map[string]any{"attrs": [][]any{}, "blocks": map[string]any{}}}
			} else {
				res["hcldec"] = map[string]any{"err": false, "text": "", "val": projectCty(v)}
			}
			var root rwRoot
			diags = gohcl.DecodeBody(mk(order), ctx, &root)
			if diags.HasErrors() {
				res["gohcl"] = map[string]any{"err": true, "text": diags.Error(), "val": map[string]any{"attrs": [][]any{}, "blocks": map[string]any{}}}
			} else {
				res["gohcl"] = map[string]any{"err": false, "text": "", "val": projectStruct(&root)}
			}
		}, 20*time.Second)
		crashed := pan != "" || hung
		if crashed {
			k := "panic"
			if hung {
				k = "hang"
			}
			sum.Incidents = append(sum.Incidents, Incident{Behaviour: bi, Kind: k, Site: "decode", Detail: firstLines(pan, 14) + "\n--- files:\n" + strings.Join(texts, "\n-----\n")})
		}
		if perr != "" {
			empty := map[string]any{"attrs": [][]any{}, "blocks": map[string]any{}}
			res["hcldec"] = map[string]any{"err": true, "text": "parse: " + perr, "val": empty}
			res["gohcl"] = map[string]any{"err": true, "text": "parse: " + perr, "val": empty}
		}
		tr.Emit(map[string]any{"ev": "Reset"})
		tr.Emit(map[string]any{"ev": "Rep", "cid": cell["cid"], "files": cell["files"], "rws": cell["rws"], "res": res, "crashed": crashed, "parse_error": perr != "", "texts": texts})
		if bi < 2 {
			sum.Samples = append(sum.Samples, map[string]any{"cid": cell["cid"], "texts": texts})
		}
		sum.Counters["reps"]++
		sum.Behaviours++
	}
}

func init() {
	Modules["rewrite"] = func(behs [][]Step, tr *Trace, env Env, sum *Summary) { RunRewrite(behs, tr, env, sum) }
}
