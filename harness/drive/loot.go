package drive

import (
	"fmt"
	"io/fs"
	"math/rand"
	"os"
	"path/filepath"
	"regexp"
	"sort"
	"strings"
	"time"

	"Havoc/pkg/logr"
	"Havoc/pkg/packager"

	"vcheck/refdemon"
	"vcheck/world"
)

// ---- Loot (C07) ----

type lootState struct {
	old  map[string]string // files of earlier runs' loot trees (path -> size and time), as they were when the run ended
	w    *world.World
	ids  map[string]uint32
	name map[string]string // NameID -> symbol
	req  uint32
	rng  *rand.Rand
}

var chunkRe = regexp.MustCompile(`\[(c[0-9]+)\]`)

func (s *lootState) issue(a string) uint32 {
	s.req++
	ag := s.w.Agent(s.ids[a])
	pk := packager.Package{}
	pk.Head.Event, pk.Head.User, pk.Body.SubEvent = packager.Type.Session.Type, "neo", packager.Type.Session.Input
	pk.Body.Info = map[string]any{"DemonID": ag.NameID, "CommandID": "11", "TaskID": fmt.Sprintf("%08X", s.req), "CommandLine": "sleep 1 1", "Arguments": "1;1"}
	guarded(func() { s.w.TS.DispatchEvent(pk) }, 5*time.Second)
	return s.req
}

func (s *lootState) project() map[string]any {
	files := []map[string]any{}
	other := []string{}
	root := s.w.Dir
	filepath.WalkDir(root, func(p string, d fs.DirEntry, err error) error {
		if err != nil {
			return nil
		}
		rel, _ := filepath.Rel(root, p)
		if rel == "." {
			return nil
		}
		parts := strings.Split(rel, string(filepath.Separator))
		lootName := filepath.Base(s.w.Loot) // the current run's loot tree: data/loot, data/loot-run1, ...
		// an earlier run's tree: nothing in it may change any more
		if len(parts) >= 2 && parts[0] == "data" && strings.HasPrefix(parts[1], "loot") && parts[1] != lootName {
			if !d.IsDir() {
				if fi, err := d.Info(); err == nil && s.old[rel] != fmt.Sprintf("%d/%d", fi.Size(), fi.ModTime().UnixNano()) {
					other = append(other, "changed-after-its-run:"+rel)
				}
			}
			return nil
		}
		// benign, server-owned locations
		if rel == "data/server.cert" || rel == "data/server.key" { // the operator endpoint's certificate, written by Teamserver.Start
			return nil
		}
		if rel == "data" || rel == "data/"+lootName || strings.HasPrefix(rel, "data/ts.db") || rel == "data/"+lootName+"/agents" || rel == "data/"+lootName+"/listener" || strings.HasPrefix(rel, "data/"+lootName+"/listener/") {
			return nil
		}
		if len(parts) >= 4 && parts[0] == "data" && parts[1] == lootName && parts[2] == "agents" {
			if sym, ok := s.name[parts[3]]; ok {
				rest := parts[4:]
				switch {
				case len(rest) == 0:
					return nil
				case len(rest) == 1 && rest[0] == "Console_"+parts[3]+".log" && !d.IsDir():
					return nil
				case rest[0] == "Download":
					if d.IsDir() {
						return nil
					}
					b, _ := os.ReadFile(p)
					content := []string{}
					left := string(b)
					for _, m := range chunkRe.FindAllStringSubmatch(left, -1) {
						content = append(content, m[1])
					}
					if chunkRe.ReplaceAllString(left, "") != "" {
						content = append(content, "?")
					}
					files = append(files, map[string]any{"path": append([]string{"agents", sym}, rest...), "content": content})
					return nil
				}
			}
		}
		other = append(other, rel)
		return nil
	})
	sort.Strings(other)
	open := map[string]any{}
	for sym, id := range s.ids {
		m := map[string]any{"1": false, "2": false}
		if a := s.w.Agent(id); a != nil {
			for _, d := range a.Downloads {
				m[fmt.Sprint(d.FileID-0x500)] = true
			}
		}
		open[sym] = m
	}
	return map[string]any{"fs": files, "other": other, "open": open}
}

func joinName(comps []string, rng *rand.Rand, onlySlash bool) string {
	out := ""
	for i, c := range comps {
		if i > 0 {
			if onlySlash || rng.Intn(2) == 0 {
				out += "/"
			} else {
				out += "\\"
			}
		}
		out += c
	}
	return out
}

func RunLoot(behs [][]Step, tr *Trace, env Env, sum *Summary) {
	for bi, beh := range behs {
		func() {
			w, err := world.New(env.Scratch, world.Options{})
			must(err)
			defer w.Close()
			// relative paths the server may come up with must show up in the listing: the process works inside the world's directory
			if cwd, err := os.Getwd(); err == nil {
				defer os.Chdir(cwd)
			}
			must(os.Chdir(w.Dir))
			rng := rand.New(rand.NewSource(env.Seed + int64(bi)*1000003))
			s := &lootState{w: w, ids: map[string]uint32{}, name: map[string]string{}, req: 0xB000, rng: rng}
			for i, sy := range []string{"a1", "a2"} {
				id := uint32(rng.Int63n(0x7ffffff0)) + 2
				s.ids[sy] = id
				s.name[fmt.Sprintf("%08x", id)] = sy
				r := w.Register(id, world.KeysFor(env.Seed+int64(bi), i, false), refdemon.DefaultMeta(sy))
				if r.Status != 200 {
					panic("harness-error: registration failed")
				}
			}
			tr.Emit(map[string]any{"ev": "Reset"})
			for si, st := range beh {
				op, a, c := st.Str("op"), st.Str("a"), st.Str("c")
				f := st.Int("f")
				var comps []string
				if n, ok := st["n"].([]any); ok {
					for _, x := range n {
						comps = append(comps, x.(string))
					}
				}
				sum.Counters["op."+op]++
				id := s.ids[a]
				send := func(body []byte) {
					req := s.issue(a)
					r := w.RequestWith(refdemon.Packages(id, w.Keys[id], []refdemon.Sub{{Cmd: refdemon.CmdFS, Req: req, Body: body}}), 10*time.Second)
					if r.Panic != "" || r.Timeout {
						sum.Incidents = append(sum.Incidents, Incident{Behaviour: bi, Step: si, Kind: map[bool]string{true: "hang", false: "panic"}[r.Timeout], Site: op, Detail: firstLines(r.Panic, 14)})
					}
				}
				b := &refdemon.Buf{}
				sent := ""
				switch op {
				case "Open":
					sent = joinName(comps, rng, false)
					if rng.Intn(4) == 0 && len(comps) > 0 && comps[len(comps)-1] != "" {
						sent += "\x00"
					}
					b.I32(2).I32(0).I32(uint32(0x500 + f)).I64(map[string]uint64{"zero": 0, "short": 2, "ample": 4096}[c]).WStr(sent) // the announced size
					send(b.B)
				case "Write":
					b.I32(2).I32(1).I32(uint32(0x500 + f)).Bytes([]byte("[" + c + "]"))
					send(b.B)
				case "Close":
					b.I32(2).I32(2).I32(uint32(0x500 + f)).I32(0)
					send(b.B)
				case "Restart":
					// what the ending run leaves behind stays as it is
					s.old = map[string]string{}
					filepath.WalkDir(w.Dir, func(p string, d fs.DirEntry, err error) error {
						if err == nil && !d.IsDir() {
							if fi, e2 := d.Info(); e2 == nil {
								rel, _ := filepath.Rel(w.Dir, p)
								s.old[rel] = fmt.Sprintf("%d/%d", fi.Size(), fi.ModTime().UnixNano())
							}
						}
						return nil
					})
					if pan, to := guarded(func() { must(w.Restart()) }, 150*time.Second); pan != "" || to {
						if strings.Contains(pan, "harness-error") {
							panic(pan)
						}
						sum.Incidents = append(sum.Incidents, Incident{Behaviour: bi, Step: si, Kind: map[bool]string{true: "hang", false: "panic"}[to], Site: op, Detail: firstLines(pan, 14)})
					}
				case "CraftedFile":
					ag := w.Agent(id)
					crafted := map[string]string{"dotdot": "..", "up": "../evil", "dot": ".", "nested": ag.NameID + "/sub", "deep": "x/../../evil3", "abs": w.Dir + "/evilabs"}[c]
					sent = crafted
					p, to := guarded(func() { logr.LogrInstance.DemonAddDownloadedFile(crafted, "f.txt", []byte("[c1]")) }, 5*time.Second)
					if p != "" || to {
						sum.Incidents = append(sum.Incidents, Incident{Behaviour: bi, Step: si, Kind: "panic", Site: op, Detail: firstLines(p, 14)})
					}
				case "ServiceFile":
					sent = joinName(comps, rng, true)
					ag := w.Agent(id)
					p, to := guarded(func() { logr.LogrInstance.DemonAddDownloadedFile(ag.NameID, sent, []byte("["+c+"]")) }, 5*time.Second)
					if p != "" || to {
						sum.Incidents = append(sum.Incidents, Incident{Behaviour: bi, Step: si, Kind: "panic", Site: op, Detail: firstLines(p, 14)})
					}
				}
				if comps == nil {
					comps = []string{}
				}
				tr.Emit(map[string]any{"ev": op, "a": a, "f": f, "n": comps, "c": c, "sent": sent, "st": s.project()})
			}
			if bi < 3 {
				sum.Samples = append(sum.Samples, beh)
			}
		}()
		sum.Behaviours++
	}
}

func init() {
	Modules["loot"] = func(behs [][]Step, tr *Trace, env Env, sum *Summary) { RunLoot(behs, tr, env, sum) }
}
