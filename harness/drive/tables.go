package drive

import (
	"fmt"
	"net"
	"strconv"
	"sync"
	"time"

	"Havoc/pkg/agent"

	"vcheck/refdemon"
	"vcheck/world"
)

// ---- Tables (C01): agent resource tables under histories of well-formed callbacks ----

type tabTarget struct {
	ln    net.Listener
	port  int
	mu    sync.Mutex
	conns []net.Conn
}

func newTabTarget() *tabTarget {
	p, _ := strconv.Atoi(freePort())
	ln, err := net.Listen("tcp", fmt.Sprintf("127.0.0.1:%d", p))
	must(err)
	t := &tabTarget{ln: ln, port: p}
	go func() {
		for {
			c, err := ln.Accept()
			if err != nil {
				return
			}
			t.mu.Lock()
			t.conns = append(t.conns, c)
			t.mu.Unlock()
		}
	}()
	return t
}

func (t *tabTarget) drop() {
	t.mu.Lock()
	for _, c := range t.conns {
		c.Close()
	}
	t.conns = nil
	t.mu.Unlock()
}

const (
	tabFile = 0x700
	tabSock = 0x900
	loop127 = 0x0100007F // Int32ToIpString prints the low byte first
)

func RunTables(behs [][]Step, tr *Trace, env Env, sum *Summary) {
	w, err := world.New(env.Scratch, world.Options{})
	must(err)
	defer w.Close()
	up := newTabTarget()
	defer up.ln.Close()
	downPort, _ := strconv.Atoi(freePort()) // nothing listens here
	nextID := uint32(0x3000_0000) + uint32(env.Shard)<<20
	reqN := uint32(0xE000)
	for bi, beh := range behs {
		nextID++
		id := nextID
		k := world.KeysFor(env.Seed, int(id&0xffff), false)
		if r := w.Register(id, k, refdemon.DefaultMeta(fmt.Sprintf("t%d", bi))); r.Status != 200 {
			panic(fmt.Sprintf("harness-error: tables registration refused: %d %s", r.Status, r.Panic))
		}
		a := w.Agent(id)
		tr.Emit(map[string]any{"ev": "Reset"})
		wedged := false
		for si, o := range beh {
			if wedged {
				break
			}
			op := o.Str("op")
			mid := uint32(o.Int("id"))
			okv, _ := o["ok"].(bool)
			found, _ := o["found"].(bool)
			b2i := func(b bool) uint32 {
				if b {
					return 1
				}
				return 0
			}
			ty := map[string]uint32{"portfwd": agent.SOCKET_TYPE_REVERSE_PORTFWD, "proxy": agent.SOCKET_TYPE_REVERSE_PROXY, "client": agent.SOCKET_TYPE_CLIENT}[o.Str("ty")]
			port := uint32(downPort)
			if o.Str("tgt") == "up" {
				port = uint32(up.port)
			}
			b := &refdemon.Buf{}
			cmd := uint32(refdemon.CmdSocket)
			switch op {
			case "DlOpen":
				cmd = refdemon.CmdFS
				b.I32(2).I32(0).I32(tabFile + mid).I64(uint64(o.Int("size"))).WStr(fmt.Sprintf("C:\\t\\f%d_%d_%d.bin", mid, bi, si))
			case "DlWrite":
				cmd = refdemon.CmdFS
				b.I32(2).I32(1).I32(tabFile + mid).Bytes(make([]byte, o.Int("n")))
			case "DlClose":
				cmd = refdemon.CmdFS
				b.I32(2).I32(2).I32(tabFile + mid).I32(0)
			case "TrList":
				cmd = refdemon.CmdTransfer
				b.I32(agent.DEMON_COMMAND_TRANSFER_LIST).I32(tabFile + mid).I32(uint32(o.Int("size"))).I32(1)
			case "TrStop", "TrResume", "TrRemove":
				cmd = refdemon.CmdTransfer
				sub := map[string]uint32{"TrStop": agent.DEMON_COMMAND_TRANSFER_STOP, "TrResume": agent.DEMON_COMMAND_TRANSFER_RESUME, "TrRemove": agent.DEMON_COMMAND_TRANSFER_REMOVE}[op]
				b.I32(sub).I32(b2i(found)).I32(tabFile + mid)
			case "PfOpen":
				b.I32(agent.SOCKET_COMMAND_OPEN).I32(tabSock + mid).I32(loop127).I32(4444).I32(loop127).I32(port)
			case "PfRead":
				b.I32(agent.SOCKET_COMMAND_READ).I32(tabSock + mid).I32(ty).I32(1).Bytes(make([]byte, o.Int("n")))
			case "PfReadFail":
				b.I32(agent.SOCKET_COMMAND_READ).I32(tabSock + mid).I32(ty).I32(0).I32(10054)
			case "PfWrite":
				b.I32(agent.SOCKET_COMMAND_WRITE).I32(tabSock + mid).I32(agent.SOCKET_TYPE_CLIENT).I32(b2i(okv))
				if !okv {
					b.I32(10053)
				}
			case "PfClose":
				b.I32(agent.SOCKET_COMMAND_CLOSE).I32(tabSock + mid).I32(ty)
			case "PfConnect":
				b.I32(agent.SOCKET_COMMAND_CONNECT).I32(b2i(okv)).I32(tabSock + mid).I32(0)
			case "PfRemove":
				b.I32(agent.SOCKET_COMMAND_RPORTFWD_REMOVE).I32(tabSock + mid).I32(ty).I32(loop127).I32(4444).I32(loop127).I32(uint32(downPort))
			case "PfAdd":
				b.I32(agent.SOCKET_COMMAND_RPORTFWD_ADD).I32(b2i(okv)).I32(tabSock + mid).I32(loop127).I32(4444).I32(loop127).I32(uint32(downPort))
			case "PfClear":
				b.I32(agent.SOCKET_COMMAND_RPORTFWD_CLEAR).I32(b2i(okv))
			case "Burst":
			default:
				panic("harness-error: unknown tables op " + op)
			}
			// an outstanding request id, as for an operator-issued task
			reqN++
			a.AddRequest(agent.Job{RequestID: reqN, Command: cmd})
			var r world.Result
			if op == "Burst" {
				// simultaneous check-ins for this session (against whatever the history has queued)
				if o.Str("queue") != "none" {
					a.AddJobToQueue(agent.Job{Command: agent.COMMAND_SOCKET, RequestID: reqN, Data: []any{agent.SOCKET_COMMAND_WRITE, 1, 1, []byte{1}}})
				}
				rs := w.Burst(refdemon.CheckIn(id, k), o.Int("width"), 10*time.Second)
				r = rs[0]
				for _, x := range rs {
					if x.Panic != "" || x.Timeout || x.Status != 200 {
						r = x
					}
				}
			} else {
				r = w.RequestWith(refdemon.Packages(id, k, []refdemon.Sub{{Cmd: cmd, Req: reqN, Body: b.B}}), 10*time.Second)
			}
			ok := true
			fail := func(kind, detail string) {
				ok = false
				sum.Incidents = append(sum.Incidents, Incident{Behaviour: bi, Step: si, Kind: kind, Site: fmt.Sprintf("op=%s history=%v", op, histOps(beh[:si])), Detail: detail})
			}
			if r.Panic != "" {
				fail("panic", firstLines(r.Panic, 16))
			} else if r.Timeout {
				fail("hang", "handler did not return within 10s")
				wedged = true
			}
			if !r.Timeout {
				for name, m := range map[string]interface{ TryLock() bool }{"JobQueueMtx": &a.JobQueueMtx, "PortFwdsMtx": &a.PortFwdsMtx, "SocksCliMtx": &a.SocksCliMtx, "SocksSvrMtx": &a.SocksSvrMtx} {
					free := m.TryLock()
					for t := 0; t < 100 && !free; t++ { // a relay goroutine may hold it for a moment; "left held" is for good
						time.Sleep(2 * time.Millisecond)
						free = m.TryLock()
					}
					if free {
						switch name {
						case "JobQueueMtx":
							a.JobQueueMtx.Unlock()
						case "PortFwdsMtx":
							a.PortFwdsMtx.Unlock()
						case "SocksCliMtx":
							a.SocksCliMtx.Unlock()
						default:
							a.SocksSvrMtx.Unlock()
						}
					} else {
						fail("lock-held", name)
						wedged = true
					}
				}
			}
			dls, pfs := []any{}, []any{}
			if !wedged {
				for _, d := range a.Downloads {
					dls = append(dls, map[string]any{"id": d.FileID - tabFile, "size": d.TotalSize})
				}
				for _, p := range a.PortFwds {
					tgt := "down"
					if p.FwdPort == up.port {
						tgt = "up"
					}
					pfs = append(pfs, map[string]any{"id": p.SocktID - tabSock, "tgt": tgt, "conn": p.Conn != nil})
				}
			}
			tr.Emit(map[string]any{"ev": "Step", "o": o, "obs": map[string]any{"status": r.Status, "ok": ok}, "dls": dls, "pfs": pfs})
			sum.Counters["op."+op]++
		}
		// leave nothing running for this agent: forwards first (their reader goroutines end), then the target's connections
		if !wedged {
			for len(a.PortFwds) > 0 {
				a.PortFwdClose(a.PortFwds[0].SocktID)
			}
			for len(a.Downloads) > 0 {
				a.DownloadClose(a.Downloads[0].FileID)
			}
		}
		up.drop()
		if bi < 2 {
			sum.Samples = append(sum.Samples, beh)
		}
		sum.Behaviours++
	}
}

func histOps(steps []Step) []string {
	out := []string{}
	for _, s := range steps {
		out = append(out, fmt.Sprintf("%s(%d)", s.Str("op"), s.Int("id")))
	}
	return out
}

func init() {
	Modules["tables"] = func(behs [][]Step, tr *Trace, env Env, sum *Summary) { RunTables(behs, tr, env, sum) }
}
