package main

import (
	"fmt"

	"Havoc/pkg/profile/yaotl/hclwrite"
)

func main() {
	for _, src := range []string{"name=   \"q\\\"\\\\ é\"\n", "name = \"é\"\n", "name = \"\\\\ é\"\n", "name = \"\\\\é\"\n", "name = \"a\\\\ b\"\n"} {
		out := hclwrite.Format([]byte(src))
		fmt.Printf("%q -> %q\n", src, out)
	}
}
