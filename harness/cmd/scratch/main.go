package main

import (
	"fmt"
	"os"
	"sync"

	"Havoc/pkg/agent"

	"vcheck/refdemon"
	"vcheck/world"
)

func main() {
	dir, _ := os.MkdirTemp("", "scr")
	defer os.RemoveAll(dir)
	w, err := world.New(dir, world.Options{})
	if err != nil {
		panic(err)
	}
	k := world.KeysFor(1, 1, false)
	w.Register(0x1234, k, refdemon.DefaultMeta("x"))
	a := w.Agent(0x1234)
	var wg sync.WaitGroup
	P, K := 8, 2000
	for p := 1; p <= P; p++ {
		wg.Add(1)
		go func(p int) {
			defer wg.Done()
			for i := 1; i <= K; i++ {
				a.AddJobToQueue(agent.Job{Command: agent.COMMAND_SOCKET, RequestID: uint32(p)<<24 | uint32(i), Data: []any{1}})
			}
		}(p)
	}
	wg.Wait()
	fmt.Println("queued", len(a.JobQueue), "request ids", len(a.Tasks), "of", P*K)
}
