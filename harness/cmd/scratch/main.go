package main

import (
	"fmt"

	hcl "Havoc/pkg/profile/yaotl"
	"Havoc/pkg/profile/yaotl/hclwrite"
)

func main() {
	for _, src := range []string{"a   =   1\n", "a =\t1\n", "b   =\t[1,\n 2]\n", "blk \"x\"   {\n    b=1\n}\n", "a = 1 # c\n\n\n# d\n", "a=<<EOT\n  x\nEOT\n", "a = 1", "\ta = 1\n", "a = \"x${ 1 +\t2 }\"\n", "a = 1 /* x */ \n  \n", "a = 1\r\nb = 2\r\n"} {
		f, _ := hclwrite.ParseConfig([]byte(src), "x.hcl", hcl.Pos{Line: 1, Column: 1})
		raw := f.BuildTokens(nil).Bytes()
		fmt.Printf("%q -> raw %q  same=%v  fmt==Bytes:%v\n", src, raw, string(raw) == src, string(hclwrite.Format([]byte(src))) == string(f.Bytes()))
	}
}
