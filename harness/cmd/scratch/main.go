package main

import (
	"encoding/json"
	"fmt"
	"os"

	"Havoc/pkg/profile"
	hcl "Havoc/pkg/profile/yaotl"
	"Havoc/pkg/profile/yaotl/hclsimple"
)

func main() {
	for _, f := range os.Args[1:] {
		src, _ := os.ReadFile(f)
		var c profile.HavocConfig
		func() {
			defer func() {
				if r := recover(); r != nil {
					fmt.Println("PANIC", r)
				}
			}()
			err := hclsimple.Decode("p.yaotl", src, nil, &c)
			fmt.Printf("== %s\n", f)
			if d, ok := err.(hcl.Diagnostics); ok {
				for _, x := range d {
					fmt.Printf("  diag: %s | %s | subj=%v\n", x.Summary, x.Detail, x.Subject)
				}
			} else {
				fmt.Printf("  err=%v\n", err)
			}
			b, _ := json.Marshal(c)
			fmt.Printf("  cfg=%s\n", b)
		}()
	}
}
