// vharness: conformance harness between the TLA+ specification in /verif/spec
// and the real Havoc teamserver in /repo (built with -tags verif).
//
//	vharness <module> -in behaviours.json -out trace.ndjson -summary s.json -seed N -scratch DIR [-shard i/n]
package main

import (
	"flag"
	"fmt"
	"os"
	"runtime/debug"

	"vcheck/drive"
)

func main() {
	if len(os.Args) < 2 {
		fmt.Fprintln(os.Stderr, "usage: vharness <module> [flags]")
		os.Exit(2)
	}
	mod := os.Args[1]
	// a goroutine whose stack passes 256 MB is recursing without end: let the runtime say so (fatal error: stack overflow) before
	// the default limit of 1 GB has been filled by every shard at once
	debug.SetMaxStack(256 << 20)
	fs := flag.NewFlagSet(mod, flag.ExitOnError)
	in := fs.String("in", "", "behaviours (JSON array of histories)")
	out := fs.String("out", "trace.ndjson", "recorded trace")
	sumPath := fs.String("summary", "summary.json", "run summary")
	seed := fs.Int64("seed", 1, "seed")
	scratch := fs.String("scratch", "", "scratch directory (owned by the caller)")
	shard := fs.String("shard", "0/1", "i/n: take behaviours with index%n == i")
	mode := fs.String("mode", "", "module specific mode")
	n := fs.Int("n", 0, "module specific count")
	fs.Parse(os.Args[2:])
	if *scratch == "" {
		fmt.Fprintln(os.Stderr, "-scratch required")
		os.Exit(2)
	}
	os.MkdirAll(*scratch, 0o755)
	var si, sn int
	fmt.Sscanf(*shard, "%d/%d", &si, &sn)
	if sn == 0 {
		sn = 1
	}
	var behs [][]drive.Step
	if *in != "" {
		all, err := drive.LoadBehaviours(*in)
		if err != nil {
			fmt.Fprintln(os.Stderr, "load:", err)
			os.Exit(2)
		}
		for i, b := range all {
			if i%sn == si {
				behs = append(behs, b)
			}
		}
	}
	tr, err := drive.NewTrace(*out)
	if err != nil {
		fmt.Fprintln(os.Stderr, err)
		os.Exit(2)
	}
	sum := &drive.Summary{Module: mod, Counters: map[string]int{}}
	code := 0
	func() {
		defer func() {
			if r := recover(); r != nil {
				sum.Incidents = append(sum.Incidents, drive.Incident{Kind: "harness-error", Detail: fmt.Sprintf("%v\n%s", r, debug.Stack())})
				code = 2
			}
		}()
		env := drive.Env{Scratch: *scratch, Seed: *seed + int64(si)*7777, Mode: *mode, N: *n, Shard: si, Shards: sn}
		drive.PortShard = si
		f, ok := drive.Modules[mod]
		if !ok {
			panic("unknown module " + mod)
		}
		f(behs, tr, env, sum)
	}()
	sum.Events = tr.N
	tr.Close()
	drive.WriteSummary(*sumPath, sum)
	os.Exit(code)
}
