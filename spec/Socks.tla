------------------------------- MODULE Socks -------------------------------
(***************************************************************************)
(* SOCKS5 proxy of an agent session: negotiation, request, connect task,   *)
(* reply, relay in both directions, close; and the proxy table commands.   *)
(*   code: pkg/socks/util.go SubNegotiationClient / ReadSocksHeader /      *)
(*         CreateResponsePackage / SendConnect*, pkg/agent/demons.go       *)
(*         "socks add|list|kill|clear" and COMMAND_SOCKET dispatch,        *)
(*         pkg/agent/agent.go SocksClient* / SocksServerRemove             *)
(* A scenario fixes what the client will send (greeting, request, how the  *)
(* bytes are cut into TCP segments, where the stream ends) and what the    *)
(* agent answers; the actions say what must come back on each side.        *)
(***************************************************************************)
EXTENDS Integers, Sequences, FiniteSets, TLC

MethodLists == {"none", "m0", "m2", "m02", "m20", "m12"}      \* <<>>, <<0>>, <<2>>, <<0,2>>, <<2,0>>, <<1,2>>
Cmds == {1, 2, 3, 0, 4, 255}          \* CONNECT, BIND, UDP ASSOCIATE, and bytes that are no command at all
Atyps == {1, 3, 4, 9}
DomLens == {0, 1, 255}
Cuts == {"full", "afterGreeting", "midRequest", "midAddress", "beforePort"}   \* where the client's stream ends
Segs == {"separate", "pipelined", "splitAddress", "bytewise"}                \* how the bytes are cut into segments
AgentAnswers == {"ok", "timeout", "refused", "hostunreach", "netunreach", "other"}

Scen == [methods : MethodLists, cmd : Cmds, atyp : Atyps, dlen : DomLens, cut : Cuts, seg : Segs, answer : AgentAnswers]

HasNoAuth(m) == m \in {"m0", "m02", "m20"}
RepCode(a) == CASE a = "ok" -> 0 [] a = "timeout" -> 6 [] a = "refused" -> 5 [] a = "hostunreach" -> 4 [] a = "netunreach" -> 3 [] OTHER -> 1

VARIABLES sc,       \* the scenario
          phase,    \* "start", "negotiated", "refused", "requested", "rejected", "replied", "relaying", "closed"
          toClient, \* what the client has received, as labels
          toAgent,  \* socket tasks handed to the agent, as labels
          table,    \* TRUE iff the connection is in the agent's socket table
          last, hist
vars == <<sc, phase, toClient, toAgent, table, last, hist>>

Init == sc \in Scen /\ phase = "start" /\ toClient = <<>> /\ toAgent = <<>> /\ table = FALSE /\ last = [op |-> "none"] /\ hist = <<>>
Log(op) == hist' = Append(hist, [op |-> op]) /\ last' = [op |-> op]

(* the client sends everything it is going to send for the handshake (greeting and, if NOAUTH is offered, the request) *)
RequestComplete == sc.cut = "full"
Handshake ==
    /\ phase = "start"
    /\ IF ~HasNoAuth(sc.methods)
       THEN phase' = "refused" /\ toClient' = <<"method:ff">> /\ UNCHANGED <<toAgent, table>>
       ELSE IF sc.atyp = 9 /\ sc.cut \in {"full", "midAddress", "beforePort"}   \* the address-type byte has arrived and is unknown
       THEN phase' = "rejected" /\ toClient' = <<"method:00", "reply:08">> /\ UNCHANGED <<toAgent, table>>
       ELSE IF ~RequestComplete
       THEN phase' = "closed" /\ toClient' = <<"method:00">> /\ UNCHANGED <<toAgent, table>>   \* stream ended early: no reply, no task
       ELSE IF sc.cmd # 1           \* BIND / UDP ASSOCIATE: command not supported
       THEN phase' = "rejected" /\ toClient' = <<"method:00", "reply:07">> /\ UNCHANGED <<toAgent, table>>
       ELSE phase' = "requested" /\ toClient' = <<"method:00">> /\ toAgent' = <<"connect">> /\ table' = TRUE
    /\ UNCHANGED sc /\ Log("Handshake")

(* the agent reports the outcome of the connect: the client gets a well-formed reply echoing atyp/address/port *)
AgentAnswer ==
    /\ phase = "requested"
    /\ IF sc.answer = "ok"
       THEN phase' = "relaying" /\ toClient' = Append(toClient, "reply:00") /\ UNCHANGED table
       ELSE phase' = "closed" /\ toClient' = toClient \o <<"reply:0" \o ToString(RepCode(sc.answer)), "eof">> /\ table' = FALSE
    /\ UNCHANGED <<sc, toAgent>> /\ Log("AgentAnswer")

(* relay: three client chunks (one larger than the 64 KiB read buffer) reach the agent intact and in order;
   two agent chunks reach the client intact and in order *)
Relay ==
    /\ phase = "relaying" /\ "up" \notin {toAgent[i] : i \in 1..Len(toAgent)}
    /\ toAgent' = Append(toAgent, "up")        \* the write tasks concatenate to exactly the client's bytes
    /\ toClient' = Append(toClient, "down")    \* the client received exactly the agent's bytes
    /\ UNCHANGED <<sc, phase, table>> /\ Log("Relay")

ClientCloses ==
    /\ phase = "relaying"
    /\ phase' = "closed" /\ table' = FALSE /\ toAgent' = Append(toAgent, "close")
    /\ UNCHANGED <<sc, toClient>> /\ Log("ClientCloses")

AgentCloses ==
    /\ phase = "relaying"
    /\ phase' = "closed" /\ table' = FALSE /\ toClient' = Append(toClient, "eof")
    /\ UNCHANGED <<sc, toAgent>> /\ Log("AgentCloses")

(* the operator kills the proxy ("socks kill <port>") while the connection is relaying or still waiting for the agent's
   connect result: the client's connection ends, the socket leaves the table, the agent is told to close its side *)
OperatorKills ==
    /\ phase \in {"requested", "relaying"}
    /\ phase' = "closed" /\ table' = FALSE
    /\ toClient' = Append(toClient, "eof") /\ toAgent' = Append(toAgent, "close")
    /\ UNCHANGED sc /\ Log("OperatorKills")
(* time passes - longer than any handshake takes - with the connection waiting for the agent's connect result or established and idle:
   nothing changes, whatever comes next comes as it would have (not part of Next: generated by its own family) *)
Wait ==
    /\ phase \in {"requested", "relaying"} /\ \A i \in 1..Len(hist) : hist[i].op # "Wait"
    /\ UNCHANGED <<sc, phase, toClient, toAgent, table>> /\ Log("Wait")
Next == Handshake \/ AgentAnswer \/ Relay \/ ClientCloses \/ AgentCloses \/ OperatorKills
Spec == Init /\ [][Next]_vars
-----------------------------------------------------------------------------
(* C15, per connection *)
ClosedMeansGone == phase \in {"closed", "refused", "rejected"} => ~table
NoTaskWithoutRequest == phase \in {"refused", "rejected"} => toAgent = <<>>
=============================================================================
