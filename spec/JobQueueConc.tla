---------------------------- MODULE JobQueueConc ----------------------------
(* C04, the schedule dimension: several producers (operator connections, SOCKS / port-forward relay
   goroutines) put tasks on one agent's queue while the agent's check-ins take them off.
     code: pkg/agent/agent.go AddJobToQueue (a.JobQueue = append(a.JobQueue, job)), GetQueuedJobs
           (count, then Jobs, a.JobQueue = a.JobQueue[:n], a.JobQueue[n:])
   The specification of the queue is the atomic one: Add appends, CheckIn hands out a prefix and removes
   it.  Atomic == FALSE is the same machine with an append that reads the queue and writes it back in two
   steps, which is what unsynchronised Go code does; TLC shows that this variant loses and repeats
   tasks (kept as a configuration that is expected to fail: it documents why the mutex matters). *)
EXTENDS Integers, Sequences, FiniteSets, TLC, SequencesExt
CONSTANTS Producers, PerProducer, Atomic
VARIABLES queue,      \* the agent's queue: sequence of <<producer, index>>
          next,       \* per producer: index of the next task it will add
          held,       \* non-atomic append only: per producer the queue it read and has not written back yet (or <<"none">>)
          delivered   \* everything handed to the agent so far, in order
vars == <<queue, next, held, delivered>>
NoRead == <<"none">>
Init == queue = <<>> /\ next = [p \in Producers |-> 1] /\ held = [p \in Producers |-> NoRead] /\ delivered = <<>>
Add(p) == /\ Atomic /\ next[p] <= PerProducer
          /\ queue' = Append(queue, <<p, next[p]>>) /\ next' = [next EXCEPT ![p] = @ + 1] /\ UNCHANGED <<held, delivered>>
AddRead(p) == /\ ~Atomic /\ next[p] <= PerProducer /\ held[p] = NoRead
              /\ held' = [held EXCEPT ![p] = <<"read", queue>>] /\ UNCHANGED <<queue, next, delivered>>
AddWrite(p) == /\ ~Atomic /\ held[p] # NoRead
               /\ queue' = Append(held[p][2], <<p, next[p]>>) /\ next' = [next EXCEPT ![p] = @ + 1]
               /\ held' = [held EXCEPT ![p] = NoRead] /\ UNCHANGED delivered
CheckIn(n) == /\ n \in 1..Len(queue)
              /\ delivered' = delivered \o SubSeq(queue, 1, n) /\ queue' = SubSeq(queue, n + 1, Len(queue)) /\ UNCHANGED <<next, held>>
Next == (\E p \in Producers : Add(p) \/ AddRead(p) \/ AddWrite(p)) \/ (\E n \in 1..2 : CheckIn(n))
Spec == Init /\ [][Next]_vars
(* every task that was added is either still queued or was delivered, exactly once, and each producer's tasks keep their order *)
Added == {<<p, i>> : p \in Producers, i \in 1..PerProducer} \cap {t \in Producers \X (1..PerProducer) : t[2] < next[t[1]]}
All == delivered \o queue
ExactlyOnce == /\ ToSet(All) = Added
               /\ Len(All) = Cardinality(Added)
PerProducerOrder == \A i, j \in 1..Len(All) : (i < j /\ All[i][1] = All[j][1]) => All[i][2] < All[j][2]
(* the same two clauses for a recorded run: added = set of <<p, i>>, got = delivered sequence after the final drain *)
RunExactlyOnce(added, got) == ToSet(got) = added /\ Len(got) = Cardinality(added)
RunOrdered(got) == \A i, j \in 1..Len(got) : (i < j /\ got[i][1] = got[j][1]) => got[i][2] < got[j][2]
(* the same, in one pass (a recorded run has tens of thousands of tasks): the last index seen per producer only grows *)
RECURSIVE OrderedFrom(_, _, _)
OrderedFrom(got, i, last) == IF i > Len(got) THEN TRUE
                             ELSE LET p == got[i][1] IN
                                  (IF p \in DOMAIN last THEN last[p] < got[i][2] ELSE TRUE)
                                  /\ OrderedFrom(got, i + 1, [q \in (DOMAIN last) \cup {p} |-> IF q = p THEN got[i][2] ELSE last[q]])
RunOrderedFast(got) == OrderedFrom(got, 1, <<>>)
=============================================================================
