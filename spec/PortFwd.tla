------------------------------ MODULE PortFwd ------------------------------
(***************************************************************************)
(* C15, the port-forward half: the relay between an agent's reverse port   *)
(* forward sockets and their targets.                                      *)
(*   code: pkg/agent/demons.go TaskDispatch COMMAND_SOCKET                 *)
(*           SOCKET_COMMAND_OPEN  (remember the socket, dial nothing yet)  *)
(*           SOCKET_COMMAND_READ / SOCKET_TYPE_CLIENT (dial the target on  *)
(*             the first data, write the data, start the reader goroutine) *)
(*           SOCKET_COMMAND_RPORTFWD_REMOVE (close and forget)             *)
(*         the reader goroutine started there (target -> write tasks)      *)
(*         pkg/agent/agent.go PortFwdNew/Get/Open/Write/Read/Close         *)
(* One action per critical section: each callback is one action, the       *)
(* reader goroutine's loop body (Reader) is an action of its own, what the *)
(* target does on its end of the TCP connection are actions of their own.  *)
(***************************************************************************)
EXTENDS Integers, Sequences, FiniteSets, TLC
CONSTANTS Socks, UpChunks, DownChunks, MaxOps

VARIABLES ent,     \* [Socks -> "none" | "listed" | "open" | "gone"]   the agent's port-forward table entry (open = dialled)
          tside,   \* [Socks -> "none" | "open" | "closed" | "eof"]    the target's end: it closed / it saw the teamserver close
          sent,    \* [Socks -> Seq(UpChunks)]    data the agent sent for the socket while the forward could take it
          tgot,    \* [Socks -> Seq(UpChunks)]    what the target has received
          wrote,   \* [Socks -> Seq(DownChunks)]  what the target has written
          pend,    \* [Socks -> Seq(DownChunks)]  written by the target, not yet picked up by the reader goroutine
          eofp,    \* [Socks -> BOOLEAN]          the target's close has not been picked up yet
          q,       \* tasks queued for the agent: [k |-> "w", s, d |-> Seq(DownChunks)] or [k |-> "c", s]
          agot,    \* [Socks -> Seq(DownChunks)]  what the agent has been handed in write tasks
          atold,   \* sockets the agent has been told to close
          byagent, \* sockets the agent itself removed (data in flight for them may be dropped)
          last, hist
vars == <<ent, tside, sent, tgot, wrote, pend, eofp, q, agot, atold, byagent, last, hist>>
view == <<ent, tside, sent, tgot, wrote, pend, eofp, q, agot, atold, byagent, last, Len(hist)>>

Init == /\ ent = [s \in Socks |-> "none"] /\ tside = [s \in Socks |-> "none"]
        /\ sent = [s \in Socks |-> <<>>] /\ tgot = [s \in Socks |-> <<>>]
        /\ wrote = [s \in Socks |-> <<>>] /\ pend = [s \in Socks |-> <<>>] /\ eofp = [s \in Socks |-> FALSE]
        /\ q = <<>> /\ agot = [s \in Socks |-> <<>>] /\ atold = {} /\ byagent = {}
        /\ last = [op |-> "none"] /\ hist = <<>>
Log(o) == hist' = Append(hist, o) /\ last' = o /\ Len(hist) < MaxOps
LogR(o) == hist' = Append(hist, o) /\ last' = o          \* the reader's turns are not counted against the bound

ReaderEnabled(s) == ent[s] = "open" /\ (pend[s] # <<>> \/ eofp[s])

(* the agent accepted a connection on its forwarded port: SOCKET_COMMAND_OPEN.  A second announcement of a socket
   that is already in the table changes nothing. *)
Open(s) == /\ ent[s] \in {"none", "listed", "open"}
           /\ ent' = IF ent[s] = "none" THEN [ent EXCEPT ![s] = "listed"] ELSE ent
           /\ UNCHANGED <<tside, sent, tgot, wrote, pend, eofp, q, agot, atold, byagent>>
           /\ Log([op |-> "Open", s |-> s])

(* the agent read data from its client: SOCKET_COMMAND_READ, type client.  First data dials the target. *)
Data(s, c) ==
    /\ IF ent[s] = "listed"
       THEN ent' = [ent EXCEPT ![s] = "open"] /\ tside' = [tside EXCEPT ![s] = "open"]
            /\ sent' = [sent EXCEPT ![s] = Append(@, c)] /\ tgot' = [tgot EXCEPT ![s] = Append(@, c)]
       ELSE IF ent[s] = "open" /\ tside[s] = "open"
       THEN sent' = [sent EXCEPT ![s] = Append(@, c)] /\ tgot' = [tgot EXCEPT ![s] = Append(@, c)] /\ UNCHANGED <<ent, tside>>
       ELSE UNCHANGED <<ent, tside, sent, tgot>>          \* unknown or removed socket: reported on the console, nothing else
    /\ ~(ent[s] = "open" /\ tside[s] # "open")             \* (writing to a target that has gone is left open here)
    /\ UNCHANGED <<wrote, pend, eofp, q, agot, atold, byagent>>
    /\ Log([op |-> "Data", s |-> s, c |-> c])

(* the target writes on its end *)
TargetWrite(s, c) == /\ tside[s] = "open" /\ ent[s] = "open"
                     /\ wrote' = [wrote EXCEPT ![s] = Append(@, c)] /\ pend' = [pend EXCEPT ![s] = Append(@, c)]
                     /\ UNCHANGED <<ent, tside, sent, tgot, eofp, q, agot, atold, byagent>>
                     /\ Log([op |-> "TargetWrite", s |-> s, c |-> c])
(* the target closes its end *)
TargetClose(s) == /\ tside[s] = "open" /\ ent[s] = "open"
                  /\ tside' = [tside EXCEPT ![s] = "closed"] /\ eofp' = [eofp EXCEPT ![s] = TRUE]
                  /\ UNCHANGED <<ent, sent, tgot, wrote, pend, q, agot, atold, byagent>>
                  /\ Log([op |-> "TargetClose", s |-> s])

(* one turn of the reader goroutine: whatever the target has written so far becomes a write task for the agent, as soon
   as it is there (not only when the stream ends); at the end of the stream the agent is told to close its side and
   the forward leaves the table *)
Reader(s) == /\ ReaderEnabled(s)
             /\ IF pend[s] # <<>>
                THEN q' = Append(q, [k |-> "w", s |-> s, d |-> pend[s]]) /\ pend' = [pend EXCEPT ![s] = <<>>]
                     /\ UNCHANGED <<ent, eofp>>
                ELSE q' = Append(q, [k |-> "c", s |-> s, d |-> <<>>]) /\ ent' = [ent EXCEPT ![s] = "gone"]
                     /\ eofp' = [eofp EXCEPT ![s] = FALSE] /\ UNCHANGED pend
             /\ UNCHANGED <<tside, sent, tgot, wrote, agot, atold, byagent>>
             /\ LogR([op |-> "Reader", s |-> s])

(* the agent's side went away: SOCKET_COMMAND_RPORTFWD_REMOVE for the socket *)
Remove(s) == /\ IF ent[s] \in {"listed", "open"}
                THEN /\ ent' = [ent EXCEPT ![s] = "gone"]
                     /\ tside' = [tside EXCEPT ![s] = IF @ = "open" THEN "eof" ELSE @]
                     /\ pend' = [pend EXCEPT ![s] = <<>>] /\ eofp' = [eofp EXCEPT ![s] = FALSE]
                     /\ byagent' = byagent \cup {s}
                ELSE UNCHANGED <<ent, tside, pend, eofp, byagent>>
             /\ UNCHANGED <<sent, tgot, wrote, q, agot, atold>>
             /\ Log([op |-> "Remove", s |-> s])

RECURSIVE Hand(_, _, _)
Hand(tasks, got, told) == IF tasks = <<>> THEN <<got, told>>
                          ELSE LET t == Head(tasks) IN
                               IF t.k = "w" THEN Hand(Tail(tasks), [got EXCEPT ![t.s] = @ \o t.d], told)
                               ELSE Hand(Tail(tasks), got, told \cup {t.s})
(* the agent checks in and is handed everything queued, in order *)
CheckIn == /\ LET r == Hand(q, agot, atold) IN agot' = r[1] /\ atold' = r[2]
           /\ q' = <<>>
           /\ UNCHANGED <<ent, tside, sent, tgot, wrote, pend, eofp, byagent>>
           /\ Log([op |-> "CheckIn"])

Visible == \/ \E s \in Socks : Open(s) \/ Remove(s) \/ TargetClose(s)
           \/ \E s \in Socks, c \in UpChunks : Data(s, c)
           \/ \E s \in Socks, c \in DownChunks : TargetWrite(s, c)
           \/ CheckIn
Next == Visible \/ \E s \in Socks : Reader(s)
(* what a harness without a gate inside the reader goroutine can stage: the reader reacts before anything else happens *)
NextSettled == IF \E s \in Socks : ReaderEnabled(s) THEN \E s \in Socks : Reader(s) ELSE Visible
Spec == Init /\ [][Next]_vars /\ \A s \in Socks : WF_vars(Reader(s))
SpecSettled == Init /\ [][NextSettled]_vars
-----------------------------------------------------------------------------
RECURSIVE QW(_, _)
QW(tasks, s) == IF tasks = <<>> THEN <<>> ELSE (IF Head(tasks).k = "w" /\ Head(tasks).s = s THEN Head(tasks).d ELSE <<>>) \o QW(Tail(tasks), s)
QC(s) == \E i \in 1..Len(q) : q[i].k = "c" /\ q[i].s = s
(* C15, port forwards: bytes move intact and in order in both directions, nothing is lost on the way ... *)
UpIntact == \A s \in Socks : tgot[s] = sent[s]
DownIntact == \A s \in Socks : s \notin byagent => agot[s] \o QW(q, s) \o pend[s] = wrote[s]
(* ... and closing either side removes the socket everywhere *)
ClosedEverywhere == \A s \in Socks :
    /\ (tside[s] = "closed" /\ ~ReaderEnabled(s) /\ s \notin byagent) => (ent[s] = "gone" /\ (s \in atold \/ QC(s)))
    /\ (s \in byagent) => (ent[s] = "gone" /\ tside[s] # "open")
TypeOK == /\ \A s \in Socks : ent[s] \in {"none", "listed", "open", "gone"} /\ tside[s] \in {"none", "open", "closed", "eof"}
          /\ \A s \in Socks : (ent[s] = "open") => tside[s] \in {"open", "closed"}
(* data the target wrote is eventually on its way to the agent (or the agent removed the socket) *)
Delivered == \A s \in Socks : (pend[s] # <<>>) ~> (pend[s] = <<>>)
=============================================================================
