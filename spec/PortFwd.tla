------------------------------ MODULE PortFwd ------------------------------
(***************************************************************************)
(* C15, the port-forward half: the relay between an agent's reverse port   *)
(* forward sockets and their targets.                                      *)
(*   code: pkg/agent/demons.go TaskDispatch COMMAND_SOCKET                 *)
(*           SOCKET_COMMAND_OPEN  (remember the socket, dial nothing yet)  *)
(*           SOCKET_COMMAND_READ / SOCKET_TYPE_CLIENT (dial the target on  *)
(*             the first data, write the data, start the reader goroutine) *)
(*           SOCKET_COMMAND_RPORTFWD_REMOVE (close and forget)             *)
(*         the reader goroutine started there (target -> write tasks)      *)
(*         pkg/agent/agent.go PortFwdNew/Get/Open/Write/Read/Close         *)
(* One action per critical section: each callback is one action; what the  *)
(* target does on its end of the TCP connection are actions of their own;  *)
(* the reader goroutine is a little machine per socket: it sits in Read    *)
(* ("idle"), comes back holding data, the end of the stream or an error    *)
(* ("data", "eof", "dead") and then acts on what it holds (Reader) - the   *)
(* hook point verifhook "portfwd.read" sits exactly between the two, so    *)
(* that anything else can be scheduled before the reader acts.             *)
(***************************************************************************)
EXTENDS Integers, Sequences, FiniteSets, TLC
CONSTANTS Socks, UpChunks, DownChunks, MaxOps

VARIABLES ent,     \* [Socks -> "none" | "listed" | "open" | "gone"]   the agent's port-forward table entry (open = dialled)
          tside,   \* [Socks -> "none" | "open" | "closed" | "eof"]    the target's end: it closed / it saw the teamserver close
          sent,    \* [Socks -> Seq(UpChunks)]    data the agent sent for the socket while the forward could take it
          tgot,    \* [Socks -> Seq(UpChunks)]    what the target has received
          wrote,   \* [Socks -> Seq(DownChunks)]  what the target has written
          pend,    \* [Socks -> Seq(DownChunks)]  written by the target, still in the connection (the reader holds something else)
          eofp,    \* [Socks -> BOOLEAN]          the target's close is still in the connection
          rd,      \* [Socks -> "none" | "idle" | "data" | "eof" | "dead" | "exit"]   the reader goroutine
          held,    \* [Socks -> Seq(DownChunks)]  what the reader has read and not yet acted upon
          q,       \* tasks queued for the agent: [k |-> "w", s, d |-> Seq(DownChunks)] or [k |-> "c", s]
          agot,    \* [Socks -> Seq(DownChunks)]  what the agent has been handed in write tasks
          atold,   \* sockets the agent has been told to close
          byagent, \* sockets the agent itself removed (data in flight for them may be dropped)
          last, hist
vars == <<ent, tside, sent, tgot, wrote, pend, eofp, rd, held, q, agot, atold, byagent, last, hist>>
view == <<ent, tside, sent, tgot, wrote, pend, eofp, rd, held, q, agot, atold, byagent, last, Len(hist)>>

Init == /\ ent = [s \in Socks |-> "none"] /\ tside = [s \in Socks |-> "none"]
        /\ sent = [s \in Socks |-> <<>>] /\ tgot = [s \in Socks |-> <<>>]
        /\ wrote = [s \in Socks |-> <<>>] /\ pend = [s \in Socks |-> <<>>] /\ eofp = [s \in Socks |-> FALSE]
        /\ rd = [s \in Socks |-> "none"] /\ held = [s \in Socks |-> <<>>]
        /\ q = <<>> /\ agot = [s \in Socks |-> <<>>] /\ atold = {} /\ byagent = {}
        /\ last = [op |-> "none"] /\ hist = <<>>
Log(o) == hist' = Append(hist, o) /\ last' = o /\ Len(hist) < MaxOps
LogR(o) == hist' = Append(hist, o) /\ last' = o          \* the reader's turns are not counted against the bound

ReaderEnabled(s) == rd[s] \in {"data", "eof", "dead"}

(* the agent accepted a connection on its forwarded port: SOCKET_COMMAND_OPEN.  A second announcement of a socket
   that is already in the table changes nothing. *)
Open(s) == /\ ent[s] \in {"none", "listed", "open"}
           /\ ent' = IF ent[s] = "none" THEN [ent EXCEPT ![s] = "listed"] ELSE ent
           /\ UNCHANGED <<tside, sent, tgot, wrote, pend, eofp, rd, held, q, agot, atold, byagent>>
           /\ Log([op |-> "Open", s |-> s])

(* the agent read data from its client: SOCKET_COMMAND_READ, type client.  First data dials the target and starts the reader. *)
Data(s, c) ==
    /\ IF ent[s] = "listed"
       THEN ent' = [ent EXCEPT ![s] = "open"] /\ tside' = [tside EXCEPT ![s] = "open"] /\ rd' = [rd EXCEPT ![s] = "idle"]
            /\ sent' = [sent EXCEPT ![s] = Append(@, c)] /\ tgot' = [tgot EXCEPT ![s] = Append(@, c)]
       ELSE IF ent[s] = "open" /\ tside[s] = "open"
       THEN sent' = [sent EXCEPT ![s] = Append(@, c)] /\ tgot' = [tgot EXCEPT ![s] = Append(@, c)] /\ UNCHANGED <<ent, tside, rd>>
       ELSE UNCHANGED <<ent, tside, sent, tgot, rd>>      \* unknown or removed socket: reported on the console, nothing else
    /\ ~(ent[s] = "open" /\ tside[s] # "open")             \* (writing to a target that has gone is left open here)
    /\ UNCHANGED <<wrote, pend, eofp, held, q, agot, atold, byagent>>
    /\ Log([op |-> "Data", s |-> s, c |-> c])

(* the target writes on its end; a reader sitting in Read comes back with it at once *)
TargetWrite(s, c) == /\ tside[s] = "open" /\ ent[s] = "open"
                     /\ wrote' = [wrote EXCEPT ![s] = Append(@, c)]
                     /\ IF rd[s] = "idle"
                        THEN rd' = [rd EXCEPT ![s] = "data"] /\ held' = [held EXCEPT ![s] = <<c>>] /\ UNCHANGED pend
                        ELSE pend' = [pend EXCEPT ![s] = Append(@, c)] /\ UNCHANGED <<rd, held>>
                     /\ UNCHANGED <<ent, tside, sent, tgot, eofp, q, agot, atold, byagent>>
                     /\ Log([op |-> "TargetWrite", s |-> s, c |-> c, w |-> rd[s] = "idle"])
(* the target closes its end *)
TargetClose(s) == /\ tside[s] = "open" /\ ent[s] = "open"
                  /\ tside' = [tside EXCEPT ![s] = "closed"]
                  /\ IF rd[s] = "idle" THEN rd' = [rd EXCEPT ![s] = "eof"] /\ UNCHANGED eofp
                                       ELSE eofp' = [eofp EXCEPT ![s] = TRUE] /\ UNCHANGED rd
                  /\ UNCHANGED <<ent, sent, tgot, wrote, pend, held, q, agot, atold, byagent>>
                  /\ Log([op |-> "TargetClose", s |-> s, w |-> rd[s] = "idle"])

(* what the reader finds when it goes back into Read *)
NextRead(s, stillListed) == IF ~stillListed THEN "dead"
                            ELSE IF pend[s] # <<>> THEN "data" ELSE IF eofp[s] THEN "eof" ELSE "idle"
(* the reader acts on what it holds.  Data becomes a write task for the agent as soon as it is there (not only when the
   stream ends) - also for a socket the agent has removed meanwhile; at the end of the stream the agent is told to close
   its side and the forward leaves the table, unless the agent removed it first; after that the reader is gone. *)
Reader(s) ==
    /\ ReaderEnabled(s)
    /\ \/ /\ rd[s] = "data"
          /\ q' = Append(q, [k |-> "w", s |-> s, d |-> held[s]])
          /\ LET nr == NextRead(s, ent[s] = "open") IN
               /\ rd' = [rd EXCEPT ![s] = nr]
               /\ IF nr = "data" THEN held' = [held EXCEPT ![s] = pend[s]] /\ pend' = [pend EXCEPT ![s] = <<>>] /\ UNCHANGED eofp
                  ELSE IF nr = "eof" THEN held' = [held EXCEPT ![s] = <<>>] /\ eofp' = [eofp EXCEPT ![s] = FALSE] /\ UNCHANGED pend
                  ELSE held' = [held EXCEPT ![s] = <<>>] /\ UNCHANGED <<pend, eofp>>
          /\ UNCHANGED ent
       \/ /\ rd[s] = "eof"
          /\ IF ent[s] = "open" THEN ent' = [ent EXCEPT ![s] = "gone"] /\ q' = Append(q, [k |-> "c", s |-> s, d |-> <<>>])
                                ELSE UNCHANGED <<ent, q>>
          /\ rd' = [rd EXCEPT ![s] = "exit"] /\ UNCHANGED <<held, pend, eofp>>
       \/ /\ rd[s] = "dead"
          /\ rd' = [rd EXCEPT ![s] = "exit"] /\ UNCHANGED <<ent, q, held, pend, eofp>>
    /\ UNCHANGED <<tside, sent, tgot, wrote, agot, atold, byagent>>
    /\ LogR([op |-> "Reader", s |-> s, what |-> rd[s], d |-> held[s], w |-> rd'[s] \in {"data", "eof", "dead"}])   \* w: is the reader back at the gate afterwards (only tells the harness what to wait for)

(* the agent's side went away: SOCKET_COMMAND_RPORTFWD_REMOVE for the socket.  The connection is closed: what was still
   in it is lost, a reader sitting in Read comes back with an error *)
Remove(s) == /\ IF ent[s] \in {"listed", "open"}
                THEN /\ ent' = [ent EXCEPT ![s] = "gone"]
                     /\ tside' = [tside EXCEPT ![s] = IF @ = "open" THEN "eof" ELSE @]
                     /\ pend' = [pend EXCEPT ![s] = <<>>] /\ eofp' = [eofp EXCEPT ![s] = FALSE]
                     /\ rd' = [rd EXCEPT ![s] = IF @ = "idle" THEN "dead" ELSE @]
                     /\ byagent' = byagent \cup {s}
                ELSE UNCHANGED <<ent, tside, pend, eofp, rd, byagent>>
             /\ UNCHANGED <<sent, tgot, wrote, held, q, agot, atold>>
             /\ Log([op |-> "Remove", s |-> s, w |-> (ent[s] \in {"listed", "open"} /\ rd[s] = "idle")])

RECURSIVE Hand(_, _, _)
Hand(tasks, got, told) == IF tasks = <<>> THEN <<got, told>>
                          ELSE LET t == Head(tasks) IN
                               IF t.k = "w" THEN Hand(Tail(tasks), [got EXCEPT ![t.s] = @ \o t.d], told)
                               ELSE Hand(Tail(tasks), got, told \cup {t.s})
(* the agent checks in and is handed everything queued, in order *)
CheckIn == /\ LET r == Hand(q, agot, atold) IN agot' = r[1] /\ atold' = r[2]
           /\ q' = <<>>
           /\ UNCHANGED <<ent, tside, sent, tgot, wrote, pend, eofp, rd, held, byagent>>
           /\ Log([op |-> "CheckIn"])

Visible == \/ \E s \in Socks : Open(s) \/ Remove(s) \/ TargetClose(s)
           \/ \E s \in Socks, c \in UpChunks : Data(s, c)
           \/ \E s \in Socks, c \in DownChunks : TargetWrite(s, c)
           \/ CheckIn
Next == Visible \/ \E s \in Socks : Reader(s)
(* what a harness without the gate in the reader goroutine can stage: the reader acts before anything else happens *)
NextSettled == IF \E s \in Socks : ReaderEnabled(s) THEN \E s \in Socks : Reader(s) ELSE Visible
Spec == Init /\ [][Next]_vars /\ \A s \in Socks : WF_vars(Reader(s))
SpecSettled == Init /\ [][NextSettled]_vars
-----------------------------------------------------------------------------
RECURSIVE QW(_, _)
QW(tasks, s) == IF tasks = <<>> THEN <<>> ELSE (IF Head(tasks).k = "w" /\ Head(tasks).s = s THEN Head(tasks).d ELSE <<>>) \o QW(Tail(tasks), s)
QC(s) == \E i \in 1..Len(q) : q[i].k = "c" /\ q[i].s = s
(* C15, port forwards: bytes move intact and in order in both directions, nothing is lost on the way ... *)
UpIntact == \A s \in Socks : tgot[s] = sent[s]
DownIntact == \A s \in Socks : s \notin byagent => agot[s] \o QW(q, s) \o held[s] \o pend[s] = wrote[s]
(* ... and closing either side removes the socket everywhere *)
ClosedEverywhere == \A s \in Socks :
    /\ (tside[s] = "closed" /\ rd[s] = "exit" /\ s \notin byagent) => (ent[s] = "gone" /\ (s \in atold \/ QC(s)))
    /\ (s \in byagent) => (ent[s] = "gone" /\ tside[s] # "open")
TypeOK == /\ \A s \in Socks : ent[s] \in {"none", "listed", "open", "gone"} /\ tside[s] \in {"none", "open", "closed", "eof"}
          /\ \A s \in Socks : rd[s] \in {"none", "idle", "data", "eof", "dead", "exit"}
          /\ \A s \in Socks : (ent[s] = "open") => (tside[s] \in {"open", "closed"} /\ rd[s] \in {"idle", "data", "eof"})
          /\ \A s \in Socks : (held[s] # <<>>) <=> rd[s] = "data"
          /\ \A s \in Socks : (pend[s] # <<>> \/ eofp[s]) => rd[s] = "data"
(* data the target wrote is eventually on its way to the agent (or the agent removed the socket), the close likewise,
   and no reader goroutine stays behind once its forward is gone *)
Delivered == \A s \in Socks : (held[s] # <<>> \/ pend[s] # <<>>) ~> (held[s] = <<>> /\ pend[s] = <<>>)
NoReaderLeftBehind == \A s \in Socks : (ent[s] = "gone") ~> (rd[s] \in {"none", "exit"})
=============================================================================
