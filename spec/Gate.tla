------------------------------ MODULE Gate ------------------------------
(***************************************************************************)
(* The request-id gate in front of callback dispatch.                      *)
(*   code: pkg/agent/demons.go TaskDispatch (top) -> agent.go              *)
(*         IsKnownRequestID / AddRequest / RequestCompleted                *)
(* A callback of class c with request id r from agent a is acted upon only *)
(* if r is outstanding for a, or c is a relay kind, or c is beacon output  *)
(* while log forwarding is on.  A final callback retires r.                *)
(***************************************************************************)
EXTENDS Integers, Sequences, FiniteSets, TLC

CONSTANTS Agents, Ids, SendLogs, MaxOps

Classes == {"sleep", "output", "beacon", "dlopen", "dlwrite", "dlclose", "socket", "pivotlist", "joblist", "exit_malformed"}
Final   == {"sleep", "dlclose", "pivotlist", "joblist"}      \* callbacks after which RequestCompleted runs
Relay   == {"socket", "pivotlist"}                            \* COMMAND_SOCKET / COMMAND_PIVOT: accepted without a task
Silent  == {"exit_malformed"}                                 \* accepted or not: nothing observable happens (invalid packet)

VARIABLES tasks,     \* [Agents -> SUBSET Ids]  outstanding request ids
          used,      \* ids already issued (ids are issued once)
          open,      \* [Agents -> Nat]         how many transfers the agent has open under the download file id (a second open adds one)
          last,      \* outcome of the last step
          hist

vars == <<tasks, used, open, last, hist>>
view == <<tasks, used, open, last>>

None == [op |-> "none", a |-> "", r |-> 0, c |-> "", accepted |-> FALSE, effect |-> FALSE]

Init == /\ tasks = [a \in Agents |-> {}]
        /\ used = {}
        /\ open = [a \in Agents |-> 0]
        /\ last = None
        /\ hist = <<>>

Log(op, a, r, c) == hist' = Append(hist, [op |-> op, a |-> a, r |-> r, c |-> c])

Issue(a, r) ==   \* operator issues a task; the teamserver records its request id
    /\ r # 0         \* (0 is the id the teamserver's own relay jobs carry: no operator task ever has it)
    /\ r \notin used
    /\ tasks' = [tasks EXCEPT ![a] = @ \cup {r}]
    /\ used' = used \cup {r}
    /\ last' = [None EXCEPT !.op = "Issue", !.a = a, !.r = r]
    /\ UNCHANGED open
    /\ Log("Issue", a, r, "")

Accepted(a, r, c) == r \in tasks[a] \/ c \in Relay \/ (SendLogs /\ c = "beacon")

(* does an accepted callback of class c change anything an operator can see? *)
Effectful(a, c) == c \notin Silent   \* every dispatched callback at least prints to the agent console

Callback(a, r, c) ==
    LET acc == Accepted(a, r, c) IN
    /\ tasks' = IF acc /\ c \in Final THEN [tasks EXCEPT ![a] = @ \ {r}] ELSE tasks
    /\ open' = IF acc /\ c = "dlopen" THEN [open EXCEPT ![a] = IF @ < 3 THEN @ + 1 ELSE @]
               ELSE IF acc /\ c = "dlclose" THEN [open EXCEPT ![a] = IF @ > 0 THEN @ - 1 ELSE 0]
               ELSE open
    /\ last' = [op |-> "Callback", a |-> a, r |-> r, c |-> c, accepted |-> acc, effect |-> acc /\ Effectful(a, c)]
    /\ UNCHANGED used
    /\ Log("Callback", a, r, c)

(* the agent checks in (COMMAND_GET_JOB) and is handed what is queued for it.  A task is outstanding from the moment it is
   issued, not from the moment it is handed out: the hand-out changes nothing about which ids are accepted - in particular it
   does not bring back an id whose final callback was processed before the task was fetched *)
HandOut(a) == /\ UNCHANGED <<tasks, used, open>>
              /\ last' = [None EXCEPT !.op = "HandOut", !.a = a]
              /\ Log("HandOut", a, 0, "")
(* the teamserver queues a job of its own for the agent (a SOCKS / port-forward relay goroutine handing data on, the wrapper
   that carries a pivot child's task): such jobs have request id 0 and are nobody's task - id 0 stays unacceptable *)
RelayJob(a) == /\ UNCHANGED <<tasks, used, open>>
               /\ last' = [None EXCEPT !.op = "RelayJob", !.a = a]
               /\ Log("RelayJob", a, 0, "")
Next == /\ Len(hist) < MaxOps
        /\ \E a \in Agents, r \in Ids :
              \/ Issue(a, r)
              \/ \E c \in Classes : Callback(a, r, c)
              \/ HandOut(a) \/ RelayJob(a)

Spec == Init /\ [][Next]_vars

-----------------------------------------------------------------------------
(* C05 *)
OnlyOutstandingHaveEffect ==
    last.op = "Callback" /\ last.effect => last.accepted

AcceptedOnlyIf ==     \* the three admissible reasons
    last.op = "Callback" /\ last.accepted /\ last.c \notin Relay /\ ~(SendLogs /\ last.c = "beacon")
        => last.r \in used

FinalRetires ==       \* after a processed final callback the id is no longer outstanding
    last.op = "Callback" /\ last.accepted /\ last.c \in Final => last.r \notin tasks[last.a]

TasksIssued == \A a \in Agents : tasks[a] \subseteq used
NoSharing == \A a, b \in Agents : a # b => tasks[a] \cap tasks[b] = {}
=============================================================================
