------------------------------ MODULE Profile ------------------------------
(* C14 — a profile file means what it says.

   A profile is a document: a sequence of items (block opened / attribute set / comment or blank line /
   block closed) written top to bottom.  The specification reads a document item by item, exactly as the
   file is laid out, and keeps

     cfg     what the loader must produce: attribute path -> value (every attribute of every block that is
             present, the omitted ones at their zero value)
     faults  what makes the document invalid (missing required attribute, repeated single block, unknown
             attribute or block, wrong number of labels, attribute set twice, value of the wrong kind),
             each with the name of the offending item and the lines where it is
     line    the line the next item starts on (the place a diagnostic has to point to)

   The schema is the one of pkg/profile/config.go (struct tags).  Values are written as *spelled values*:
   a string is a sequence of lexemes (atom, spelling) where the spelling is raw / backslash escape / \xHH
   / template escape, in a quoted literal or a heredoc; numbers may be quoted; lists and maps have layout
   variants.  Denote() gives the meaning of a spelled value; it depends on the atoms only, never on how
   they are spelled - that is the clause "any spelling the dialect accepts yields exactly that value". *)
EXTENDS Integers, Sequences, FiniteSets, TLC, SequencesExt

A(n, k, r) == [name |-> n, kind |-> k, req |-> r]
Bk(n, m, l) == [name |-> n, multi |-> m, labels |-> l]

FullSchema == [
  ROOT |-> [attrs |-> {},
      blocks |-> {Bk("Teamserver", FALSE, <<>>), Bk("Operators", FALSE, <<>>), Bk("Listeners", FALSE, <<>>), Bk("Demon", FALSE, <<>>), Bk("Service", FALSE, <<>>), Bk("WebHook", FALSE, <<>>)}],
  Teamserver |-> [attrs |-> {A("Host", "str", TRUE), A("Port", "int", TRUE)},
      blocks |-> {Bk("Build", FALSE, <<>>)}],
  Build |-> [attrs |-> {A("Compiler64", "str", FALSE), A("Compiler86", "str", FALSE), A("Nasm", "str", FALSE)},
      blocks |-> {}],
  Operators |-> [attrs |-> {},
      blocks |-> {Bk("user", TRUE, <<"Name">>)}],
  user |-> [attrs |-> {A("Password", "str", TRUE)},
      blocks |-> {}],
  Listeners |-> [attrs |-> {},
      blocks |-> {Bk("Http", TRUE, <<>>), Bk("Smb", TRUE, <<>>), Bk("External", TRUE, <<>>)}],
  Http |-> [attrs |-> {A("Name", "str", TRUE), A("KillDate", "str", FALSE), A("WorkingHours", "str", FALSE), A("Hosts", "list", TRUE), A("HostBind", "str", TRUE), A("HostRotation", "str", TRUE), A("PortBind", "int", TRUE), A("PortConn", "int", FALSE), A("Method", "str", FALSE), A("UserAgent", "str", FALSE), A("Headers", "list", FALSE), A("Uris", "list", FALSE), A("Secure", "bool", FALSE)},
      blocks |-> {Bk("Cert", FALSE, <<>>), Bk("Response", FALSE, <<>>), Bk("Proxy", FALSE, <<>>)}],
  Cert |-> [attrs |-> {A("Cert", "str", TRUE), A("Key", "str", TRUE)},
      blocks |-> {}],
  Response |-> [attrs |-> {A("Headers", "list", FALSE)},
      blocks |-> {}],
  Proxy |-> [attrs |-> {A("Host", "str", TRUE), A("Port", "int", TRUE), A("Username", "str", FALSE), A("Password", "str", FALSE)},
      blocks |-> {}],
  Smb |-> [attrs |-> {A("Name", "str", TRUE), A("PipeName", "str", TRUE), A("KillDate", "str", FALSE), A("WorkingHours", "str", FALSE)},
      blocks |-> {}],
  External |-> [attrs |-> {A("Name", "str", TRUE), A("Endpoint", "str", TRUE)},
      blocks |-> {}],
  Demon |-> [attrs |-> {A("Sleep", "int", FALSE), A("Jitter", "int", FALSE), A("IndirectSyscall", "bool", FALSE), A("StackDuplication", "bool", FALSE), A("SleepTechnique", "str", FALSE), A("ProxyLoading", "str", FALSE), A("AmsiEtwPatching", "str", FALSE), A("DotNetNamePipe", "str", FALSE), A("TrustXForwardedFor", "bool", FALSE)},
      blocks |-> {Bk("Injection", FALSE, <<>>), Bk("Binary", FALSE, <<>>)}],
  Injection |-> [attrs |-> {A("Spawn64", "str", FALSE), A("Spawn32", "str", FALSE)},
      blocks |-> {}],
  Binary |-> [attrs |-> {A("ReplaceStrings-x64", "map", FALSE), A("ReplaceStrings-x86", "map", FALSE)},
      blocks |-> {Bk("Header", FALSE, <<>>)}],
  Header |-> [attrs |-> {A("MagicMz-x64", "str", FALSE), A("MagicMz-x86", "str", FALSE), A("CompileTime", "str", FALSE), A("ImageSize-x64", "int", FALSE), A("ImageSize-x86", "int", FALSE)},
      blocks |-> {}],
  Service |-> [attrs |-> {A("Endpoint", "str", TRUE), A("Password", "str", TRUE)},
      blocks |-> {}],
  WebHook |-> [attrs |-> {},
      blocks |-> {Bk("Discord", FALSE, <<>>)}],
  Discord |-> [attrs |-> {A("Url", "str", TRUE), A("AvatarUrl", "str", FALSE), A("User", "str", FALSE)},
      blocks |-> {}]]

Schema == FullSchema          \* the bounded model replaces this with a two-block schema
Types == DOMAIN Schema
AttrsOf(t) == Schema[t].attrs
AttrNames(t) == {a.name : a \in AttrsOf(t)}
AttrDef(t, n) == CHOOSE a \in AttrsOf(t) : a.name = n
BlocksOf(t) == Schema[t].blocks
BlockNames(t) == {b.name : b \in BlocksOf(t)}
BlockDef(t, n) == CHOOSE b \in BlocksOf(t) : b.name = n

(* ---------------------------------------------------------------- strings: atoms and their spellings *)
(* an atom is one character (or the two-character template opener) of a value; the harness owns the bytes *)
Atoms == {"z", "b", "4", "x", "n", "sp", "eac", "emo", "q", "bs", "nl", "cr", "tab", "dol", "pct", "ob", "cb",
          "dolob", "pctob", "hash", "sl", "star", "eq", "nul", "cmb"}
Spellings == {"raw", "esc", "hex", "HEX", "tesc"}
HasEsc == {"q", "bs", "nl", "cr", "tab"}
TemplOpen == {"dolob", "pctob"}
(* may lexeme (a, s) be followed by an atom nx ("" at the end) inside container c ("q" quoted, "h" heredoc)? *)
Legal(c, a, s, nx) ==
  CASE s = "raw"  -> /\ a \notin TemplOpen \cup {"nul"}
                     /\ (c = "q" => a \notin {"q", "bs", "nl", "cr"})
                     /\ (c = "h" => a # "cr")
                     /\ (a = "dol" => nx \notin {"dol", "ob", "dolob"})
                     /\ (a = "pct" => nx \notin {"pct", "ob", "pctob"})
    [] s = "esc"  -> c = "q" /\ a \in HasEsc
    [] s \in {"hex", "HEX"} -> c = "q"
    [] s = "tesc" -> a \in TemplOpen
LegalLx(c, lx) == \A i \in 1..Len(lx) : Legal(c, lx[i].a, lx[i].s, IF i < Len(lx) THEN lx[i + 1].a ELSE "")
AtomsOf(lx) == [i \in 1..Len(lx) |-> lx[i].a]

(* ---------------------------------------------------------------- spelled values *)
(* [f "q", lx]  quoted string          [f "h", lx, ind]  heredoc (value = lexemes + final newline)
   [f "id", lx] bare identifier (labels, map keys)
   [f "n", d]   number literal         [f "nq", d]       the same digits inside quotes
   [f "b", v]   true / false           [f "bq", v]       "true" / "false"
   [f "l", items, ml, tr]  list (multi-line?, trailing comma?)
   [f "m", pairs, colon, ml] map with = or : *)
GoodInt == [d \in {"0", "7", "007", "1e3", "40056", "65535", "-3", "9223372036854775807", "-9223372036854775808"} |->
             CASE d = "007" -> "7" [] d = "1e3" -> "1000" [] OTHER -> d]
BadInt == {"9223372036854775808", "-9223372036854775809", "1.5"}
(* the value of a lexeme sequence: its atoms, the two-character template openers written out *)
Val(lx) == FlattenSeq([i \in 1..Len(lx) |-> IF lx[i].a = "dolob" THEN <<"dol", "ob">> ELSE IF lx[i].a = "pctob" THEN <<"pct", "ob">> ELSE <<lx[i].a>>])
IsStr(sv) == sv.f \in {"q", "h"}
StrOf(sv) == IF sv.f = "h" THEN Val(sv.lx) \o <<"nl">> ELSE Val(sv.lx)
(* "ok": the value fits the attribute kind, "bad": it cannot be converted to it *)
Class(k, sv) ==
  CASE k = "str"  -> IF IsStr(sv) THEN "ok" ELSE IF sv.f \in {"l", "m"} THEN "bad" ELSE "unspec"
    [] k = "int"  -> IF sv.f \in {"n", "nq"} THEN (IF sv.d \in DOMAIN GoodInt THEN "ok" ELSE "bad")
                     ELSE IF sv.f \in {"b", "l", "m"} THEN "bad"
                     ELSE IF sv.f = "q" /\ "z" \in ToSet(AtomsOf(sv.lx)) THEN "bad" ELSE "unspec"
    [] k = "bool" -> IF sv.f \in {"b", "bq"} THEN "ok"
                     ELSE IF sv.f \in {"n", "l", "m"} THEN "bad"
                     ELSE IF sv.f = "q" /\ "z" \in ToSet(AtomsOf(sv.lx)) THEN "bad" ELSE "unspec"
    [] k = "list" -> IF sv.f = "l" THEN (IF \A i \in 1..Len(sv.items) : IsStr(sv.items[i]) THEN "ok"
                                          ELSE IF \E i \in 1..Len(sv.items) : sv.items[i].f \in {"l", "m"} THEN "bad" ELSE "unspec")
                     ELSE IF sv.f \in {"q", "h", "n", "b"} THEN "bad" ELSE "unspec"
    [] k = "map"  -> IF sv.f = "m" THEN "ok" ELSE IF sv.f \in {"q", "n", "b"} \/ (sv.f = "l" /\ Len(sv.items) > 0) THEN "bad" ELSE "unspec"
Zero(k) == CASE k = "str" -> [t |-> "str", v |-> <<>>] [] k = "int" -> [t |-> "int", v |-> "0"] [] k = "bool" -> [t |-> "bool", v |-> FALSE]
             [] k = "list" -> [t |-> "list", v |-> <<>>] [] k = "map" -> [t |-> "map", v |-> <<>>]
Denote(k, sv) ==
  CASE k = "str"  -> [t |-> "str", v |-> StrOf(sv)]
    [] k = "int"  -> [t |-> "int", v |-> GoodInt[sv.d]]
    [] k = "bool" -> [t |-> "bool", v |-> sv.v]
    [] k = "list" -> [t |-> "list", v |-> [i \in 1..Len(sv.items) |-> StrOf(sv.items[i])]]
    [] k = "map"  -> [t |-> "map", v |-> [i \in 1..Len(sv.pairs) |-> <<Val(sv.pairs[i].k.lx), StrOf(sv.pairs[i].v)>>]]
CountNl(lx) == Cardinality({i \in 1..Len(lx) : lx[i].a = "nl"})
Lines(sv) == CASE sv.f = "h" -> 3 + CountNl(sv.lx)
               [] sv.f = "l" /\ sv.ml -> 2 + Len(sv.items)
               [] sv.f = "m" /\ sv.ml -> 2 + Len(sv.pairs)
               [] OTHER -> 1
SameVal(a, b) == /\ a.t = b.t
                 /\ IF a.t = "map" THEN ToSet(a.v) = ToSet(b.v) /\ Len(a.v) = Len(b.v) ELSE a.v = b.v

(* ---------------------------------------------------------------- the reader *)
VARIABLES stack, cfg, assigned, opened, faults, line, done, hist
vars == <<stack, cfg, assigned, opened, faults, line, done, hist>>

Path(inst, n) == inst \o "/" \o n
Frame(t, inst, ln, dead) == [t |-> t, inst |-> inst, line |-> ln, seen |-> {}, dead |-> dead,
                             kids |-> IF dead THEN <<>> ELSE [n \in BlockNames(t) |-> 0]]
Top == stack[Len(stack)]
Fault(k, n, lo, hi) == [kind |-> k, name |-> n, lo |-> lo, hi |-> hi]
NoEmpty == [p \in {} |-> 0]

Init == /\ stack = <<Frame("ROOT", "", 0, FALSE)>> /\ cfg = NoEmpty /\ assigned = {} /\ opened = {}
        /\ faults = {} /\ line = 1 /\ done = FALSE /\ hist = <<>>

(* state after opening a block of type t with the given labels at the current line *)
Opened(S, t, labels, ln) ==
  LET top == S.stack[Len(S.stack)]
      push(f) == [S EXCEPT !.stack = Append(@, f)]
      dead(k) == [push(Frame(t, "", ln, TRUE)) EXCEPT !.faults = @ \cup {Fault(k, t, ln, ln)}]
  IN IF top.dead THEN push(Frame(t, "", ln, TRUE))
     ELSE IF t \notin BlockNames(top.t) THEN dead("unknown-block")
     ELSE LET def == BlockDef(top.t, t) IN
       IF ~def.multi /\ top.kids[t] >= 1 THEN dead("dup-block")
       ELSE IF Len(labels) # Len(def.labels) \/ \E i \in 1..Len(labels) : labels[i].f \notin {"q", "id"} THEN dead("labels")
       ELSE LET idx == top.kids[t] + 1
                inst == top.inst \o "/" \o t \o (IF def.multi THEN "[" \o ToString(idx) \o "]" ELSE "")
                zeros == [p \in {Path(inst, n) : n \in AttrNames(t)} |-> Zero(AttrDef(t, CHOOSE n \in AttrNames(t) : Path(inst, n) = p).kind)]
                labs == [p \in {Path(inst, def.labels[i]) : i \in 1..Len(labels)} |->
                          [t |-> "str", v |-> Val(labels[CHOOSE i \in 1..Len(labels) : Path(inst, def.labels[i]) = p].lx)]]
            IN [S EXCEPT !.stack = Append([@ EXCEPT ![Len(@)].kids[t] = idx], Frame(t, inst, ln, FALSE)),
                         !.cfg = @ @@ zeros @@ labs,
                         !.assigned = @ \cup DOMAIN labs,
                         !.opened = @ \cup {[inst |-> inst, t |-> t, labels |-> def.labels]}]
(* state after the innermost block is closed *)
Closed(S) ==
  LET top == S.stack[Len(S.stack)]
      missing == IF top.dead THEN {} ELSE {a.name : a \in {x \in AttrsOf(top.t) : x.req /\ x.name \notin top.seen}}
  IN [S EXCEPT !.stack = SubSeq(@, 1, Len(@) - 1),
               !.faults = @ \cup {Fault("missing", n, top.line, top.line) : n \in missing}]
(* state after "name = sv" starting at line ln *)
Assigned(S, name, sv, ln) ==
  LET top == S.stack[Len(S.stack)]
      hi == ln + Lines(sv) - 1
      bad(k) == [S EXCEPT !.faults = @ \cup {Fault(k, name, ln, hi)}, !.stack[Len(S.stack)].seen = @ \cup {name}]
  IN IF top.dead THEN S
     ELSE IF name \notin AttrNames(top.t) THEN bad("unknown-attr")
     ELSE IF name \in top.seen THEN bad("dup-attr")
     ELSE LET k == AttrDef(top.t, name).kind IN
       IF Class(k, sv) = "bad" THEN bad("kind")
       ELSE [S EXCEPT !.cfg[Path(top.inst, name)] = Denote(k, sv), !.assigned = @ \cup {Path(top.inst, name)},
                      !.stack[Len(S.stack)].seen = @ \cup {name}]

St == [stack |-> stack, cfg |-> cfg, assigned |-> assigned, opened |-> opened, faults |-> faults]
Become(S) == stack' = S.stack /\ cfg' = S.cfg /\ assigned' = S.assigned /\ opened' = S.opened /\ faults' = S.faults

WellSpelled(sv) ==
  CASE sv.f = "q" -> LegalLx("q", sv.lx)
    [] sv.f = "h" -> LegalLx("h", sv.lx)
    [] sv.f = "id" -> Len(sv.lx) > 0 /\ \A i \in 1..Len(sv.lx) : sv.lx[i].s = "raw" /\ sv.lx[i].a \in {"z", "b", "x", "n"}
    [] sv.f = "l" -> /\ \A i \in 1..Len(sv.items) : sv.items[i].f = "q" => LegalLx("q", sv.items[i].lx)
                     /\ (sv.tr => Len(sv.items) > 0)              \* "[,]" is not a list
    [] sv.f = "m" -> \A i \in 1..Len(sv.pairs) : /\ sv.pairs[i].k.f \in {"q", "id"} /\ sv.pairs[i].v.f = "q"
                                                 /\ LegalLx("q", sv.pairs[i].v.lx)
                                                 /\ (sv.pairs[i].k.f = "q" => LegalLx("q", sv.pairs[i].k.lx))
    [] OTHER -> TRUE

Open(t, labels, lay) ==
  /\ ~done /\ \A i \in 1..Len(labels) : WellSpelled(labels[i])
  /\ Become(Opened(St, t, labels, line)) /\ line' = line + 1 /\ UNCHANGED done
  /\ hist' = Append(hist, [e |-> "open", t |-> t, labels |-> labels, lay |-> lay, line |-> line])
Close ==
  /\ ~done /\ Len(stack) > 1
  /\ Become(Closed(St)) /\ line' = line + 1 /\ UNCHANGED done
  /\ hist' = Append(hist, [e |-> "close", line |-> line])
(* a block opened and closed on one line:  Build {} *)
Empty(t, labels, lay) ==
  /\ ~done /\ \A i \in 1..Len(labels) : WellSpelled(labels[i])
  /\ Become(Closed(Opened(St, t, labels, line))) /\ line' = line + 1 /\ UNCHANGED done
  /\ hist' = Append(hist, [e |-> "empty", t |-> t, labels |-> labels, lay |-> lay, line |-> line])
Attr(name, sv, lay) ==
  /\ ~done /\ WellSpelled(sv)
  /\ (~Top.dead /\ name \in AttrNames(Top.t) /\ name \notin Top.seen) => Class(AttrDef(Top.t, name).kind, sv) # "unspec"
  /\ Become(Assigned(St, name, sv, line)) /\ line' = line + Lines(sv) /\ UNCHANGED done
  /\ hist' = Append(hist, [e |-> "attr", name |-> name, sv |-> sv, lay |-> lay, line |-> line])
(* comment or blank line: no meaning *)
TriviaKinds == {"hash", "slashes", "block", "blank", "tricky"}
Trivia(k) ==
  /\ ~done /\ k \in TriviaKinds
  /\ line' = line + 1 /\ UNCHANGED <<stack, cfg, assigned, opened, faults, done>>
  /\ hist' = Append(hist, [e |-> "trivia", k |-> k, line |-> line])
End ==
  /\ ~done /\ Len(stack) = 1
  /\ done' = TRUE /\ UNCHANGED <<stack, cfg, assigned, opened, faults, line>>
  /\ hist' = Append(hist, [e |-> "end", line |-> line])

(* ---------------------------------------------------------------- what the loader owes the reader *)
Valid == faults = {}
(* obs = [panic, err, cfg, diags] as observed from the real loader after the whole document *)
AcceptsValid(obs) == (done /\ Valid) => /\ ~obs.err
                                        /\ DOMAIN obs.cfg = DOMAIN cfg
                                        /\ \A p \in DOMAIN cfg : SameVal(obs.cfg[p], cfg[p])
RejectsInvalid(obs) == (done /\ ~Valid) => obs.err
Named == {"missing", "unknown-attr", "dup-attr", "unknown-block", "dup-block", "labels"}
NamesProblem(obs) == (done /\ ~Valid /\ obs.err) =>
   \E f \in faults : \E i \in 1..Len(obs.diags) :
       /\ obs.diags[i].line >= f.lo /\ obs.diags[i].line <= f.hi
       /\ (f.kind \in Named => f.name \in ToSet(obs.diags[i].names))

(* ---------------------------------------------------------------- model-level invariants *)
ReqPaths == {Path(i.inst, a.name) : i \in opened, a \in {x \in UNION {AttrsOf(t) : t \in Types} : FALSE}}
DomainOK == DOMAIN cfg = UNION {{Path(i.inst, n) : n \in AttrNames(i.t) \cup ToSet(i.labels)} : i \in opened}
UnassignedAreZero == \A i \in opened : \A a \in AttrsOf(i.t) : Path(i.inst, a.name) \notin assigned => cfg[Path(i.inst, a.name)] = Zero(a.kind)
RequiredHeld == (done /\ Valid) => \A i \in opened : \A a \in AttrsOf(i.t) : a.req => Path(i.inst, a.name) \in assigned
PlacesInFile == \A f \in faults : 1 <= f.lo /\ f.lo <= f.hi /\ f.hi < line
SingleOnce == \A i, j \in opened : i.inst = j.inst => i = j
=============================================================================
