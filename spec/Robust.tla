------------------------------- MODULE Robust -------------------------------
(***************************************************************************)
(* What may happen to any request on an agent-facing endpoint.             *)
(*   code: pkg/handlers/handlers.go parseAgentRequest / handleDemonAgent / *)
(*         handleServiceAgent, pkg/agent/agent.go ParseHeader,             *)
(*         pkg/agent/demons.go TaskDispatch (every CanIRead group),        *)
(*         cmd/server/service.go ServiceAgentExist                          *)
(* A cell = teamserver state class x packet class.  The packet classes are *)
(* the cells of: header length x magic x agent id x first command x        *)
(* command/sub-command id x body shape x encryption x relay depth.         *)
(***************************************************************************)
EXTENDS Integers, Sequences, FiniteSets, TLC

States  == {"fresh", "tasked", "downloading", "pivoting"}      \* reachable state classes (all have two registered agents)
Service == BOOLEAN                                             \* profile with / without a Service block
HdrLens == {"0", "3", "4", "8", "11", "12", "16", "19", "20", "full"}
Magics  == {"demon", "other"}
Agents  == {"known", "unknown", "zero", "child"}
Firsts  == {"init", "getjob", "callback", "getjob+callback"}
Cmds    == {1, 10, 11, 12, 15, 20, 21, 22, 24, 26, 27, 40, 89, 90, 91, 92, 93, 94, 99, 100, 2100, 2500, 2510, 2520, 2530, 2540, 2550, 2560, 2570, 4112, 4113, 8193, 8195, 7777}
Subs    == 0..21 \cup {30, 101, 102, 150, 151, 152, 153, 154, 155}
Shapes  == {"none", "subonly", "stray", "ints2", "ints6", "bytes0", "bytes_odd", "bytes_even", "int_bytes_odd", "hugelen", "mix", "bools_bytes", "random", "int64s", "nested_reg_bad", "nested_reg_ok",
             "list_emptyroot", "list_entries", "empties",
             "list_sizes", "open_sizes"}      \* 64-bit size fields at the boundaries of the signed range (2^63, 2^63 - 1, 2^63 + 1, 2^64 - 1): a listing's totals and entries, a download's announced size
           \*      \* well-formed listing replies with empty names / empty strings everywhere
Keys    == {"right", "wrong"}
Depths  == 0..2

Cells == [state : States, service : Service, hdr : HdrLens, magic : Magics, agent : Agents, first : Firsts, cmd : Cmds, sub : Subs, shape : Shapes, key : Keys, depth : Depths]

VARIABLES cell, last
vars == <<cell, last>>
Init == cell \in Cells /\ last = [op |-> "none"]

LongEnough(c) == c.hdr \in {"16", "19", "20", "full"}      \* 12 header bytes and at least 4 more
(* a relayed packet (depth > 0) arrives inside a callback of the known parent, so the outer request is the parent's *)
OuterKnown(c) == c.depth > 0 \/ c.agent \in {"known", "child"}
(* which requests are protocol traffic at all: only those may be answered with a protocol reply and may change state *)
Traffic(c) == /\ LongEnough(c) /\ c.magic = "demon"
              /\ \/ OuterKnown(c)
                 \/ (c.agent = "unknown" /\ c.first = "init" /\ c.shape = "nested_reg_ok" /\ c.hdr = "full")   \* a well-formed registration

Handle == /\ last.op = "none"
          /\ last' = [op |-> "Handle", outcome |-> IF Traffic(cell) THEN "reply" ELSE "decoy", ok |-> TRUE, touched |-> Traffic(cell)]
          /\ UNCHANGED cell
Spec == Init /\ [][Handle]_vars
-----------------------------------------------------------------------------
(* C01 *)
TerminatesCleanly == last.op = "Handle" => last.ok                       \* no panic, no hang, no lock left held
ReplyOrDecoy == last.op = "Handle" => last.outcome \in {"reply", "decoy"}
RejectedTouchesNothing == last.op = "Handle" /\ last.outcome = "decoy" => ~last.touched
=============================================================================
