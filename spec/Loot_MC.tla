----------------------------- MODULE Loot_MC -----------------------------
(* constants that a cfg file cannot express (sets of sequences) *)
EXTENDS Loot
Comps == {"..", ".", "", "Download", "Download_x", "sub", "f"}
NameSet == UNION {[1..n -> Comps] : n \in 1..3}
SmallNames == {<<"f">>, <<"sub", "f">>, <<"..", "Download_x", "f">>, <<"..", "f">>, <<"sub", "..", "f">>, <<"..", "..", "f">>,
               <<"", "f">>, <<".", "f">>, <<"sub", "">>, <<"..">>, <<"..", "Download", "f">>, <<"Download_x", "f">>}
=============================================================================
