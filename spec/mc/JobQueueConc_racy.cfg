SPECIFICATION Spec
CONSTANTS Producers = {1, 2}
 PerProducer = 2
 Atomic = FALSE
INVARIANTS ExactlyOnce
CHECK_DEADLOCK FALSE
