SPECIFICATION Spec
INVARIANTS OnlyIfMatches RejectedIsDecoy AnswersCarryHeaders AddressAttribution
CHECK_DEADLOCK FALSE
