SPECIFICATION Spec
CONSTANTS
  Ids = {"i1", "i2"}
  Keys = {"k1", "k2", "kz"}
  Metas = {"m1", "m2"}
  MaxOps = 1000
VIEW view
INVARIANTS UniqueIds MetaAsSent RegCreatesOne
PROPERTY IdImmutable
CHECK_DEADLOCK FALSE
