SPECIFICATION Spec
CONSTANTS
  MaxFields = 2
  MaxBytes = 3
  MaxResidue = 9
INVARIANTS PreflightExact RoundTrip
CHECK_DEADLOCK FALSE
