SPECIFICATION SmallSpec
INVARIANTS TerminatesCleanly ReplyOrDecoy RejectedTouchesNothing
CHECK_DEADLOCK FALSE
