SPECIFICATION Spec
CONSTANTS
  Socks = {"s1", "s2"}
  UpChunks = {"a", "B"}
  DownChunks = {"x", "Y"}
  MaxOps = 8
VIEW view
INVARIANTS TypeOK UpIntact DownIntact ClosedEverywhere
PROPERTIES Delivered NoReaderLeftBehind
CHECK_DEADLOCK FALSE
