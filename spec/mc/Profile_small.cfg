SPECIFICATION SmallSpec
CONSTANT Schema <- SmallSchema
VIEW smallview
INVARIANTS DomainOK UnassignedAreZero RequiredHeld PlacesInFile SingleOnce SpellingIrrelevant
PROPERTY FaultsStay
CHECK_DEADLOCK FALSE
