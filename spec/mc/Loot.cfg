SPECIFICATION Spec
CONSTANTS
  Agents = {"a1", "a2"}
  Fids = {1, 2}
  Names <- SmallNames
  Chunks = {"c1", "c2"}
  MaxOps = 5
VIEW view
INVARIANTS OwnFolderOnly OpenTargetsExist
CHECK_DEADLOCK FALSE
