SPECIFICATION Spec
INVARIANTS PassedAsData NothingElseRuns
CHECK_DEADLOCK FALSE
