---------------------------- MODULE Robust_small ----------------------------
(* the design check enumerates a representative sub-product (the full product has 3.3e9 cells and no interaction
   beyond what Traffic() mentions); the replayed cells are sampled from the full product *)
EXTENDS Robust
SmallCells == {c \in [state : States, service : Service, hdr : HdrLens, magic : Magics, agent : Agents, first : Firsts, cmd : {11, 15, 99, 2520, 7777}, sub : {0, 1, 10}, shape : Shapes, key : Keys, depth : Depths] : TRUE}
SmallInit == cell \in SmallCells /\ last = [op |-> "none"]
SmallSpec == SmallInit /\ [][Handle]_vars
=============================================================================
