SPECIFICATION Spec
INVARIANTS ClosedMeansGone NoTaskWithoutRequest
CHECK_DEADLOCK FALSE
