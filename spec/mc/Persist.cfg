SPECIFICATION Spec
CONSTANTS
  Agents = {"a1", "a2", "a3"}
  Metas = {"m1", "m2"}
  Lst = {"l1"}
  MaxOps = 1000
VIEW view
INVARIANTS Quiescent AckedSurvive OnlyKnown DeadStayDead NoDanglingChild
CHECK_DEADLOCK FALSE
