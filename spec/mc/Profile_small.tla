--------------------------- MODULE Profile_small ---------------------------
(* bounded model of the profile reader: a two-block schema, a handful of spelled values, documents of up to 7 lines;
   every document (valid or not) is read to the end *)
EXTENDS Profile
SmallSchema == [
  ROOT |-> [attrs |-> {}, blocks |-> {Bk("Teamserver", FALSE, <<>>), Bk("Operators", FALSE, <<>>)}],
  Teamserver |-> [attrs |-> {A("Host", "str", TRUE), A("Port", "int", TRUE)}, blocks |-> {}],
  Operators |-> [attrs |-> {}, blocks |-> {Bk("user", TRUE, <<"Name">>)}],
  user |-> [attrs |-> {A("Password", "str", TRUE)}, blocks |-> {}]]
Lx(a, s) == [a |-> a, s |-> s]
Q(lx) == [f |-> "q", lx |-> lx]
Vals == {Q(<<Lx("z", "raw")>>), Q(<<Lx("z", "hex")>>), Q(<<Lx("q", "esc"), Lx("b", "raw")>>),
         [f |-> "h", lx |-> <<Lx("z", "raw")>>, ind |-> FALSE],
         [f |-> "n", d |-> "7"], [f |-> "nq", d |-> "007"], [f |-> "n", d |-> "1.5"],
         [f |-> "l", items |-> <<Q(<<Lx("z", "raw")>>)>>, ml |-> FALSE, tr |-> FALSE]}
Names == {"Host", "Port", "Password", "Bogus"}
BTypes == {"Teamserver", "Operators", "user", "Bogus"}
Labs == {<<>>, <<Q(<<Lx("z", "raw")>>)>>, <<[f |-> "id", lx |-> <<Lx("z", "raw")>>]>>}
MaxLine == 5
SmallNext == /\ line <= MaxLine
             /\ \/ \E t \in BTypes, ls \in Labs : Open(t, ls, "") \/ Empty(t, ls, "")
                \/ \E n \in Names, v \in Vals : Attr(n, v, "")
                \/ Trivia("hash")
                \/ Close
                \/ End
SmallSpec == Init /\ [][SmallNext]_vars
smallview == <<stack, cfg, assigned, opened, faults, line, done>>
(* the same value spelled differently has the same effect *)
SpellingIrrelevant == \A n \in Names, v1, v2 \in Vals :
   (~done /\ ~Top.dead /\ n \in AttrNames(Top.t) /\ Class(AttrDef(Top.t, n).kind, v1) = "ok" /\ Class(AttrDef(Top.t, n).kind, v2) = "ok"
     /\ Denote(AttrDef(Top.t, n).kind, v1) = Denote(AttrDef(Top.t, n).kind, v2))
   => Assigned(St, n, v1, line).cfg = Assigned(St, n, v2, line).cfg
(* a fault never disappears, and a finished valid document has all it needs *)
FaultsStay == [][faults \subseteq faults']_vars
=============================================================================
