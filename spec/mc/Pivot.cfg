SPECIFICATION Spec
CONSTANTS
  Agents = {"a1", "a2", "a3", "a4"}
  MaxOps = 1000
VIEW view
INVARIANTS TypeOK AtMostOneParent LinksMatch NoDupLinks Acyclic DbMirror DiedDetaches Completes
CHECK_DEADLOCK FALSE
