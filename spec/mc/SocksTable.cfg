SPECIFICATION Spec
CONSTANTS
  Ports = {"p1", "p2", "p3"}
  MaxOps = 1000
VIEW view
INVARIANTS NoDuplicates ListedIsLive Completes
CHECK_DEADLOCK FALSE
