SPECIFICATION Spec
CONSTANTS
  Clients = {"c1", "c2", "c3"}
  Agents = {"a1", "a2"}
  Lst = {"l1"}
  MaxOps = 6
VIEW view
INVARIANTS NothingBeforeAuth ErrorOnlyAfterRefusal Completes NoRemovedListenerRetained NoOneShotRetained
CHECK_DEADLOCK FALSE
