SPECIFICATION Spec
CONSTANTS Producers = {1, 2, 3}
 PerProducer = 3
 Atomic = TRUE
INVARIANTS ExactlyOnce PerProducerOrder
CHECK_DEADLOCK FALSE
