SPECIFICATION Spec
CONSTANTS
  MaxFields = 3
  MaxBytes = 3
  MaxResidue = 9
INVARIANTS PreflightExact RoundTrip
CHECK_DEADLOCK FALSE
