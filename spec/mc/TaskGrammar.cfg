SPECIFICATION Spec
INVARIANTS AsIssued NeverInClear
CHECK_DEADLOCK FALSE
