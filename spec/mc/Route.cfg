SPECIFICATION Spec
CONSTANTS
  Classes = {"one", "small", "topbit", "max"}
  MaxLen = 6
  Defects = {}
INVARIANTS RoutedDown RoutedUp
CHECK_DEADLOCK FALSE
