SPECIFICATION Spec
CONSTANTS Clients = {"c1", "c2", "c3"}
 MaxOps = 5
INVARIANTS LiveSeeEverything AgentsServed
CHECK_DEADLOCK FALSE
