SPECIFICATION Spec
CONSTANTS
  Names = {"n1", "n2"}
  Svc = {"s1", "s2"}
  Items = {"x1", "x2"}
  MaxOps = 1000
VIEW view
INVARIANTS UniqueNames ThreeViews PortsFollow OwnerScoped KeepsRunning
CHECK_DEADLOCK FALSE
