SPECIFICATION Spec
CONSTANTS
  Reqs = {"r1", "r2", "r3"}
  MaxOps = 9
  BurstWidth = 16
INVARIANTS TypeOK NothingWaitsForNobody AnsweredOnce
PROPERTIES Terminates
CHECK_DEADLOCK FALSE
