SPECIFICATION Spec
INVARIANTS ConfigIsWhatWasChosen UnencodableFails
CHECK_DEADLOCK FALSE
