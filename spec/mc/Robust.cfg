SPECIFICATION Spec
INVARIANTS TerminatesCleanly ReplyOrDecoy RejectedTouchesNothing
CHECK_DEADLOCK FALSE
