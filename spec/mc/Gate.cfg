SPECIFICATION Spec
CONSTANTS
  Agents = {"a1", "a2"}
  Ids = {0, 1, 2}
  SendLogs = FALSE
  MaxOps = 1000
VIEW view
INVARIANTS OnlyOutstandingHaveEffect AcceptedOnlyIf FinalRetires TasksIssued NoSharing
CHECK_DEADLOCK FALSE
