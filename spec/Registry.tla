----------------------------- MODULE Registry -----------------------------
(***************************************************************************)
(* Listener registry (running / persisted / advertised) and the registry   *)
(* of third-party service connections with what each of them registered.   *)
(*   code: cmd/server/listener.go ListenerStart/ListenerRemove/            *)
(*         ListenerEdit/ListenerAdd/ListenerServiceExc2Add,                 *)
(*         cmd/server/dispatch.go (service-defined listener types),         *)
(*         pkg/handlers/http.go Start/Stop, pkg/db/listeners.go,            *)
(*         pkg/service/service.go authenticate/dispatch/ClientClose         *)
(***************************************************************************)
EXTENDS Integers, Sequences, FiniteSets, TLC

CONSTANTS Names,    \* listener names
          Svc,      \* service connections
          Items,    \* names of things a service connection registers
          MaxOps
None == "none"
Builtin == {"http", "smb", "ext"}

VARIABLES run,      \* [Names -> Builtin \cup {"svc", None}]   the running set (t.Listeners), by name
          dupl,     \* TRUE iff the running list holds a name twice
          db,       \* names in TS_Listeners
          adv,      \* names with a retained "listener added" event
          port,     \* names whose HTTP port accepts connections
          ver,      \* [Names -> 0..1]  which user agent the listener currently requires (edit toggles it)
          conn,     \* authenticated service connections
          sAgent,   \* [Items -> Svc \cup {None}]  owner of a registered agent type
          sLst,     \* [Items -> Svc \cup {None}]  owner of a registered listener type
          sExc2,    \* [Items -> Svc \cup {None}]  owner of an external-C2 endpoint/listener
          last, hist
vars == <<run, dupl, db, adv, port, ver, conn, sAgent, sLst, sExc2, last, hist>>
view == <<run, dupl, db, adv, port, ver, conn, sAgent, sLst, sExc2, last>>

Init == /\ run = [n \in Names |-> None] /\ dupl = FALSE /\ db = {} /\ adv = {} /\ port = {}
        /\ ver = [n \in Names |-> 0] /\ conn = {}
        /\ sAgent = [x \in Items |-> None] /\ sLst = [x \in Items |-> None] /\ sExc2 = [x \in Items |-> None]
        /\ last = [op |-> "none", ok |-> TRUE, done |-> TRUE] /\ hist = <<>>
Log(op, a, b) == hist' = Append(hist, [op |-> op, a |-> a, b |-> b])
Res(op, ok) == last' = [op |-> op, ok |-> ok, done |-> TRUE]
SvcSame == UNCHANGED <<conn, sAgent, sLst, sExc2>>

Add(n, k) ==    \* built-in kinds; "busy" = an HTTP listener whose port is taken: it is kept, offline;
                \* "extsame" = an External listener on the endpoint the other name's External listener has: kept like any other (not part of Next)
    /\ k \in Builtin \cup {"busy", "extsame"}
    /\ IF run[n] # None
       THEN UNCHANGED <<run, db, adv, port>> /\ Res("Add", FALSE)
       ELSE /\ run' = [run EXCEPT ![n] = IF k = "busy" THEN "http" ELSE IF k = "extsame" THEN "ext" ELSE k]
            /\ db' = db \cup {n} /\ adv' = adv \cup {n}
            /\ port' = IF k = "http" THEN port \cup {n} ELSE port
            /\ Res("Add", TRUE)
    /\ UNCHANGED <<dupl, ver>> /\ SvcSame /\ Log("Add", n, k)

AddSvcType(n, x) ==   \* an operator starts a listener of a service-defined type x: names still have to stay unique
    /\ sLst[x] # None
    /\ IF run[n] # None
       THEN UNCHANGED run /\ Res("AddSvcType", FALSE)
       ELSE run' = [run EXCEPT ![n] = "svc"] /\ Res("AddSvcType", TRUE)
    /\ UNCHANGED <<dupl, db, adv, port, ver>> /\ SvcSame /\ Log("AddSvcType", n, x)

Rm(n) ==
    /\ IF run[n] = None THEN UNCHANGED <<run, db, adv, port>> /\ Res("Remove", FALSE)
       ELSE /\ run' = [run EXCEPT ![n] = None] /\ db' = db \ {n} /\ adv' = adv \ {n} /\ port' = port \ {n}
            /\ Res("Remove", TRUE)
    /\ UNCHANGED <<dupl, ver>> /\ SvcSame /\ Log("Remove", n, "")

Edit(n) ==      \* HTTP only: the required user agent changes
    /\ run[n] = "http" /\ n \in port
    /\ ver' = [ver EXCEPT ![n] = 1 - @]
    /\ UNCHANGED <<run, dupl, db, adv, port>> /\ SvcSame /\ Res("Edit", TRUE) /\ Log("Edit", n, "")

Serve(n, v) ==  \* a request carrying user agent version v: admitted iff it is the current one
    /\ run[n] = "http" /\ n \in port
    /\ UNCHANGED <<run, dupl, db, adv, port, ver>> /\ SvcSame
    /\ Res("Serve", v = ver[n]) /\ Log("Serve", n, v)

SvcConnect(s, good) ==
    /\ s \notin conn
    /\ conn' = IF good THEN conn \cup {s} ELSE conn
    /\ UNCHANGED <<run, dupl, db, adv, port, ver, sAgent, sLst, sExc2>> /\ Res("SvcConnect", good) /\ Log("SvcConnect", s, IF good THEN "good" ELSE "bad")

SvcReg(s, what, x) ==   \* register an agent type, a listener type or an external-C2 endpoint named x
    /\ what \in {"agent", "listener", "exc2"}
    /\ LET free == (what = "agent" /\ sAgent[x] = None) \/ (what = "listener" /\ sLst[x] = None) \/ (what = "exc2" /\ sExc2[x] = None)
           ok == s \in conn /\ free IN
       /\ sAgent' = IF ok /\ what = "agent" THEN [sAgent EXCEPT ![x] = s] ELSE sAgent
       /\ sLst' = IF ok /\ what = "listener" THEN [sLst EXCEPT ![x] = s] ELSE sLst
       /\ sExc2' = IF ok /\ what = "exc2" THEN [sExc2 EXCEPT ![x] = s] ELSE sExc2
       /\ Res("SvcReg", ok)
    /\ UNCHANGED <<run, dupl, db, adv, port, ver, conn>> /\ Log("SvcReg", s, what \o ":" \o x)

SvcDisconnect(s) ==     \* exactly what s registered disappears
    /\ s \in conn
    /\ conn' = conn \ {s}
    /\ sAgent' = [x \in Items |-> IF sAgent[x] = s THEN None ELSE sAgent[x]]
    /\ sLst' = [x \in Items |-> IF sLst[x] = s THEN None ELSE sLst[x]]
    /\ sExc2' = [x \in Items |-> IF sExc2[x] = s THEN None ELSE sExc2[x]]
    /\ UNCHANGED <<run, dupl, db, adv, port, ver>> /\ Res("SvcDisconnect", TRUE) /\ Log("SvcDisconnect", s, "")

(* the teamserver stops and starts again on its database (not part of Next: generated by its own family).  The built-in
   listeners come back from TS_Listeners, what services had registered is gone with their connections.  busy: somebody else
   holds the HTTP ports while it starts - such a listener cannot accept now, but nobody removed it: it stays listed and
   persisted and runs again after the next start *)
Restart(busy) ==
    /\ \A n \in Names : ver[n] = 0
    /\ run' = [n \in Names |-> IF run[n] \in Builtin THEN run[n] ELSE None]
    /\ db' = db /\ adv' = {n \in Names : run[n] \in Builtin} /\ dupl' = FALSE
    /\ port' = IF busy THEN port ELSE {n \in Names : run[n] = "http"}      \* (busy: the ports still answer - whoever holds them does)
    /\ conn' = {} /\ sAgent' = [x \in Items |-> None] /\ sLst' = [x \in Items |-> None] /\ sExc2' = [x \in Items |-> None]
    /\ UNCHANGED ver /\ Res("Restart", TRUE) /\ Log("Restart", "", IF busy THEN "busy" ELSE "free")
(* every connected service goes away at the same moment (a network drop): as if they had left one after the other *)
SvcLeaveTogether ==
    /\ Cardinality(conn) >= 2
    /\ conn' = {}
    /\ sAgent' = [x \in Items |-> None] /\ sLst' = [x \in Items |-> None] /\ sExc2' = [x \in Items |-> None]
    /\ UNCHANGED <<run, dupl, db, adv, port, ver>> /\ Res("SvcLeaveTogether", TRUE) /\ Log("SvcLeaveTogether", "", "")
Next == /\ Len(hist) < MaxOps
        /\ \/ \E n \in Names, k \in Builtin \cup {"busy"} : Add(n, k)
           \/ \E n \in Names, x \in Items : AddSvcType(n, x)
           \/ \E n \in Names : Rm(n) \/ Edit(n)
           \/ \E n \in Names, v \in 0..1 : Serve(n, v)
           \/ \E s \in Svc, g \in BOOLEAN : SvcConnect(s, g)
           \/ \E s \in Svc, w \in {"agent", "listener", "exc2"}, x \in Items : SvcReg(s, w, x)
           \/ \E s \in Svc : SvcDisconnect(s)
           \/ SvcLeaveTogether
Spec == Init /\ [][Next]_vars
-----------------------------------------------------------------------------
(* C16 *)
UniqueNames == ~dupl
ThreeViews == LET B == {n \in Names : run[n] \in Builtin} IN B = db /\ B = adv
PortsFollow == port \subseteq {n \in Names : run[n] = "http"}
OwnerScoped == \A x \in Items : sAgent[x] \in conn \cup {None} /\ sLst[x] \in conn \cup {None} /\ sExc2[x] \in conn \cup {None}
KeepsRunning == last.done
=============================================================================
