----------------------------- MODULE Trace_Scan -----------------------------
(* judges what every lexer / parser entry point returned for one input text against ScanModes.tla *)
EXTENDS ScanModes, Json, IOUtils
TraceLog == ndJsonDeserialize(IOEnv.VERIF_TRACE)
Strict == IOEnv.VERIF_STRICT = "1"
VARIABLES l, cur
tvars == <<l, cur, vars>>
E == TraceLog[l]
None == [ev |-> "Reset"]
TraceInit == l = 1 /\ cur = None /\ st = Start("main") /\ hist = <<>>
Lexers == {"LexConfig", "LexExpression", "LexTemplate"}
Parsers == {"ParseConfig", "ParseExpression", "ParseTemplate", "ParseTraversalAbs", "json.Parse"}
Calls(e) == DOMAIN e.calls
(* strict: every recorded token stream is one the mode machine produces *)
StreamsExplained(e) == \A c \in Calls(e) \cap Lexers : e.calls[c].k = "lex" => ModesAccept(e.calls[c].mode, e.calls[c].toks)
Step == l <= Len(TraceLog) /\ l' = l + 1 /\ cur' = E /\ UNCHANGED vars
        /\ ((Strict /\ E.ev = "Text") => StreamsExplained(E))
TraceSpec == TraceInit /\ [][Step]_tvars
MonNoCrash == cur.ev = "Text" => ~cur.crashed
MonLexing == cur.ev = "Text" => \A c \in Calls(cur) \cap Lexers : cur.calls[c].k = "lex" => LexContract(cur.calls[c].toks, cur.len)
MonRanges == cur.ev = "Text" => \A c \in Calls(cur) : /\ (cur.calls[c].k = "parse" => TreeContract(cur.calls[c].nodes, cur.len) /\ DiagContract(cur.calls[c].diags, cur.len))
                                                   /\ (cur.calls[c].k = "lex" => DiagContract(cur.calls[c].diags, cur.len))
TraceAccepted == TLCGet("stats").diameter - 1 = Len(TraceLog)
=============================================================================
