SPECIFICATION FlushSpec
INVARIANTS Emit Total
CHECK_DEADLOCK FALSE
