------------------------------ MODULE Rewrite ------------------------------
(* C19 — equivalent configurations decode to the same result.

   A configuration is held as its *representation*: a sequence of files, each with a syntax (native / JSON),
   a layout, and a sequence of items (attribute, block with labels and a body, or a dynamic block standing
   for a run of blocks of one type).  Rewrites are actions on the representation, each with the condition
   under which it keeps the meaning:

     Syn      the same file in the other syntax
     Split    an item moved into a new last file          (the files are merged in order)
     Merge    two neighbouring files joined
     Dyn      all blocks of one type in a file replaced by one dynamic block over the same values
     Inner    the blocks nested inside such a dynamic block written as dynamic blocks as well, iterator named like the outer one
     Undyn    the reverse
     Reorder  the attributes of a body written in another order / after the blocks
     Lay      comments, blank lines, spacing, formatting changed
     Group    the merge of several files composed differently (all at once, from the left, from the right)

   Meaning(files) is what both decoders owe for the whole set of files: the attribute values, and per block
   type the blocks in order with their labels and (recursively) the meaning of their bodies.  The invariant
   MeaningKept says no rewrite changes it; the conformance check says the real decoders (hcldec and gohcl,
   through MergeBodies and dynblock.Expand as the representation demands) agree with it for every reachable
   representation. *)
EXTENDS Integers, Sequences, FiniteSets, TLC, SequencesExt

(* values: the payload is always a sequence of strings, so that any two values can be compared
   (number: its decimal text, flag: "true"/"false", list: the elements, map: key, value, key, value ...) *)
S(s) == [t |-> "str", v |-> <<s>>, sp |-> ""]
N(n) == [t |-> "num", v |-> <<ToString(n)>>, sp |-> ""]
B(b) == [t |-> "bool", v |-> <<IF b THEN "true" ELSE "false">>, sp |-> ""]
Ls(l) == [t |-> "list", v |-> l, sp |-> ""]
Mp(m) == [t |-> "map", v |-> FlattenSeq(m), sp |-> ""]
(* a string written as a template (the harness knows the text of each spelling): its meaning is still the string *)
Tm(sp, meaning) == [t |-> "str", v |-> <<meaning>>, sp |-> sp]
Plain(val) == [t |-> val.t, v |-> val.v]
Attr(n, v) == [k |-> "attr", name |-> n, val |-> v]
Blk(t, labels, body) == [k |-> "block", type |-> t, labels |-> labels, body |-> body]
DynOf(t, each) == [k |-> "dyn", type |-> t, each |-> each, inner |-> FALSE]     \* inner: its nested blocks are dynamic blocks too, iterating under the same name
File(syn, lay, items) == [syn |-> syn, lay |-> lay, items |-> items, grp |-> 0]
   \* grp (read on the first file only): how the merge of the files is composed: 0 all at once, 1 merge(merge(f1, f2), f3), 2 merge(f1, merge(f2, f3))

(* ---------------------------------------------------------------- meaning *)
Expand(items) == FlattenSeq([i \in 1..Len(items) |-> IF items[i].k = "dyn" THEN items[i].each ELSE <<items[i]>>])
AllItems(files) == Expand(FlattenSeq([f \in 1..Len(files) |-> files[f].items]))
BlockTypes(items) == {items[i].type : i \in {j \in 1..Len(items) : items[j].k = "block"}}
RECURSIVE BodyMeaning(_)
BodyMeaning(items) ==
  LET its == Expand(items)
      attrs == {<<its[i].name, Plain(its[i].val)>> : i \in {j \in 1..Len(its) : its[j].k = "attr"}}
      blocksOf(t) == SelectSeq(its, LAMBDA x : x.k = "block" /\ x.type = t)
  IN [attrs |-> attrs,
      blocks |-> [t \in BlockTypes(its) |-> LET bs == blocksOf(t) IN [i \in 1..Len(bs) |-> [labels |-> bs[i].labels, body |-> BodyMeaning(bs[i].body)]]]]
Meaning(files) == BodyMeaning(FlattenSeq([f \in 1..Len(files) |-> files[f].items]))
(* an attribute may be set once per body (also across merged files) *)
RECURSIVE WellFormedBody(_)
WellFormedBody(items) ==
  LET its == Expand(items)
      names == [i \in 1..Len(its) |-> IF its[i].k = "attr" THEN its[i].name ELSE ""]
  IN /\ \A i, j \in 1..Len(its) : (i # j /\ names[i] # "") => names[i] # names[j]
     /\ \A i \in 1..Len(its) : its[i].k = "block" => WellFormedBody(its[i].body)

(* ---------------------------------------------------------------- the rewrite system *)
CONSTANTS MaxFiles, MaxSteps
VARIABLES files, base, steps, hist
vars == <<files, base, steps, hist>>
Log(r) == hist' = Append(hist, r) /\ steps' = steps + 1 /\ steps < MaxSteps /\ UNCHANGED base

Syn(f) == /\ files' = [files EXCEPT ![f].syn = IF @ = "native" THEN "json" ELSE "native"]
          /\ Log([rw |-> "Syn", f |-> f])
(* item i of file f goes to a new last file: nothing of the same block type may follow it anywhere *)
LaterItems(f, i) == SubSeq(files[f].items, i + 1, Len(files[f].items))
                    \o (IF f = Len(files) THEN <<>> ELSE FlattenSeq([g \in 1..(Len(files) - f) |-> files[f + g].items]))
TypeOfItem(x) == IF x.k = "attr" THEN "" ELSE x.type
CanSplit(f, i) == LET x == files[f].items[i] IN
                  /\ Len(files) < MaxFiles /\ Len(files[f].items) > 1
                  /\ (x.k # "attr" => \A j \in 1..Len(LaterItems(f, i)) : TypeOfItem(LaterItems(f, i)[j]) # x.type)
Split(f, i) == /\ CanSplit(f, i)
               /\ files' = Append([files EXCEPT ![f].items = SubSeq(@, 1, i - 1) \o SubSeq(@, i + 1, Len(@))],
                                  File(files[f].syn, 0, <<files[f].items[i]>>))
               /\ Log([rw |-> "Split", f |-> f, i |-> i])
Merge(f) == /\ f < Len(files)
            /\ files' = SubSeq(files, 1, f - 1) \o <<[files[f] EXCEPT !.items = @ \o files[f + 1].items]>> \o SubSeq(files, f + 2, Len(files))
            /\ Log([rw |-> "Merge", f |-> f])
(* all blocks of type t in file f, when they sit next to each other and have the same shape, become one dynamic block *)
Shape(b) == <<Len(b.labels), {b.body[i].name : i \in {j \in 1..Len(b.body) : b.body[j].k = "attr"}},
              [i \in 1..Len(b.body) |-> b.body[i].k], {b.body[i].type : i \in {j \in 1..Len(b.body) : b.body[j].k = "block"}}>>
IdxOf(f, t) == {i \in 1..Len(files[f].items) : files[f].items[i].k = "block" /\ files[f].items[i].type = t}
Flat(b) == \A i \in 1..Len(b.body) : b.body[i].k = "attr" \/ (b.body[i].k = "block" /\ \A j \in 1..Len(b.body[i].body) : b.body[i].body[j].k = "attr")
CanDyn(f, t) == LET ix == IdxOf(f, t) IN
                /\ ix # {}
                /\ \A i \in ix, j \in ix : i < j => \A m \in i..j : m \in ix                 \* contiguous
                /\ \A i \in ix, j \in ix : Shape(files[f].items[i]) = Shape(files[f].items[j]) /\ Flat(files[f].items[i])
                /\ ~\E i \in 1..Len(files[f].items) : files[f].items[i].k = "dyn" /\ files[f].items[i].type = t
Dyn(f, t) == /\ CanDyn(f, t)
             /\ LET ix == IdxOf(f, t)  lo == CHOOSE i \in ix : \A j \in ix : i <= j  hi == CHOOSE i \in ix : \A j \in ix : j <= i IN
                files' = [files EXCEPT ![f].items = SubSeq(@, 1, lo - 1) \o <<DynOf(t, SubSeq(@, lo, hi))>> \o SubSeq(@, hi + 1, Len(@))]
             /\ Log([rw |-> "Dyn", f |-> f, t |-> t])
(* the blocks nested in the blocks of a dynamic block become dynamic blocks themselves (one element each), with the iterator
   named like the enclosing one: inside, the name means the inner element *)
HasSubs(b) == \E i \in 1..Len(b.body) : b.body[i].k = "block"
Inner(f, i) == /\ files[f].items[i].k = "dyn" /\ ~files[f].items[i].inner /\ HasSubs(files[f].items[i].each[1])
               /\ files' = [files EXCEPT ![f].items[i].inner = TRUE]
               /\ Log([rw |-> "Inner", f |-> f, i |-> i])
Undyn(f, i) == /\ files[f].items[i].k = "dyn"
               /\ files' = [files EXCEPT ![f].items = SubSeq(@, 1, i - 1) \o @[i].each \o SubSeq(@, i + 1, Len(@))]
               /\ Log([rw |-> "Undyn", f |-> f, i |-> i])
(* attributes of the file's top-level body last and in reverse order; blocks keep their relative order *)
Reorder(f) == /\ files' = [files EXCEPT ![f].items = SelectSeq(@, LAMBDA x : x.k # "attr") \o Reverse(SelectSeq(@, LAMBDA x : x.k = "attr"))]
              /\ files'[f].items # files[f].items
              /\ Log([rw |-> "Reorder", f |-> f])
(* the same inside block i of file f *)
ReorderIn(f, i) == /\ files[f].items[i].k = "block"
                   /\ files' = [files EXCEPT ![f].items[i].body = SelectSeq(@, LAMBDA x : x.k # "attr") \o Reverse(SelectSeq(@, LAMBDA x : x.k = "attr"))]
                   /\ files'[f].items[i].body # files[f].items[i].body
                   /\ Log([rw |-> "ReorderIn", f |-> f, i |-> i])
Lay(f) == /\ files' = [files EXCEPT ![f].lay = (@ + 1) % 3]
          /\ Log([rw |-> "Lay", f |-> f])
Group == /\ Len(files) >= 2
         /\ files' = [files EXCEPT ![1].grp = (@ + 1) % 3]
         /\ Log([rw |-> "Group", f |-> 1])
Next == \E f \in 1..Len(files) :
           \/ Syn(f) \/ Merge(f) \/ Reorder(f) \/ Lay(f) \/ (f = 1 /\ Group)
           \/ \E i \in 1..Len(files[f].items) : Split(f, i) \/ Undyn(f, i) \/ ReorderIn(f, i) \/ Inner(f, i)
           \/ \E t \in BlockTypes(files[f].items) : Dyn(f, t)
(* ---------------------------------------------------------------- properties of the rewrite system itself *)
MeaningKept == Meaning(files) = Meaning(base)
StaysWellFormed == WellFormedBody(AllItems(base)) => WellFormedBody(AllItems(files))
=============================================================================
