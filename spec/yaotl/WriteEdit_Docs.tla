--------------------------- MODULE WriteEdit_Docs ---------------------------
(* the files the edit sequences start from (comments c1 "#", c2 "//", c3 "/* */"; expression texts by name) *)
EXTENDS WriteEdit, Json
Docs == <<
  << NoteI("c1"), AttrI("a", "one", <<"c2">>, "c1"),
     BlockI("blk", <<"x">>, <<AttrI("b", "mlist", <<"c1">>, "")>>, <<>>),
     AttrI("c", "here", <<"c2">>, ""), NoteI("c3") >>,
  << AttrI("a", "str", <<>>, ""), AttrI("b", "tmpl", <<>>, "c2"), BlockI("srv", <<>>, <<>>, <<"c2">>),
     BlockI("blk", <<"x", "y">>, <<AttrI("a", "obj", <<>>, ""), BlockI("in", <<>>, <<AttrI("z", "one", <<>>, "")>>, <<>>)>>, <<>>) >>,
  <<>>,
  << AttrI("n", "call", <<"c1", "c2">>, "c3"), AttrI("h", "here2", <<>>, ""), BlockI("blk", <<>>, <<AttrI("h", "here3", <<"c2">>, "")>>, <<>>) >>,
  << BlockI("blk", <<>>, <<>>, <<>>), AttrI("a", "cond", <<>>, ""), NoteI("c3"), AttrI("b", "trav", <<>>, "") >>,
  << NoteI("c2"), NoteI("c1"), BlockI("srv", <<"y">>, <<NoteI("c1"), AttrI("n", "list", <<>>, "c1"), NoteI("c2")>>, <<"c1", "c1">>) >>,
  << AttrI("a", "idxt", <<>>, ""), BlockI("srv", <<>>, <<AttrI("b", "one", <<>>, "")>>, <<>>), BlockI("blk", <<"x">>, <<>>, <<>>), AttrI("n", "idxn", <<>>, "c2") >>,
  << AttrI("a", "one", <<>>, "") >>,                 \* one attribute and nothing else
  << BlockI("blk", <<>>, <<>>, <<>>) >> >>           \* one empty block and nothing else
Big == 7      \* the last of the files with several items
(* which file is laid out how: every file plainly; the last one (index keys, an empty and a one-attribute block) in every layout; some others in one more *)
DocLays == {<<i, "plain">> : i \in 1..Len(Docs)} \cup {<<Big, lay>> : lay \in Layouts}
           \cup {<<1, "midnote">>, <<1, "noeol">>, <<2, "bom">>, <<4, "crlf">>, <<5, "oneline">>, <<6, "midnote">>, <<5, "noeol">>, <<2, "noeol">>}
Init == \E dl \in DocLays : doc = Docs[dl[1]] /\ hist = <<[op |-> "Load", doc |-> Docs[dl[1]], i |-> dl[1], lay |-> dl[2]]>>
Spec == Init /\ [][Next]_vars
(* histories on the smallest files (nothing, one attribute, one block): the item lists become empty and are filled again; a small alphabet, so that
   every history of several edits is gone through *)
Small == {3, 8, 9}
SmallInit == \E i \in Small : doc = Docs[i] /\ hist = <<[op |-> "Load", doc |-> Docs[i], i |-> i, lay |-> "plain"]>>
SmallNext == \/ \E n \in {"a", "b"} : SetAttr(0, n, "v7") \/ RemoveAttr(0, n)
             \/ \E t \in {"blk", "srv"} : AppendBlock(0, t, <<>>)
             \/ \E j \in 1..2 : RemoveBlock(0, j)
             \/ Clear(0)
SmallSpec == SmallInit /\ [][SmallNext]_vars
Emit == (Len(hist) = MaxEdits) => PrintT(<<"BEHAVIOUR", ToJson(hist)>>)
view == <<doc, hist>>
=============================================================================
