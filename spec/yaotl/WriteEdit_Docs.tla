--------------------------- MODULE WriteEdit_Docs ---------------------------
(* the files the edit sequences start from (comments c1 "#", c2 "//", c3 "/* */"; expression texts by name) *)
EXTENDS WriteEdit, Json
Docs == <<
  << NoteI("c1"), AttrI("a", "one", <<"c2">>, "c1"),
     BlockI("blk", <<"x">>, <<AttrI("b", "mlist", <<"c1">>, "")>>, <<>>),
     AttrI("c", "here", <<"c2">>, ""), NoteI("c3") >>,
  << AttrI("a", "str", <<>>, ""), AttrI("b", "tmpl", <<>>, "c2"), BlockI("srv", <<>>, <<>>, <<"c2">>),
     BlockI("blk", <<"x", "y">>, <<AttrI("a", "obj", <<>>, ""), BlockI("in", <<>>, <<AttrI("z", "one", <<>>, "")>>, <<>>)>>, <<>>) >>,
  <<>>,
  << AttrI("n", "call", <<"c1", "c2">>, "c3"), AttrI("h", "here2", <<>>, ""), BlockI("blk", <<>>, <<AttrI("h", "here3", <<"c2">>, "")>>, <<>>) >>,
  << BlockI("blk", <<>>, <<>>, <<>>), AttrI("a", "cond", <<>>, ""), NoteI("c3"), AttrI("b", "trav", <<>>, "") >>,
  << NoteI("c2"), NoteI("c1"), BlockI("srv", <<"y">>, <<NoteI("c1"), AttrI("n", "list", <<>>, "c1"), NoteI("c2")>>, <<"c1", "c1">>) >> >>
Init == \E i \in 1..Len(Docs) : doc = Docs[i] /\ hist = <<[op |-> "Load", doc |-> Docs[i], i |-> i]>>
Spec == Init /\ [][Next]_vars
Emit == (Len(hist) = MaxEdits) => PrintT(<<"BEHAVIOUR", ToJson(hist)>>)
view == <<doc, hist>>
=============================================================================
