--------------------------- MODULE WriteEdit_Docs ---------------------------
(* the files the edit sequences start from (comments c1 "#", c2 "//", c3 "/* */"; expression texts by name) *)
EXTENDS WriteEdit, Json
Docs == <<
  << NoteI("c1"), AttrI("a", "one", <<"c2">>, "c1"),
     BlockI("blk", <<"x">>, <<AttrI("b", "mlist", <<"c1">>, "")>>, <<>>),
     AttrI("c", "here", <<"c2">>, ""), NoteI("c3") >>,
  << AttrI("a", "str", <<>>, ""), AttrI("b", "tmpl", <<>>, "c2"), BlockI("srv", <<>>, <<>>, <<"c2">>),
     BlockI("blk", <<"x", "y">>, <<AttrI("a", "obj", <<>>, ""), BlockI("in", <<>>, <<AttrI("z", "one", <<>>, "")>>, <<>>)>>, <<>>) >>,
  <<>>,
  << AttrI("n", "call", <<"c1", "c2">>, "c3"), AttrI("h", "here2", <<>>, ""), BlockI("blk", <<>>, <<AttrI("h", "here3", <<"c2">>, "")>>, <<>>) >>,
  << BlockI("blk", <<>>, <<>>, <<>>), AttrI("a", "cond", <<>>, ""), NoteI("c3"), AttrI("b", "trav", <<>>, "") >>,
  << NoteI("c2"), NoteI("c1"), BlockI("srv", <<"y">>, <<NoteI("c1"), AttrI("n", "list", <<>>, "c1"), NoteI("c2")>>, <<"c1", "c1">>) >>,
  << AttrI("a", "idxt", <<>>, ""), BlockI("srv", <<>>, <<AttrI("b", "one", <<>>, "")>>, <<>>), BlockI("blk", <<"x">>, <<>>, <<>>), AttrI("n", "idxn", <<>>, "c2") >> >>
(* which file is laid out how: every file plainly; the last one (index keys, an empty and a one-attribute block) in every layout; some others in one more *)
DocLays == {<<i, "plain">> : i \in 1..Len(Docs)} \cup {<<Len(Docs), lay>> : lay \in Layouts}
           \cup {<<1, "midnote">>, <<1, "noeol">>, <<2, "bom">>, <<4, "crlf">>, <<5, "oneline">>, <<6, "midnote">>, <<5, "noeol">>, <<2, "noeol">>}
Init == \E dl \in DocLays : doc = Docs[dl[1]] /\ hist = <<[op |-> "Load", doc |-> Docs[dl[1]], i |-> dl[1], lay |-> dl[2]]>>
Spec == Init /\ [][Next]_vars
Emit == (Len(hist) = MaxEdits) => PrintT(<<"BEHAVIOUR", ToJson(hist)>>)
view == <<doc, hist>>
=============================================================================
