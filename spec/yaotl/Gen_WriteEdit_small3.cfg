SPECIFICATION SmallSpec
CONSTANT MaxEdits = 4
INVARIANTS Emit
CHECK_DEADLOCK FALSE
