SPECIFICATION TraceSpec
INVARIANTS MonNoCrash MonLexing MonRanges
POSTCONDITION TraceAccepted
CHECK_DEADLOCK FALSE
