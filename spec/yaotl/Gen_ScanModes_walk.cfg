SPECIFICATION Spec
CONSTANT Plain <- GenPlain
CONSTANT MaxLen = 14
INVARIANTS Emit
CHECK_DEADLOCK FALSE
