---------------------------- MODULE Gen_ScanModes ----------------------------
(* token-kind sequences of the mode machine: every sequence of up to MaxLen kinds (one representative per
   class of ordinary tokens), and seeded random walks; the harness writes a lexeme for every kind *)
EXTENDS ScanModes, Json
CONSTANT MaxLen
GenPlain == {"TokenIdent", "TokenNumberLit", "TokenNewline", "TokenComment", "TokenEqual", "TokenOBrack", "TokenCBrack", "TokenDot", "TokenComma",
             "TokenOParen", "TokenCParen", "TokenMinus", "TokenQuestion", "TokenColon", "TokenFatArrow", "TokenEllipsis", "TokenStar"}
Emit == (Len(hist) = MaxLen + 1 \/ st.eof) => PrintT(<<"BEHAVIOUR", ToJson(hist)>>)
Bounded == Len(hist) <= MaxLen /\ Len(st.modes) <= 5
=============================================================================
