SPECIFICATION RandSpec
INVARIANTS Emit Total
CHECK_DEADLOCK FALSE
