-------------------------------- MODULE Expr --------------------------------
(* C18 — a reference evaluator for yaotl (HCL native syntax) expressions and templates.

   Abstract syntax (records, field k = node kind):
     num(n) | str(parts) | bool(v) | null | var(name) | call(fn, args)
     callx(fn, args)     the last argument is written with "..." and stands for its elements
     flush(lines, close) a heredoc written with <<- : lines are [ind, parts] (ind leading spaces, then template parts without line ends),
                         a line without parts is empty; close = indentation of the closing marker
     un(op, e)           op in {"-", "!"}
     bin(op, l, r)       op in {"+","-","*","/","%","==","!=","<","<=",">",">=","&&","||"}
     cond(c, a, b) | tuple(items) | obj(keys, vals) | index(e, key) | attr(e, name) | splat(e, name)
     fort(v, coll, body, cnd)            [for v in coll : body if cnd]        (cnd = [k |-> "none"] when absent)
     foro(kv, vv, coll, key, val, cnd, grp)   {for kv, vv in coll : key => val... if cnd}
     str parts:  lit(s) | interp(e, sl, sr) | tif(c, then, else, marks) | tfor(kv, v, coll, body, marks)
   Values:  [t "num", n, d] (normalised fraction)  [t "bool", v]  [t "str", v: sequence of characters]
            [t "null"]  [t "tuple", v: sequence]  [t "obj", v: sequence of <<key, value>> in key order]
            [t "err"] (an error diagnostic)  [t "unspec"] (outside what this module defines: not compared)
   Strings are sequences of one-character strings over a small alphabet; the harness maps them to bytes.
   Precedence and associativity are not here: they are a property of the printer/parser pair - every tree
   is printed with minimal and with redundant parentheses and must come back with this tree's value. *)
EXTENDS Integers, Sequences, FiniteSets, TLC, SequencesExt

(* ------------------------------------------------------------------ values *)
Abs(x) == IF x < 0 THEN -x ELSE x
RECURSIVE Gcd(_, _)
Gcd(a, b) == IF b = 0 THEN a ELSE Gcd(b, a % b)
Num(n, d) == LET s == IF d < 0 THEN -1 ELSE 1
                 g == Gcd(Abs(n), Abs(d))
             IN [t |-> "num", n |-> (s * n) \div (IF g = 0 THEN 1 ELSE g), d |-> (s * d) \div (IF g = 0 THEN 1 ELSE g)]
IntV(n) == [t |-> "num", n |-> n, d |-> 1]
Bool(b) == [t |-> "bool", v |-> b]
Str(s) == [t |-> "str", v |-> s]
Null == [t |-> "null"]
Tup(s) == [t |-> "tuple", v |-> s]
Obj(s) == [t |-> "obj", v |-> s]
Err == [t |-> "err"]
Unspec == [t |-> "unspec"]
IsErr(v) == v.t = "err"
Bad(v) == v.t \in {"err", "unspec"}
(* an error anywhere wins; what is not defined here poisons the result otherwise *)
Worst(vs) == IF \E i \in 1..Len(vs) : vs[i].t = "err" THEN Err ELSE Unspec
AnyBad(vs) == \E i \in 1..Len(vs) : Bad(vs[i])

Keys == <<"a", "b", "c", "k">>          \* object keys, in lexical order
KeyOrd(k) == CHOOSE i \in 1..Len(Keys) : Keys[i] = k
Digits == <<"0", "1", "2", "3", "4", "5", "6", "7", "8", "9">>
DigitVal(c) == (CHOOSE i \in 1..10 : Digits[i] = c) - 1
IsDigit(c) == \E i \in 1..10 : Digits[i] = c

RECURSIVE NatStr(_)
NatStr(n) == IF n < 10 THEN <<Digits[n + 1]>> ELSE NatStr(n \div 10) \o <<Digits[(n % 10) + 1]>>
RECURSIVE Pow10(_)
Pow10(k) == IF k = 0 THEN 1 ELSE 10 * Pow10(k - 1)
RECURSIVE Pad(_, _)
Pad(s, k) == IF Len(s) >= k THEN s ELSE Pad(<<"0">> \o s, k)
(* decimal text of a number: integers and fractions with at most 4 decimals; the rest is not defined here *)
NumText(v) ==
  IF v.d = 1 THEN (IF v.n < 0 THEN <<"-">> ELSE <<>>) \o NatStr(Abs(v.n))
  ELSE IF \E k \in 1..4 : Pow10(k) % v.d = 0
       THEN LET k == CHOOSE j \in 1..4 : Pow10(j) % v.d = 0 /\ \A i \in 1..(j - 1) : Pow10(i) % v.d # 0
                m == Abs(v.n) * (Pow10(k) \div v.d)
            IN (IF v.n < 0 THEN <<"-">> ELSE <<>>) \o NatStr(m \div Pow10(k)) \o <<".">> \o Pad(NatStr(m % Pow10(k)), k)
       ELSE <<"?">>
RECURSIVE DigitsVal(_, _)
DigitsVal(s, acc) == IF s = <<>> THEN acc ELSE DigitsVal(Tail(s), acc * 10 + DigitVal(Head(s)))
(* conversions (the language converts between primitive types where the text allows it) *)
ToNum(v) == CASE v.t = "num" -> v
              [] v.t = "str" -> LET s == v.v
                                    neg == s # <<>> /\ s[1] = "-"
                                    body == IF neg THEN Tail(s) ELSE s
                                IN IF body # <<>> /\ Len(body) <= 6 /\ \A i \in 1..Len(body) : IsDigit(body[i])
                                   THEN IntV((IF neg THEN -1 ELSE 1) * DigitsVal(body, 0))
                                   ELSE IF s # <<>> /\ \A i \in 1..Len(s) : IsDigit(s[i]) \/ s[i] \in {"-", ".", "e"} THEN Unspec ELSE Err
              [] v.t = "null" -> Null
              [] v.t = "unspec" -> Unspec
              [] OTHER -> Err
TrueS == <<"t", "r", "u", "e">>
FalseS == <<"f", "a", "l", "s", "e">>
ToBool(v) == CASE v.t = "bool" -> v
               [] v.t = "str" -> IF v.v = TrueS THEN Bool(TRUE) ELSE IF v.v = FalseS THEN Bool(FALSE) ELSE Err
               [] v.t = "null" -> Null
               [] v.t = "unspec" -> Unspec
               [] OTHER -> Err
ToStr(v) == CASE v.t = "str" -> v
              [] v.t = "num" -> IF NumText(v) = <<"?">> \/ v.n = 0 THEN Unspec ELSE Str(NumText(v))     \* a computed zero may carry a sign in its text ("-0"): not compared
              [] v.t = "bool" -> Str(IF v.v THEN TrueS ELSE FalseS)
              [] v.t = "null" -> Null
              [] v.t = "unspec" -> Unspec
              [] OTHER -> Err

(* structural equality, types included *)
RECURSIVE VEq(_, _)
VEq(a, b) == /\ a.t = b.t
             /\ CASE a.t = "num" -> a.n = b.n /\ a.d = b.d
                  [] a.t \in {"bool", "str"} -> a.v = b.v
                  [] a.t = "tuple" -> Len(a.v) = Len(b.v) /\ \A i \in 1..Len(a.v) : VEq(a.v[i], b.v[i])
                  [] a.t = "obj" -> Len(a.v) = Len(b.v) /\ \A i \in 1..Len(a.v) : a.v[i][1] = b.v[i][1] /\ VEq(a.v[i][2], b.v[i][2])
                  [] OTHER -> TRUE
RECURSIVE HasBad(_)
HasBad(v) == \/ Bad(v)
             \/ (v.t = "tuple" /\ \E i \in 1..Len(v.v) : HasBad(v.v[i]))
             \/ (v.t = "obj" /\ \E i \in 1..Len(v.v) : HasBad(v.v[i][2]))

(* ------------------------------------------------------------------ operators *)
Lt(a, b) == a.n * b.d < b.n * a.d
Arith(op, x, y) ==
  LET a == ToNum(x)  b == ToNum(y) IN
  IF AnyBad(<<a, b>>) THEN Worst(<<a, b>>)
  ELSE IF a.t = "null" \/ b.t = "null" THEN Err
  ELSE CASE op = "+" -> Num(a.n * b.d + b.n * a.d, a.d * b.d)
         [] op = "-" -> Num(a.n * b.d - b.n * a.d, a.d * b.d)
         [] op = "*" -> Num(a.n * b.n, a.d * b.d)
         [] op = "/" -> IF b.n = 0 THEN (IF a.n = 0 THEN Err ELSE Unspec)    \* x/0 is an infinity (not represented here), 0/0 is an error
                        ELSE Num(a.n * b.d, a.d * b.n)
         [] op = "%" -> IF b.n = 0 THEN Unspec   \* remainder of the truncated division, sign of the dividend; by zero: the language leaves it open
                        ELSE LET q == Num(a.n * b.d, a.d * b.n)
                                 tq == IF q.n >= 0 THEN q.n \div q.d ELSE -((-q.n) \div q.d)
                             IN Num(a.n * b.d - tq * b.n * a.d, a.d * b.d)
         [] op = "<" -> Bool(Lt(a, b)) [] op = "<=" -> Bool(~Lt(b, a))
         [] op = ">" -> Bool(Lt(b, a)) [] op = ">=" -> Bool(~Lt(a, b))
Logic(op, x, y) ==
  LET a == ToBool(x)  b == ToBool(y) IN
  IF AnyBad(<<a, b>>) THEN Worst(<<a, b>>)
  ELSE IF a.t = "null" \/ b.t = "null" THEN Err
  ELSE Bool(IF op = "&&" THEN a.v /\ b.v ELSE a.v \/ b.v)
Equal(op, a, b) ==
  IF IsErr(a) \/ IsErr(b) THEN Err ELSE IF HasBad(a) \/ HasBad(b) THEN Unspec
  ELSE Bool(IF op = "==" THEN VEq(a, b) ELSE ~VEq(a, b))
BinOp(op, a, b) == IF op \in {"==", "!="} THEN Equal(op, a, b) ELSE IF op \in {"&&", "||"} THEN Logic(op, a, b) ELSE Arith(op, a, b)
UnOp(op, x) == IF op = "-" THEN (LET a == ToNum(x) IN IF Bad(a) THEN a ELSE IF a.t = "null" THEN Err ELSE Num(-a.n, a.d))
               ELSE (LET a == ToBool(x) IN IF Bad(a) THEN a ELSE IF a.t = "null" THEN Err ELSE Bool(~a.v))

(* result of cond ? a : b once the condition is known *)
Scalar(v) == v.t \in {"num", "str", "bool", "null"}
(* the literal null has no type; a null that came out of a conditional has the type of the branch it stood next to *)
TyOf(v) == IF v.t = "null" THEN (IF "ty" \in DOMAIN v THEN v.ty ELSE "dyn") ELSE v.t
TNull(ty) == IF ty = "dyn" THEN Null ELSE [t |-> "null", ty |-> ty]
CondResult(c, a, b) ==
  LET cb == ToBool(c)
      sel == IF cb.t = "bool" /\ cb.v THEN a ELSE b
      oth == IF cb.t = "bool" /\ cb.v THEN b ELSE a
  IN IF IsErr(c) \/ IsErr(cb) \/ cb.t = "null" THEN Err
     ELSE IF Bad(cb) THEN Unspec
     ELSE IF IsErr(sel) THEN Err
     ELSE IF Bad(sel) \/ oth.t = "unspec" THEN Unspec
     ELSE IF IsErr(oth) THEN Unspec                                            \* an ill-typed branch that is not taken: whether it is reported is left open
     ELSE IF (oth.t = "null" \/ sel.t = "null") /\ (~Scalar(sel) \/ ~Scalar(oth))
          THEN (IF TyOf(sel) = "dyn" \/ TyOf(oth) = "dyn" THEN sel ELSE Unspec)   \* an untyped null next to a collection: nothing to unify with
     ELSE IF oth.t = "null" \/ sel.t = "null"                                   \* a null takes the other branch's type - and keeps it: it unifies like a value of that type
          THEN LET ts == TyOf(sel)
                   to == TyOf(oth)
                   ty == IF ts = "dyn" THEN to ELSE IF to = "dyn" THEN ts ELSE IF ts = to THEN ts ELSE IF "str" \in {ts, to} THEN "str" ELSE "none"
               IN IF ty = "none" THEN Err
                  ELSE IF sel.t = "null" THEN TNull(ty)
                  ELSE IF ty = sel.t THEN sel ELSE ToStr(sel)
     ELSE IF ~Scalar(sel) \/ ~Scalar(oth) THEN (IF sel.t = oth.t /\ VEq(sel, oth) THEN sel ELSE Unspec)
     ELSE IF sel.t = oth.t THEN sel
     ELSE IF "str" \in {sel.t, oth.t} THEN ToStr(sel)                         \* a string and a number / bool unify to string
     ELSE Err                                                                   \* number and bool have no common type

(* collection[key] *)
IndexOf(c, k) ==
  IF IsErr(c) \/ IsErr(k) THEN Err ELSE IF Bad(c) \/ Bad(k) THEN Unspec
  ELSE IF c.t = "null" \/ k.t = "null" THEN Err
  ELSE CASE c.t = "tuple" -> LET n == ToNum(k) IN
                               IF Bad(n) THEN n
                               ELSE IF n.d # 1 \/ n.n < 0 \/ n.n >= Len(c.v) THEN Err ELSE c.v[n.n + 1]
         [] c.t = "obj" -> LET s == ToStr(k) IN
                             IF Bad(s) THEN s
                             ELSE IF \E i \in 1..Len(c.v) : <<c.v[i][1]>> = s.v THEN c.v[CHOOSE i \in 1..Len(c.v) : <<c.v[i][1]>> = s.v][2] ELSE Err
         [] OTHER -> Err
AttrOf(c, name) ==
  IF Bad(c) THEN c
  ELSE IF c.t = "obj" THEN (IF \E i \in 1..Len(c.v) : c.v[i][1] = name THEN c.v[CHOOSE i \in 1..Len(c.v) : c.v[i][1] = name][2] ELSE Err)
  ELSE Err

(* sort / merge <<key, value>> pairs by key order; later duplicates are an error unless grouping *)
SortPairs(ps) == LET ks == {ps[i][1] : i \in 1..Len(ps)}
                     ord == SetToSortSeq(ks, LAMBDA x, y : KeyOrd(x) < KeyOrd(y))
                 IN [j \in 1..Len(ord) |-> <<ord[j], ps[CHOOSE i \in 1..Len(ps) : ps[i][1] = ord[j]][2]>>]
DupKeys(ps) == \E i, j \in 1..Len(ps) : i # j /\ ps[i][1] = ps[j][1]
GroupPairs(ps) == LET ks == {ps[i][1] : i \in 1..Len(ps)}
                      ord == SetToSortSeq(ks, LAMBDA x, y : KeyOrd(x) < KeyOrd(y))
                  IN [j \in 1..Len(ord) |-> <<ord[j], Tup(SelectSeq([i \in 1..Len(ps) |-> ps[i]], LAMBDA p : p[1] = ord[j]))>>]
GroupVals(ps) == [j \in 1..Len(ps) |-> <<ps[j][1], Tup([i \in 1..Len(ps[j][2].v) |-> ps[j][2].v[i][2]])>>]

(* elements a for expression / template for iterates over: <<key, value>> in order *)
Elems(c) == CASE c.t = "tuple" -> [i \in 1..Len(c.v) |-> <<IntV(i - 1), c.v[i]>>]
              [] c.t = "obj" -> [i \in 1..Len(c.v) |-> <<Str(<<c.v[i][1]>>), c.v[i][2]>>]
              [] OTHER -> <<>>

(* template strip markers: ~ removes the white space (and newlines) of the neighbouring literal on that side *)
IsWs(c) == c \in {" ", "\n"}
RECURSIVE TrimL(_)
TrimL(s) == IF s # <<>> /\ IsWs(Head(s)) THEN TrimL(Tail(s)) ELSE s
RECURSIVE TrimR(_)
TrimR(s) == IF s # <<>> /\ IsWs(s[Len(s)]) THEN TrimR(SubSeq(s, 1, Len(s) - 1)) ELSE s

(* ------------------------------------------------------------------ functions offered to expressions *)
CallFn(fn, args) ==
  IF \E i \in 1..Len(args) : IsErr(args[i]) THEN Err
  ELSE IF AnyBad(args) THEN Unspec
  ELSE CASE fn = "inc" -> IF Len(args) # 1 THEN Err
                          ELSE LET a == ToNum(args[1]) IN IF Bad(a) THEN a ELSE IF a.t = "null" THEN Err ELSE Num(a.n + a.d, a.d)
         [] fn = "cat" -> IF Len(args) # 2 THEN Err
                          ELSE LET a == ToStr(args[1])  b == ToStr(args[2]) IN
                               IF AnyBad(<<a, b>>) THEN Worst(<<a, b>>) ELSE IF a.t = "null" \/ b.t = "null" THEN Err ELSE Str(a.v \o b.v)
         [] OTHER -> Err       \* no such function

(* ------------------------------------------------------------------ the evaluator *)
Bind(env, name, v) == [x \in (DOMAIN env) \cup {name} |-> IF x = name THEN v ELSE env[x]]
None == [k |-> "none"]
(* does the part ask the literal on its right / left to lose its leading / trailing white space? *)
MarkR(p) == (p.k = "interp" /\ p.sr) \/ (p.k \in {"tif", "tfor"} /\ p.strip)
MarkL(p) == (p.k = "interp" /\ p.sl) \/ (p.k \in {"tif", "tfor"} /\ p.strip)
RECURSIVE Strip(_, _, _)
Strip(parts, firstL, lastR) ==
  [i \in 1..Len(parts) |->
     LET p == parts[i]
         tl == (i = 1 /\ firstL) \/ (i > 1 /\ MarkR(parts[i - 1]))
         tr == (i = Len(parts) /\ lastR) \/ (i < Len(parts) /\ MarkL(parts[i + 1]))
     IN CASE p.k = "lit" -> [p EXCEPT !.s = LET a == IF tl THEN TrimL(@) ELSE @ IN IF tr THEN TrimR(a) ELSE a]
          [] p.k = "tif" -> [p EXCEPT !.th = Strip(@, p.strip, p.strip), !.el = Strip(@, p.strip, p.strip)]
          [] p.k = "tfor" -> [p EXCEPT !.body = Strip(@, p.strip, p.strip)]
          [] OTHER -> p]
RECURSIVE Eval(_, _), Cat(_, _)
Kept(inc, vals) == LET kept == SelectSeq([i \in 1..Len(vals) |-> <<inc[i], vals[i]>>], LAMBDA p : p[1].v) IN [j \in 1..Len(kept) |-> kept[j][2]]
Eval(e, env) ==
  CASE e.k = "num"  -> IntV(e.n)
    [] e.k = "bool" -> Bool(e.v)
    [] e.k = "null" -> Null
    [] e.k = "var"  -> IF e.name \in DOMAIN env THEN env[e.name] ELSE Err
    [] e.k = "str"  -> (* a template that is exactly one interpolation yields that value unconverted *)
                       IF Len(e.parts) = 1 /\ e.parts[1].k = "interp" THEN Eval(e.parts[1].e, env) ELSE Cat(Strip(e.parts, FALSE, FALSE), env)
    [] e.k = "call" -> CallFn(e.fn, [i \in 1..Len(e.args) |-> Eval(e.args[i], env)])
    [] e.k = "callx" -> (* f(a, xs...): xs must be a tuple (null, a string, an object are errors); its elements are the remaining arguments *)
                        LET vs == [i \in 1..Len(e.args) |-> Eval(e.args[i], env)]
                            xs == vs[Len(vs)] IN
                        IF \E i \in 1..Len(vs) : IsErr(vs[i]) THEN Err
                        ELSE IF Bad(xs) THEN Unspec
                        ELSE IF xs.t # "tuple" THEN Err
                        ELSE CallFn(e.fn, SubSeq(vs, 1, Len(vs) - 1) \o xs.v)
    [] e.k = "flush" -> (* the smallest indentation of the lines that are not empty is taken off every line; the closing marker does not count;
                           a line that starts with an interpolation in the first column has indentation 0 like any other *)
                        LET nb == {i \in 1..Len(e.lines) : e.lines[i].parts # <<>>}
                            m == IF nb = {} THEN 0 ELSE CHOOSE x \in {e.lines[i].ind : i \in nb} : \A i \in nb : x <= e.lines[i].ind
                            spaces(n) == [j \in 1..n |-> " "]
                            lp(i) == IF e.lines[i].parts = <<>> THEN <<[k |-> "lit", s |-> <<"\n">>]>>
                                     ELSE <<[k |-> "lit", s |-> spaces(e.lines[i].ind - m)]>> \o e.lines[i].parts \o <<[k |-> "lit", s |-> <<"\n">>]>>
                        IN Cat(FlattenSeq([i \in 1..Len(e.lines) |-> lp(i)]), env)
    [] e.k = "un"   -> UnOp(e.op, Eval(e.e, env))
    [] e.k = "bin"  -> BinOp(e.op, Eval(e.l, env), Eval(e.r, env))
    [] e.k = "cond" -> CondResult(Eval(e.c, env), Eval(e.a, env), Eval(e.b, env))
    [] e.k = "tuple" -> LET vs == [i \in 1..Len(e.items) |-> Eval(e.items[i], env)] IN
                        IF \E i \in 1..Len(vs) : IsErr(vs[i]) THEN Err ELSE Tup(vs)
    [] e.k = "obj"  -> LET vs == [i \in 1..Len(e.vals) |-> Eval(e.vals[i], env)]
                           ps == [i \in 1..Len(vs) |-> <<e.keys[i], vs[i]>>] IN
                       IF \E i \in 1..Len(vs) : IsErr(vs[i]) THEN Err ELSE IF DupKeys(ps) THEN Unspec ELSE Obj(SortPairs(ps))
    [] e.k = "index" -> IndexOf(Eval(e.e, env), Eval(e.key, env))
    [] e.k = "attr" -> AttrOf(Eval(e.e, env), e.name)
    [] e.k = "splat" -> LET c == Eval(e.e, env) IN
                        IF Bad(c) THEN c
                        ELSE IF c.t = "null" THEN Tup(<<>>)                         \* splat of null is the empty tuple
                        ELSE LET items == IF c.t = "tuple" THEN c.v ELSE <<c>>       \* a single value is treated as a one-element tuple
                                 rs == [i \in 1..Len(items) |-> AttrOf(items[i], e.name)]
                             IN IF \E i \in 1..Len(rs) : IsErr(rs[i]) THEN Err ELSE IF AnyBad(rs) THEN Unspec ELSE Tup(rs)
    [] e.k \in {"fort", "foro"} ->
         LET c == Eval(e.coll, env) IN
         IF Bad(c) THEN c
         ELSE IF c.t \notin {"tuple", "obj"} THEN Err
         ELSE LET els == Elems(c)
                  sc(i) == IF e.kv = "" THEN Bind(env, e.v, els[i][2]) ELSE Bind(Bind(env, e.kv, els[i][1]), e.v, els[i][2])
                  inc == [i \in 1..Len(els) |-> IF e.cnd.k = "none" THEN Bool(TRUE) ELSE ToBool(Eval(e.cnd, sc(i)))]
                  on(i) == inc[i].t = "bool" /\ inc[i].v
                  (* the filter is checked once before iterating, with the iteration variables not yet known:
                     an error that does not depend on them (unknown name, null) is reported even for an empty collection *)
                  blind == IF e.kv = "" THEN Bind(env, e.v, Unspec) ELSE Bind(Bind(env, e.kv, Unspec), e.v, Unspec)
                  probe == IF e.cnd.k = "none" THEN Bool(TRUE) ELSE ToBool(Eval(e.cnd, blind))
              IN IF IsErr(probe) \/ probe.t = "null" THEN Err
                 ELSE IF \E i \in 1..Len(els) : IsErr(inc[i]) \/ inc[i].t = "null" THEN Err
                 ELSE IF \E i \in 1..Len(els) : Bad(inc[i]) THEN Unspec
                 ELSE IF e.k = "fort"
                 THEN LET body == [i \in 1..Len(els) |-> IF on(i) THEN Eval(e.body, sc(i)) ELSE Null] IN
                      IF \E i \in 1..Len(els) : IsErr(body[i]) THEN Err ELSE Tup(Kept(inc, body))
                 ELSE LET ks == [i \in 1..Len(els) |-> IF on(i) THEN ToStr(Eval(e.key, sc(i))) ELSE Null]
                          vs == [i \in 1..Len(els) |-> IF on(i) THEN Eval(e.val, sc(i)) ELSE Null]
                          okKey(i) == ks[i].t = "str" /\ Len(ks[i].v) = 1 /\ \E j \in 1..Len(Keys) : Keys[j] = ks[i].v[1]
                      IN IF \E i \in 1..Len(els) : on(i) /\ (IsErr(ks[i]) \/ ks[i].t = "null" \/ IsErr(vs[i])) THEN Err
                         ELSE IF \E i \in 1..Len(els) : on(i) /\ ~okKey(i) THEN Unspec
                         ELSE LET ps == Kept(inc, [i \in 1..Len(els) |-> <<IF on(i) THEN ks[i].v[1] ELSE "", vs[i]>>]) IN
                              IF e.grp THEN Obj(GroupVals(GroupPairs(ps)))
                              ELSE IF DupKeys(ps) THEN Err ELSE Obj(SortPairs(ps))
    [] OTHER -> Unspec
(* the text of a sequence of (already stripped) template parts *)
Cat(parts, env) ==
  IF parts = <<>> THEN Str(<<>>)
  ELSE LET p == Head(parts)
           one == CASE p.k = "lit" -> Str(p.s)
                    [] p.k = "interp" -> LET v == Eval(p.e, env) IN IF Bad(v) THEN v ELSE IF v.t = "null" THEN Err ELSE ToStr(v)
                    [] p.k = "tif" -> LET c == ToBool(Eval(p.c, env)) IN
                                      IF Bad(c) THEN c ELSE IF c.t = "null" THEN Err ELSE Cat(IF c.v THEN p.th ELSE p.el, env)
                    [] p.k = "tfor" -> LET c == Eval(p.coll, env) IN
                                       IF Bad(c) THEN c ELSE IF c.t \notin {"tuple", "obj"} THEN Err
                                       ELSE LET els == Elems(c)
                                                rs == [i \in 1..Len(els) |-> Cat(p.body, IF p.kv = "" THEN Bind(env, p.v, els[i][2]) ELSE Bind(Bind(env, p.kv, els[i][1]), p.v, els[i][2]))]
                                            IN IF \E i \in 1..Len(rs) : IsErr(rs[i]) THEN Err ELSE IF AnyBad(rs) THEN Unspec
                                               ELSE Str(FlattenSeq([i \in 1..Len(rs) |-> rs[i].v]))
           rest == Cat(Tail(parts), env)
       IN IF IsErr(one) \/ IsErr(rest) THEN Err ELSE IF Bad(one) \/ Bad(rest) THEN Unspec ELSE Str(one.v \o rest.v)

(* what an observed result must be: obs = [t "err"] or a value in the same representation *)
RECURSIVE SameV(_, _)
SameV(o, v) == /\ o.t = v.t
               /\ CASE v.t = "num" -> o.n = v.n /\ o.d = v.d
                    [] v.t \in {"bool", "str"} -> o.v = v.v
                    [] v.t = "tuple" -> Len(o.v) = Len(v.v) /\ \A i \in 1..Len(v.v) : SameV(o.v[i], v.v[i])
                    [] v.t = "obj" -> Len(o.v) = Len(v.v) /\ \A i \in 1..Len(v.v) : o.v[i][1] = v.v[i][1] /\ SameV(o.v[i][2], v.v[i][2])
                    [] OTHER -> TRUE
Agrees(o, v) == IF IsErr(v) THEN o.t = "err" ELSE IF HasBad(v) THEN TRUE ELSE (o.t # "err" /\ SameV(o, v))
=============================================================================
