SPECIFICATION TraceSpec
CONSTANTS MaxFiles = 3
 MaxSteps = 9
POSTCONDITION TraceAccepted
CHECK_DEADLOCK FALSE
