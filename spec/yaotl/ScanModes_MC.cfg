SPECIFICATION Spec
CONSTANT Plain <- SmallPlain
CONSTRAINT Bounded
INVARIANTS DepthOK TemplatesNest BottomStays RetIncreasing
CHECK_DEADLOCK FALSE
