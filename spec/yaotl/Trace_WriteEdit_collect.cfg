SPECIFICATION TraceSpec
CONSTANT MaxEdits = 9
INVARIANTS Collected
POSTCONDITION TraceAccepted
CHECK_DEADLOCK FALSE
