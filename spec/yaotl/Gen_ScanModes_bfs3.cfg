SPECIFICATION Spec
CONSTANT Plain <- GenPlain
CONSTANT MaxLen = 3
CONSTRAINT Bounded
INVARIANTS Emit
CHECK_DEADLOCK FALSE
