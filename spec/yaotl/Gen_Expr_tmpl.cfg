SPECIFICATION TmplSpec
INVARIANTS Emit Total
CHECK_DEADLOCK FALSE
