---------------------------- MODULE Trace_Rewrite ----------------------------
(* judges what both real decoders returned for a rendered representation against the meaning of its configuration *)
EXTENDS Rewrite_Cfgs, Json, IOUtils
TraceLog == ndJsonDeserialize(IOEnv.VERIF_TRACE)
Strict == IOEnv.VERIF_STRICT = "1"
VARIABLES l, cur
tvars == <<l, cur, cvars>>
E == TraceLog[l]
TraceInit == l = 1 /\ cur = [ev |-> "Reset"] /\ files = <<>> /\ base = <<>> /\ steps = 0 /\ hist = <<>> /\ cid = ""
BaseOf(c) == CHOOSE b \in Bases : b.id = c
Expected(c) == BodyMeaning(BaseOf(c).items)
RECURSIVE SameMeaning(_, _)
SameMeaning(o, m) == /\ ToSet(o.attrs) = m.attrs
                     /\ DOMAIN o.blocks = DOMAIN m.blocks
                     /\ \A t \in DOMAIN m.blocks : /\ Len(o.blocks[t]) = Len(m.blocks[t])
                                                   /\ \A i \in 1..Len(m.blocks[t]) : /\ o.blocks[t][i].labels = m.blocks[t][i].labels
                                                                                     /\ SameMeaning(o.blocks[t][i].body, m.blocks[t][i].body)
(* strict: the logged representation is one the rewrite system keeps equivalent to its base *)
Step == /\ l <= Len(TraceLog) /\ l' = l + 1 /\ cur' = E /\ UNCHANGED cvars
        /\ ((Strict /\ E.ev = "Rep") => Meaning(E.files) = Expected(E.cid))
TraceSpec == TraceInit /\ [][Step]_tvars
Decoders == {"hcldec", "gohcl"}
MonNoCrash == cur.ev = "Rep" => ~cur.crashed
(* a rewrite never turns a valid configuration into an invalid one or vice versa ... *)
MonValidityKept == (cur.ev = "Rep" /\ ~cur.crashed) => \A d \in Decoders : cur.res[d].err = ~BaseOf(cur.cid).valid
(* ... and never changes what it decodes to *)
MonSameResult == (cur.ev = "Rep" /\ ~cur.crashed /\ BaseOf(cur.cid).valid) => \A d \in Decoders : cur.res[d].err \/ SameMeaning(cur.res[d].val, Expected(cur.cid))
TraceAccepted == TLCGet("stats").diameter - 1 = Len(TraceLog)
=============================================================================
