SPECIFICATION TraceSpec
CONSTANT MaxEdits = 9
INVARIANTS MonNoCrash MonEdit MonLoad MonFormat MonKept
POSTCONDITION TraceAccepted
CHECK_DEADLOCK FALSE
