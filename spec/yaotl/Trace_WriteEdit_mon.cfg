SPECIFICATION TraceSpec
CONSTANT MaxEdits = 9
INVARIANTS MonNoCrash MonEdit MonLoad MonFormat
POSTCONDITION TraceAccepted
CHECK_DEADLOCK FALSE
