----------------------------- MODULE WriteEdit -----------------------------
(* C20 — rewriting a configuration file never damages it.

   A file is held as its abstract body: a sequence of items
       [k "attr",  name, expr, lead, line]      expr: which expression text; lead: comments directly above; line: comment after it
       [k "block", type, labels, body, lead]    body: again a sequence of items
       [k "note",  id]                          a comment standing on its own (blank line after it)
   Programmatic edits (the writer's API) are actions on that body; each says exactly which item changes:
       SetAttr     an existing attribute gets a new expression, keeps its place and its comments; a new one is appended
       RemoveAttr  the attribute goes, with the comments attached to it, nothing else
       AppendBlock a new empty block at the end of the body
       RemoveBlock the block goes, with its lead comments and everything inside
       SetAttrRaw  as SetAttr, the expression given as raw tokens (the caller's token buffer is its own: it may reuse it)
       Clear       everything in the body goes
   at the top level or inside a block (path).  Formatting is an action that leaves the abstract body unchanged.
   The same abstract body can be laid out in many ways (Layouts): a comment between a block's type and its labels, a byte order
   mark in front, no line end after the last item, empty and one-attribute blocks on one line, CRLF line ends; the guarantees hold
   for every layout.
   The byte-level clauses (token stream = input modulo tabs, formatting touches only blanks and is idempotent,
   formatted file parses and decodes the same) are contracts on recorded outputs: the harness measures, the
   specification says what must hold (Contracts). *)
EXTENDS Integers, Sequences, FiniteSets, TLC, SequencesExt

AttrI(n, e, lead, line) == [k |-> "attr", name |-> n, expr |-> e, lead |-> lead, line |-> line]
BlockI(t, labels, body, lead) == [k |-> "block", type |-> t, labels |-> labels, body |-> body, lead |-> lead]
NoteI(id) == [k |-> "note", id |-> id]

IsAttr(x, n) == x.k = "attr" /\ x.name = n
HasAttr(body, n) == \E i \in 1..Len(body) : IsAttr(body[i], n)
AttrIdx(body, n) == CHOOSE i \in 1..Len(body) : IsAttr(body[i], n)
Without(body, i) == SubSeq(body, 1, i - 1) \o SubSeq(body, i + 1, Len(body))

(* the edits, as functions on one body *)
SetIn(body, n, e) == IF HasAttr(body, n) THEN [body EXCEPT ![AttrIdx(body, n)].expr = e]
                     ELSE Append(body, AttrI(n, e, <<>>, ""))
RemoveIn(body, n) == IF HasAttr(body, n) THEN Without(body, AttrIdx(body, n)) ELSE body
AppendBlockIn(body, t, labels) == Append(body, BlockI(t, labels, <<>>, <<>>))
BlockIdxs(body) == {i \in 1..Len(body) : body[i].k = "block"}
(* the j-th block of a body (in order) *)
NthBlock(body, j) == LET ix == SetToSortSeq(BlockIdxs(body), <) IN ix[j]
NumBlocks(body) == Cardinality(BlockIdxs(body))

VARIABLES doc, hist
vars == <<doc, hist>>
CONSTANTS MaxEdits
Names == {"a", "b", "n"}
NewExprs == {"v7", "vs", "list", "vt"}
RawExprs == {"rt", "ru"}
Layouts == {"plain", "midnote", "bom", "noeol", "oneline", "crlf"}
Step(o) == hist' = Append(hist, o) /\ Len(hist) < MaxEdits
(* path: 0 = the file's top-level body, j > 0 = the body of its j-th block *)
At(path) == IF path = 0 THEN doc ELSE doc[NthBlock(doc, path)].body
Put(path, b) == IF path = 0 THEN b ELSE [doc EXCEPT ![NthBlock(doc, path)].body = b]
Paths == 0..NumBlocks(doc)

(* the abstract body after edit o on body d *)
AtOf(d, path) == IF path = 0 THEN d ELSE d[NthBlock(d, path)].body
PutOf(d, path, b) == IF path = 0 THEN b ELSE [d EXCEPT ![NthBlock(d, path)].body = b]
EffectOf(d, o) ==
  CASE o.op = "Format" -> d
    [] o.path > NumBlocks(d) -> d                                  \* no such block: nothing to edit
    [] o.op \in {"SetAttr", "SetAttrRaw"} -> PutOf(d, o.path, SetIn(AtOf(d, o.path), o.name, o.expr))
    [] o.op = "Clear" -> PutOf(d, o.path, <<>>)
    [] o.op = "RemoveAttr" -> PutOf(d, o.path, RemoveIn(AtOf(d, o.path), o.name))
    [] o.op = "AppendBlock" -> PutOf(d, o.path, AppendBlockIn(AtOf(d, o.path), o.type, o.labels))
    [] o.op = "RemoveBlock" -> IF o.j \in 1..NumBlocks(AtOf(d, o.path)) THEN PutOf(d, o.path, Without(AtOf(d, o.path), NthBlock(AtOf(d, o.path), o.j))) ELSE d
Do(o) == doc' = EffectOf(doc, o) /\ Step(o)
SetAttr(path, n, e) == Do([op |-> "SetAttr", path |-> path, name |-> n, expr |-> e])
RemoveAttr(path, n) == Do([op |-> "RemoveAttr", path |-> path, name |-> n])
AppendBlock(path, t, labels) == Do([op |-> "AppendBlock", path |-> path, type |-> t, labels |-> labels])
RemoveBlock(path, j) == j \in 1..NumBlocks(At(path)) /\ Do([op |-> "RemoveBlock", path |-> path, j |-> j])
SetAttrRaw(path, n, e) == Do([op |-> "SetAttrRaw", path |-> path, name |-> n, expr |-> e])
Clear(path) == Do([op |-> "Clear", path |-> path])
Format == Do([op |-> "Format"])
Next == \/ \E p \in Paths : \/ \E n \in Names, e \in NewExprs : SetAttr(p, n, e)
                            \/ \E n \in Names : RemoveAttr(p, n)
                            \/ \E t \in {"blk", "srv"}, ls \in {<<>>, <<"y">>} : AppendBlock(p, t, ls)
                            \/ \E j \in 1..2 : RemoveBlock(p, j)
                            \/ \E n \in {"a", "b"}, e \in RawExprs : SetAttrRaw(p, n, e)
                            \/ Clear(p)
        \/ Format

(* ---------------------------------------------------------------- what every edit guarantees (checked on the model) *)
(* an edit at one path leaves every other top-level item, and every item of the edited body except its target, as it was *)
Target(o) == IF o.op \in {"SetAttr", "SetAttrRaw", "RemoveAttr"} THEN o.name ELSE ""
OthersKept == [][LET o == hist'[Len(hist')] IN
                  /\ (o.op = "Format" => doc' = doc)
                  /\ (o.op # "Format" /\ o.path > 0 =>
                        LET i == NthBlock(doc, o.path) IN
                        /\ Len(doc') = Len(doc)
                        /\ \A m \in 1..Len(doc) : m # i => doc'[m] = doc[m]
                        /\ doc'[i].type = doc[i].type /\ doc'[i].labels = doc[i].labels /\ doc'[i].lead = doc[i].lead)
                  /\ (o.op \in {"SetAttr", "SetAttrRaw", "RemoveAttr"} =>
                        LET before == At(o.path)
                            after == IF o.path = 0 THEN doc' ELSE doc'[NthBlock(doc, o.path)].body
                            keep(b) == SelectSeq(b, LAMBDA x : ~IsAttr(x, o.name))
                        IN keep(after) = keep(before))                       \* every other item, in order, untouched
                  /\ (o.op = "Clear" => (IF o.path = 0 THEN doc' ELSE doc'[NthBlock(doc, o.path)].body) = <<>>)
                  /\ (o.op \in {"SetAttr", "SetAttrRaw"} => LET after == IF o.path = 0 THEN doc' ELSE doc'[NthBlock(doc, o.path)].body IN
                        /\ HasAttr(after, o.name) /\ after[AttrIdx(after, o.name)].expr = o.expr
                        /\ (HasAttr(At(o.path), o.name) =>               \* an existing attribute keeps its place and its comments
                              /\ AttrIdx(after, o.name) = AttrIdx(At(o.path), o.name)
                              /\ after[AttrIdx(after, o.name)].lead = At(o.path)[AttrIdx(At(o.path), o.name)].lead
                              /\ after[AttrIdx(after, o.name)].line = At(o.path)[AttrIdx(At(o.path), o.name)].line))
                  /\ (o.op = "RemoveAttr" => LET after == IF o.path = 0 THEN doc' ELSE doc'[NthBlock(doc, o.path)].body IN ~HasAttr(after, o.name))
               ]_vars

(* ---------------------------------------------------------------- byte-level contracts on recorded outputs *)
(* m = measurements the harness took on one written file *)
LoadContract(m) == m.raw_roundtrip            \* the unformatted token stream is the input, a tab between tokens as a space
FormatContract(m) == /\ m.fmt_blank_only      \* Format(x) and x differ in spaces, tabs and indentation only
                     /\ m.fmt_idempotent      \* Format(Format(x)) = Format(x)
                     /\ m.fmt_same_tree       \* the formatted file parses to the same abstract body
                     /\ m.fmt_same_values     \* ... and decodes to the same values
                     /\ m.bytes_is_format     \* what the writer serialises is the formatted token stream
=============================================================================
