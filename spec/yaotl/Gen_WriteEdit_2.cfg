SPECIFICATION Spec
CONSTANT MaxEdits = 3
INVARIANTS Emit
CHECK_DEADLOCK FALSE
