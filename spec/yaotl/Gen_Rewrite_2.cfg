SPECIFICATION CSpec
CONSTANTS MaxFiles = 3
 MaxSteps = 2
VIEW view
INVARIANTS Emit
CHECK_DEADLOCK FALSE
