SPECIFICATION CSpec
CONSTANTS MaxFiles = 3
 MaxSteps = 3
VIEW view
INVARIANTS Emit
CHECK_DEADLOCK FALSE
