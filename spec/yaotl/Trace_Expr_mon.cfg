SPECIFICATION TraceSpec
INVARIANTS MonParses MonValue
POSTCONDITION TraceAccepted
CHECK_DEADLOCK FALSE
