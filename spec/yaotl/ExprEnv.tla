------------------------------ MODULE ExprEnv ------------------------------
EXTENDS Expr
(* variable environments (the harness builds the same values for the real evaluator) *)
O1 == Obj(<<<<"a", IntV(1)>>, <<"b", Str(<<"b">>)>>>>)
Envs == [e1 |-> [x |-> IntV(3), s |-> Str(<<"a", "b">>), t |-> Tup(<<IntV(1), IntV(2), IntV(3)>>), o |-> O1, n |-> Null,
                 lo |-> Tup(<<Obj(<<<<"a", IntV(1)>>>>), Obj(<<<<"a", IntV(2)>>>>)>>), ns |-> Str(<<"7">>), bs |-> Str(TrueS)],
         e2 |-> [x |-> Num(-1, 2), s |-> Str(<<>>), t |-> Tup(<<>>), o |-> Obj(<<>>), n |-> Null,
                 lo |-> Tup(<<Obj(<<<<"a", Null>>>>)>>), ns |-> Str(<<"-", "2">>), bs |-> Str(FalseS)]]
=============================================================================
