----------------------------- MODULE ScanModes -----------------------------
(* C17 — the yaotl scanner as a machine over token kinds, and the position contracts of lexer and parsers.

   The scanner (hclsyntax/scan_tokens.rl) runs a stack of modes: "main" (configuration / expression syntax),
   "str" (inside a quoted template), "here" (inside a heredoc) and "bare" (a template given on its own).
   Template sequences ${ and %{ call into main and remember the brace depth at which the matching } returns.
   StepTok is what one token does to that state; the same function drives
     - the design check and the generation of token-kind sequences (one action per token), and
     - the validation of recorded token streams (a fold over the stream, one event per lexed input).
   The lexing contract (order, no overlap, exact bytes, only blanks skipped, end-of-file last, line numbers)
   and the tree contract (every node range inside the input and inside its parent's) are folds as well. *)
EXTENDS Integers, Sequences, FiniteSets, TLC, SequencesExt

Plain == {"TokenIdent", "TokenNumberLit", "TokenComment", "TokenNewline", "TokenOBrack", "TokenCBrack", "TokenOParen", "TokenCParen",
          "TokenStar", "TokenSlash", "TokenPlus", "TokenMinus", "TokenPercent", "TokenEqual", "TokenEqualOp", "TokenNotEqual",
          "TokenLessThan", "TokenLessThanEq", "TokenGreaterThan", "TokenGreaterThanEq", "TokenAnd", "TokenOr", "TokenBang",
          "TokenDot", "TokenComma", "TokenEllipsis", "TokenFatArrow", "TokenQuestion", "TokenColon",
          "TokenBitwiseAnd", "TokenBitwiseOr", "TokenBitwiseNot", "TokenBitwiseXor", "TokenStarStar", "TokenApostrophe",
          "TokenBacktick", "TokenSemicolon", "TokenTabs"}
Anywhere == {"TokenInvalid", "TokenBadUTF8"}
Kinds == Plain \cup Anywhere \cup {"TokenOBrace", "TokenCBrace", "TokenOQuote", "TokenCQuote", "TokenOHeredoc", "TokenCHeredoc",
          "TokenTemplateInterp", "TokenTemplateControl", "TokenTemplateSeqEnd", "TokenQuotedLit", "TokenStringLit",
          "TokenQuotedNewline", "TokenEOF"}

(* scanner state: mode stack, brace depth, return depths, finished?, still consistent? *)
Start(mode) == [modes |-> <<mode>>, braces |-> 0, ret |-> <<>>, eof |-> FALSE, ok |-> TRUE]
TopMode(s) == s.modes[Len(s.modes)]
Push(s, m) == [s EXCEPT !.modes = Append(@, m)]
Pop(s) == [s EXCEPT !.modes = SubSeq(@, 1, Len(@) - 1)]
Bad(s) == [s EXCEPT !.ok = FALSE]
Returns(s) == s.ret # <<>> /\ s.ret[Len(s.ret)] = s.braces
StepTok(s, ty) ==
  IF ~s.ok \/ s.eof THEN Bad(s)                                   \* nothing follows the end-of-file token
  ELSE LET m == TopMode(s) IN
  CASE ty = "TokenEOF" -> [s EXCEPT !.eof = TRUE]
    [] ty \in Anywhere -> s
    [] ty \in Plain -> IF m = "main" THEN s ELSE Bad(s)
    [] ty = "TokenOBrace" -> IF m = "main" THEN [s EXCEPT !.braces = @ + 1] ELSE Bad(s)
    [] ty = "TokenCBrace" -> IF m = "main" /\ ~Returns(s) THEN [s EXCEPT !.braces = @ - 1] ELSE Bad(s)
    [] ty = "TokenTemplateSeqEnd" ->
         IF m # "main" THEN Bad(s)
         ELSE IF Returns(s) /\ Len(s.modes) > 1 THEN Pop([s EXCEPT !.braces = @ - 1, !.ret = SubSeq(@, 1, Len(@) - 1)])
         ELSE [s EXCEPT !.braces = @ - 1]                         \* a "~}" that closes an ordinary brace: the parser reports it
    [] ty = "TokenOQuote" -> IF m = "main" THEN Push(s, "str") ELSE Bad(s)
    [] ty = "TokenOHeredoc" -> IF m = "main" THEN Push(s, "here") ELSE Bad(s)
    [] ty = "TokenCQuote" -> IF m = "str" THEN Pop(s) ELSE Bad(s)
    [] ty = "TokenCHeredoc" -> IF m = "here" THEN Pop(s) ELSE Bad(s)
    [] ty = "TokenQuotedLit" -> IF m = "str" THEN s ELSE Bad(s)
    [] ty = "TokenQuotedNewline" -> IF m = "str" THEN s ELSE Bad(s)
    [] ty = "TokenStringLit" -> IF m \in {"here", "bare"} THEN s ELSE Bad(s)
    [] ty \in {"TokenTemplateInterp", "TokenTemplateControl"} ->
         IF m \in {"str", "here", "bare"} THEN Push([s EXCEPT !.braces = @ + 1, !.ret = Append(@, s.braces + 1)], "main") ELSE Bad(s)
    [] OTHER -> Bad(s)

RECURSIVE RunFrom(_, _, _)
RunFrom(s, toks, i) == IF i > Len(toks) THEN s ELSE RunFrom(StepTok(s, toks[i].ty), toks, i + 1)
(* a recorded token stream is one the mode machine can produce, and it ends with the end-of-file token *)
ModesAccept(mode, toks) == LET s == RunFrom(Start(mode), toks, 1) IN s.ok /\ s.eof

(* lexing loses nothing: tok = [ty, s (start), e (end), gap ("none" | "blank" | "bom" | "other"), bytes (exactly the input's), line (as counted from the input)] *)
RECURSIVE LexFrom(_, _, _, _)
LexFrom(toks, i, prevEnd, len) ==
  IF i > Len(toks) THEN prevEnd = len
  ELSE LET t == toks[i] IN
       /\ t.s >= prevEnd /\ t.e >= t.s /\ t.e <= len
       /\ (t.gap \in {"none", "blank"} \/ (t.gap = "bom" /\ prevEnd = 0))     \* a byte order mark may precede the first token
       /\ (t.gap = "none" <=> t.s = prevEnd)
       /\ t.bytes /\ t.line
       /\ (t.ty = "TokenEOF" => i = Len(toks) /\ t.s = len /\ t.e = len)
       /\ LexFrom(toks, i + 1, t.e, len)
LexContract(toks, len) == Len(toks) > 0 /\ toks[Len(toks)].ty = "TokenEOF" /\ LexFrom(toks, 1, 0, len)

(* every node range lies inside the input and inside its parent's: nodes in pre-order as [d (depth), s, e] *)
RECURSIVE TreeFrom(_, _, _, _)
TreeFrom(nodes, i, stack, len) ==
  IF i > Len(nodes) THEN TRUE
  ELSE LET n == nodes[i]
           up == SubSeq(stack, 1, n.d)                         \* ancestors of this node
       IN /\ n.d <= Len(stack)
          /\ 0 <= n.s /\ n.s <= n.e /\ n.e <= len
          /\ (n.d > 0 => up[n.d].s <= n.s /\ n.e <= up[n.d].e)
          /\ TreeFrom(nodes, i + 1, Append(up, n), len)
TreeContract(nodes, len) == TreeFrom(nodes, 1, <<>>, len)
(* diagnostics point into the input: [s, e] (and context [cs, ce] around the subject when given) *)
DiagContract(diags, len) == \A i \in 1..Len(diags) : LET d == diags[i] IN
                               /\ 0 <= d.s /\ d.s <= d.e /\ d.e <= len
                               /\ (d.ctx => 0 <= d.cs /\ d.cs <= d.ce /\ d.ce <= len)

(* ---------------------------------------------------------------- the machine as a specification *)
VARIABLES st, hist
vars == <<st, hist>>
StartModes == {"main", "bare"}
Init == \E m \in StartModes : st = Start(m) /\ hist = <<[start |-> m]>>
Tok(ty) == /\ st.ok /\ ~st.eof /\ StepTok(st, ty).ok
           /\ st' = StepTok(st, ty) /\ hist' = Append(hist, [ty |-> ty])
Next == \E ty \in Kinds : Tok(ty)
Spec == Init /\ [][Next]_vars
(* what the machine guarantees about any stream it produces *)
DepthOK == Len(st.modes) >= 1 /\ Len(st.ret) = Cardinality({i \in 1..Len(st.modes) : i > 1 /\ st.modes[i] = "main"})
TemplatesNest == \A i \in 2..Len(st.modes) : (st.modes[i] = "main") = (st.modes[i - 1] \in {"str", "here", "bare"})
BottomStays == st.modes[1] \in StartModes /\ \A i \in 2..Len(st.modes) : st.modes[i] # "bare"
RetIncreasing == \A i \in 1..(Len(st.ret) - 1) : st.ret[i] < st.ret[i + 1]
=============================================================================
