---------------------------- MODULE ScanModes_MC ----------------------------
(* bounded check of the mode machine: one representative per class of ordinary tokens *)
EXTENDS ScanModes
SmallPlain == {"TokenIdent", "TokenNewline"}
MaxLen == 8
Bounded == Len(hist) <= MaxLen /\ Len(st.modes) <= 4
=============================================================================
