SPECIFICATION LawSpec
INVARIANTS Laws
CHECK_DEADLOCK FALSE
