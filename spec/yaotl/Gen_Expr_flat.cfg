SPECIFICATION FlatSpec
INVARIANTS Emit Total
CHECK_DEADLOCK FALSE
