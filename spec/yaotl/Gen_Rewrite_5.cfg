SPECIFICATION CSpec
CONSTANTS MaxFiles = 3
 MaxSteps = 5
VIEW view
INVARIANTS Emit
CHECK_DEADLOCK FALSE
