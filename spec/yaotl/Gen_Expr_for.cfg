SPECIFICATION ForSpec
INVARIANTS Emit Total
CHECK_DEADLOCK FALSE
