--------------------------- MODULE Trace_WriteEdit ---------------------------
(* judges what the real writer produced after loading a file and after every edit against WriteEdit.tla *)
EXTENDS WriteEdit_Docs, IOUtils, TLCExt
TraceLog == ndJsonDeserialize(IOEnv.VERIF_TRACE)
Strict == IOEnv.VERIF_STRICT = "1"
VARIABLES l, cur, okedit,
          bad       \* collecting mode (VERIF_COLLECT=1): every event at which a monitor fails, as <<line, names of the failing monitors>>
tvars == <<vars, l, cur, okedit, bad>>
Collect == IOEnv.VERIF_COLLECT = "1"
E == TraceLog[l]
TraceInit == l = 1 /\ doc = <<>> /\ hist = <<>> /\ cur = [ev |-> "Reset"] /\ okedit = TRUE /\ bad = <<>>
RECURSIVE SameDoc(_, _)
SameItem(x, y) == /\ x.k = y.k
                  /\ CASE x.k = "note" -> x.id = y.id
                       [] x.k = "attr" -> x.name = y.name /\ x.expr = y.expr /\ x.lead = y.lead /\ x.line = y.line
                       [] x.k = "block" -> x.type = y.type /\ x.labels = y.labels /\ x.lead = y.lead /\ SameDoc(x.body, y.body)
SameDoc(a, b) == Len(a) = Len(b) /\ \A i \in 1..Len(a) : SameItem(a[i], b[i])
IsEvent(e) == l <= Len(TraceLog) /\ E.ev = e /\ l' = l + 1 /\ cur' = E /\ UNCHANGED hist
Reset == IsEvent("Reset") /\ doc' = <<>> /\ okedit' = TRUE
(* the file as generated reads back as the body it was generated from (strict: the harness's reader and renderer agree) *)
Load == IsEvent("Load") /\ doc' = E.doc /\ okedit' = TRUE /\ (Strict => SameDoc(E.doc, E.o.doc))
(* after an edit, re-reading the output shows that change and no other *)
Edit == IsEvent("Edit") /\ doc' = E.doc /\ okedit' = (E.crashed \/ E.parse_error # "" \/ SameDoc(E.doc, EffectOf(doc, E.o)))
Written == cur.ev \in {"Load", "Edit"}
MonNoCrash == Written => ~cur.crashed /\ cur.parse_error = ""
MonEdit == okedit
MonLoad == (Written /\ ~cur.crashed /\ cur.parse_error = "") => LoadContract(cur.m)
MonFormat == (Written /\ ~cur.crashed /\ cur.parse_error = "") => FormatContract(cur.m)
(* what was handed out stays what it was: the bytes returned for an earlier state of the file (and for this one) are not changed by later calls *)
MonKept == Written => cur.kept
(* the monitors as invariants stop at the first failing event; in collecting mode they are evaluated on every new state
   and the failing events are gathered, so that one run judges every behaviour *)
Failing == (IF MonNoCrash THEN {} ELSE {"MonNoCrash"}) \cup (IF MonEdit THEN {} ELSE {"MonEdit"})
           \cup (IF MonLoad THEN {} ELSE {"MonLoad"}) \cup (IF MonFormat THEN {} ELSE {"MonFormat"}) \cup (IF MonKept THEN {} ELSE {"MonKept"})
Gather == bad' = IF Collect /\ Failing' # {} THEN Append(bad, <<l, Failing'>>) ELSE bad
TraceNext == (Reset \/ Load \/ Edit) /\ Gather
TraceSpec == TraceInit /\ [][TraceNext]_tvars
Collected == (l > Len(TraceLog)) => PrintT(<<"COLLECTED", ToJson(bad)>>)
TraceAccepted == TLCGet("stats").diameter - 1 = Len(TraceLog)
=============================================================================
