SPECIFICATION TraceSpec
CONSTANTS MaxFiles = 3
 MaxSteps = 9
INVARIANTS MonNoCrash MonValidityKept MonSameResult
POSTCONDITION TraceAccepted
CHECK_DEADLOCK FALSE
