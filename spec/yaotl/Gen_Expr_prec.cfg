SPECIFICATION PrecSpec
INVARIANTS Emit Total
CHECK_DEADLOCK FALSE
