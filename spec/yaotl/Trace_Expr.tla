----------------------------- MODULE Trace_Expr -----------------------------
(* judges what the real parser + evaluator returned for every printing of a tree against Expr.tla's Eval *)
EXTENDS ExprEnv, Json, IOUtils
TraceLog == ndJsonDeserialize(IOEnv.VERIF_TRACE)
VARIABLES l, cur
tvars == <<l, cur>>
E == TraceLog[l]
TraceInit == l = 1 /\ cur = [k |-> "none"]
Step == l <= Len(TraceLog) /\ E.ev \in {"Eval", "Reset"} /\ l' = l + 1
        /\ cur' = IF E.ev = "Eval" THEN [k |-> "eval", tree |-> E.tree, env |-> E.env, obs |-> E.obs] ELSE [k |-> "none"]
TraceSpec == TraceInit /\ [][Step]_tvars
Expected == Eval(cur.tree, Envs[cur.env])
(* every printing parses, and evaluates to the value (or to an error exactly when) the language says *)
MonParses == cur.k = "eval" => \A i \in 1..Len(cur.obs) : cur.obs[i].t # "parse-error"
MonValue == cur.k = "eval" => \A i \in 1..Len(cur.obs) : cur.obs[i].t = "parse-error" \/ Agrees(cur.obs[i], Expected)
TraceAccepted == TLCGet("stats").diameter - 1 = Len(TraceLog)
=============================================================================
