SPECIFICATION SmallSpec
CONSTANT MaxEdits = 5
INVARIANTS Emit
CHECK_DEADLOCK FALSE
