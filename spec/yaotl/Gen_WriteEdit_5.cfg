SPECIFICATION Spec
CONSTANT MaxEdits = 6
INVARIANTS Emit
CHECK_DEADLOCK FALSE
