SPECIFICATION Spec
CONSTANT MaxEdits = 3
PROPERTY OthersKept
CHECK_DEADLOCK FALSE
