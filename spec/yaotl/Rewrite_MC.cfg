SPECIFICATION CSpec
CONSTANTS MaxFiles = 3
 MaxSteps = 3
VIEW view
INVARIANTS MeaningKept StaysWellFormed
CHECK_DEADLOCK FALSE
