---------------------------- MODULE Rewrite_Cfgs ----------------------------
(* the configurations the rewrite system starts from: one native file each (schema: name (required), count, flag, tags, meta,
   repeated labelled block server {host (required), port, opt {v}}, single block limits {max (required)}) *)
EXTENDS Rewrite
(* strings in states stay ASCII (TLC mangles other characters when states go through its disk queue): the harness
   writes {eacute} as the two-byte character and reads it back the same way *)
Sv(label, host, more) == Blk("server", <<label>>, <<Attr("host", S(host))>> \o more)
Port(n) == <<Attr("port", N(n))>>
Opt(v) == <<Blk("opt", <<>>, <<Attr("v", S(v))>>)>>
Lim(m) == Blk("limits", <<>>, <<Attr("max", N(m))>>)
Bases == {
  [id |-> "c1", valid |-> TRUE, items |-> <<Attr("name", S("web")), Attr("count", N(5)), Sv("web", "h1", <<>>), Sv("db", "h2", <<>>), Lim(3)>>],
  [id |-> "c2", valid |-> TRUE, items |-> <<Sv("web", "h1", Port(80)), Attr("flag", B(TRUE)), Attr("name", Tm("if", "on")), Sv("web", "h2", Port(81)), Attr("tags", Ls(<<"a", "b c">>)), Sv("db", "h3", Port(-3))>>],
  [id |-> "c3", valid |-> TRUE, items |-> <<Attr("meta", Mp(<<<<"k", "v">>, <<"k2", "">> >>)), Sv("web", "h1", Opt("x")), Sv("db", "h2", Opt("y")), Attr("name", S("q\"\\ {eacute}"))>>],
  [id |-> "c4", valid |-> TRUE, items |-> <<Attr("tags", Ls(<<>>)), Lim(0), Attr("flag", B(FALSE)), Attr("name", S("100%{x ${y} $${z}"))>>],
  [id |-> "c5", valid |-> TRUE, items |-> <<Sv("a", "h1", <<>>), Sv("b", "h2", Port(1)), Attr("count", N(0)), Sv("c", "h3", <<>>), Attr("name", Tm("interp", "v2"))>>],
  [id |-> "c7", valid |-> TRUE, items |-> <<Attr("name", Tm("pct", "50%{x} ")), Sv("t", "x", Opt("y")), Attr("tags", Ls(<<"%{", "%%{", "$">>))>>],
  [id |-> "c8", valid |-> TRUE, items |-> <<Sv("h", "x", <<>>), Attr("name", Tm("here", "2 up\n")), Attr("count", N(1))>>],
  [id |-> "c6", valid |-> TRUE, items |-> <<Attr("name", S("")), Sv("one", "h", Port(8080) \o Opt(""))>>],
  [id |-> "e1", valid |-> FALSE, items |-> <<Blk("server", <<"web">>, Port(1)), Attr("name", S("x"))>>],
  [id |-> "e2", valid |-> FALSE, items |-> <<Attr("count", S("abc")), Sv("web", "h", <<>>), Attr("name", S("n"))>>],
  [id |-> "e3", valid |-> FALSE, items |-> <<Lim(1), Attr("flag", B(TRUE)), Lim(2), Attr("name", S("n"))>>],
  [id |-> "e5", valid |-> FALSE, items |-> <<Attr("count", N(1)), Sv("web", "h", <<>>), Attr("flag", B(TRUE))>>],
  [id |-> "e6", valid |-> FALSE, items |-> <<Attr("name", Tm("badif", "")), Attr("count", N(2))>>],
  [id |-> "e4", valid |-> FALSE, items |-> <<Sv("web", "h", <<>>), Attr("bogus", N(1)), Attr("name", S("n"))>>] }
VARIABLE cid
cvars == <<vars, cid>>
CInit == \E b \in Bases : /\ cid = b.id /\ files = <<File("native", 0, b.items)>> /\ base = files /\ steps = 0 /\ hist = <<>>
CNext == Next /\ UNCHANGED cid
CSpec == CInit /\ [][CNext]_cvars
view == <<files, cid>>
=============================================================================
