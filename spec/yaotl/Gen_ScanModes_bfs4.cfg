SPECIFICATION Spec
CONSTANT Plain <- GenPlain
CONSTANT MaxLen = 4
CONSTRAINT Bounded
INVARIANTS Emit
CHECK_DEADLOCK FALSE
