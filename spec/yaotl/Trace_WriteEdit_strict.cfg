SPECIFICATION TraceSpec
CONSTANT MaxEdits = 9
POSTCONDITION TraceAccepted
CHECK_DEADLOCK FALSE
