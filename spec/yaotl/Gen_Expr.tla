----------------------------- MODULE Gen_Expr -----------------------------
(* expression and template trees for the evaluator: bounded-exhaustive families and seeded random trees;
   the specification also knows their values (Eval), the harness prints each tree in several spellings *)
EXTENDS ExprEnv, Json, Randomization
VARIABLES tree, envn
gvars == <<tree, envn>>

N(n) == [k |-> "num", n |-> n]
V(n) == [k |-> "var", name |-> n]
Bo(b) == [k |-> "bool", v |-> b]
Nul == [k |-> "null"]
L(s) == [k |-> "lit", s |-> s]
S(s) == [k |-> "str", parts |-> IF s = <<>> THEN <<>> ELSE <<L(s)>>]
Bin(op, l, r) == [k |-> "bin", op |-> op, l |-> l, r |-> r]
Un(op, e) == [k |-> "un", op |-> op, e |-> e]
Cond(c, a, b) == [k |-> "cond", c |-> c, a |-> a, b |-> b]
Ix(e, key) == [k |-> "index", e |-> e, key |-> key]
At(e, n) == [k |-> "attr", e |-> e, name |-> n]
Sp(e, n) == [k |-> "splat", e |-> e, name |-> n]
I(e, sl, sr) == [k |-> "interp", e |-> e, sl |-> sl, sr |-> sr]
T(parts) == [k |-> "str", parts |-> parts]

EnvNames == DOMAIN Envs
VarNames == {"x", "s", "t", "o", "n", "lo", "ns", "bs", "u"}          \* "u" is never defined

Ops == {"+", "-", "*", "/", "%", "==", "!=", "<", "<=", ">", ">=", "&&", "||"}
Leaves == {N(0), N(1), N(2), N(3), N(7), S(<<>>), S(<<"a">>), S(<<"3">>), S(TrueS), Bo(TRUE), Bo(FALSE), Nul} \cup {V(v) : v \in VarNames}
(* every operator on every pair of leaves; unary operators; conditionals; indexing, attributes, splats *)
Flat == {Bin(op, l, r) : op \in Ops, l \in Leaves, r \in Leaves}
        \cup {Un(op, e) : op \in {"-", "!"}, e \in Leaves}
        \cup {Cond(c, a, b) : c \in {Bo(TRUE), Bo(FALSE), Nul, S(TrueS), V("x"), V("u"), V("bs")}, a \in Leaves, b \in Leaves}
        \cup {Ix(e, key) : e \in Leaves, key \in Leaves} \cup {Ix(V("o"), S(<<"a">>)), Ix(V("o"), S(<<"c">>)), Ix(V("t"), Un("-", N(1))), Ix(V("t"), Bin("/", N(1), N(2)))}
        \cup {At(e, n) : e \in Leaves, n \in {"a", "c"}} \cup {Sp(e, n) : e \in Leaves, n \in {"a", "c"}}
        \cup {[k |-> "call", fn |-> f, args |-> as] : f \in {"inc", "cat", "nofn"}, as \in {<<>>, <<N(1)>>, <<S(<<"a">>), N(2)>>, <<V("n")>>, <<V("ns")>>, <<N(1), N(2), N(3)>>, <<V("u")>>}}
NullSibs == {N(7), S(<<"a">>), Bo(TRUE)}
(* precedence and associativity: two operators, three operands, both shapes; with numbers and with flags *)
Triples == {<<N(7), N(2), N(3)>>, <<Bo(TRUE), Bo(FALSE), Bo(TRUE)>>, <<N(1), N(1), Bo(FALSE)>>, <<N(2), Bo(TRUE), N(2)>>}
Prec == {Bin(o1, Bin(o2, t[1], t[2]), t[3]) : o1 \in Ops, o2 \in Ops, t \in Triples}
        \cup {Bin(o1, t[1], Bin(o2, t[2], t[3])) : o1 \in Ops, o2 \in Ops, t \in Triples}
        \cup {Un(u, Bin(o, t[1], t[2])) : u \in {"-", "!"}, o \in Ops, t \in Triples}
        \cup {Bin(o, Un(u, t[1]), t[2]) : u \in {"-", "!"}, o \in Ops, t \in Triples}
        \cup {Bin(o, t[1], Un(u, t[2])) : u \in {"-", "!"}, o \in Ops, t \in Triples}
        \cup {Cond(Bin(o, N(1), N(2)), Bin(o, N(3), N(1)), Cond(Bo(FALSE), N(1), Bin(o, N(2), N(2)))) : o \in Ops}
        \cup {Cond(Cond(Bo(b1), Bo(b2), Bo(FALSE)), N(1), N(2)) : b1 \in BOOLEAN, b2 \in BOOLEAN}
        \cup {Cond(Bo(b1), Cond(Bo(b2), N(1), N(2)), N(3)) : b1 \in BOOLEAN, b2 \in BOOLEAN}
        \cup {Bin(o, Cond(Bo(TRUE), N(1), N(2)), N(3)) : o \in Ops}
        \cup {Cond(Bo(c), Cond(Bo(d), Nul, x), y) : c \in BOOLEAN, d \in BOOLEAN, x \in NullSibs, y \in NullSibs}      \* a null typed by its sibling meets another type
        \cup {Cond(Bo(c), y, Cond(Bo(d), x, Nul)) : c \in BOOLEAN, d \in BOOLEAN, x \in NullSibs, y \in NullSibs}
        \cup {Ix(Bin("+", V("t"), N(1)), N(0)), At(Bin("||", V("o"), Bo(TRUE)), "a"), Un("-", Ix(V("t"), N(0))), Un("-", At(V("o"), "a")), Bin("*", Ix(V("t"), N(1)), At(V("o"), "a"))}
(* collections and for expressions *)
Tu(items) == [k |-> "tuple", items |-> items]
Ob(keys, vals) == [k |-> "obj", keys |-> keys, vals |-> vals]
ForT(kv, v, coll, body, cnd) == [k |-> "fort", kv |-> kv, v |-> v, coll |-> coll, body |-> body, cnd |-> cnd]
ForO(kv, v, coll, key, val, cnd, grp) == [k |-> "foro", kv |-> kv, v |-> v, coll |-> coll, key |-> key, val |-> val, cnd |-> cnd, grp |-> grp]
Colls == {V("t"), V("o"), V("lo"), V("n"), V("x"), V("u"), Tu(<<N(2), N(1), N(2)>>), Tu(<<>>), Ob(<<"b", "a">>, <<N(1), S(<<"a">>)>>), Tu(<<S(<<"a">>), S(<<"b">>), S(<<"a">>)>>)}
Conds == {None, Bin(">", V("v"), N(1)), Bin("!=", V("v"), N(2)), Bo(FALSE), Bin("==", V("i"), N(0))}
Bodies == {V("v"), Bin("*", V("v"), N(2)), V("i"), Tu(<<V("i"), V("v")>>), At(V("v"), "a"), T(<<I(V("v"), FALSE, FALSE), L(<<"a">>)>>)}
Fors == {ForT(kv, "v", c, b, cd) : kv \in {"", "i"}, c \in Colls, b \in Bodies, cd \in Conds}
        \cup {ForO(kv, "v", c, key, val, cd, g) : kv \in {"", "i"}, c \in Colls, key \in {V("v"), V("i"), S(<<"k">>), T(<<I(V("v"), FALSE, FALSE)>>)},
                val \in {V("v"), V("i"), N(1)}, cd \in {None, Bin("!=", V("v"), N(2))}, g \in BOOLEAN}
        \cup {Ix(Tu(<<N(1), N(2)>>), N(1)), At(Ob(<<"a">>, <<N(5)>>), "a"), Sp(V("lo"), "a"), Sp(Ob(<<"a">>, <<N(5)>>), "a"),
              Ix(Sp(V("lo"), "a"), N(1)), Bin("==", Tu(<<N(1), S(<<"a">>)>>), Tu(<<N(1), S(<<"a">>)>>)), Bin("==", Tu(<<N(1)>>), Tu(<<S(<<"1">>)>>)),
              Bin("==", Ob(<<"a", "b">>, <<N(1), N(2)>>), Ob(<<"b", "a">>, <<N(2), N(1)>>)), Bin("!=", Tu(<<>>), Ob(<<>>, <<>>)), Bin("==", Nul, Nul), Bin("==", Nul, N(0))}
(* templates: up to three parts *)
Lits == {L(<<"a", " ">>), L(<<" ", "b">>), L(<<" ", "\n", " ">>), L(<<"a", "\n">>)}
Interps == {I(e, sl, sr) : e \in {V("x"), V("s"), V("n"), V("t"), Bin("/", N(3), N(2)), Bo(TRUE), V("u"), Bin("+", N(1), N(2))}, sl \in BOOLEAN, sr \in BOOLEAN}
Tif(c, th, el, st) == [k |-> "tif", c |-> c, th |-> th, el |-> el, strip |-> st]
Tfor(kv, v, coll, body, st) == [k |-> "tfor", kv |-> kv, v |-> v, coll |-> coll, body |-> body, strip |-> st]
Dirs == {Tif(c, th, el, st) : c \in {Bo(TRUE), Bo(FALSE), Nul, V("bs"), Bin(">", V("x"), N(1))}, th \in {<<L(<<" ", "a", " ">>)>>, <<>>}, el \in {<<>>, <<L(<<"\n", "b", " ">>)>>}, st \in BOOLEAN}
        \cup {Tfor(kv, "v", c, b, st) : kv \in {"", "i"}, c \in {V("t"), V("o"), V("n"), V("s"), Tu(<<>>)}, b \in {<<L(<<" ">>), I(V("v"), FALSE, FALSE), L(<<"\n">>)>>, <<I(V("v"), TRUE, TRUE)>>, <<I(V("i"), FALSE, FALSE), L(<<" ">>)>>}, st \in BOOLEAN}
TParts == Lits \cup Interps \cup Dirs
NoTwoLits(ps) == \A i \in 1..(Len(ps) - 1) : ~(ps[i].k = "lit" /\ ps[i + 1].k = "lit")
Templates == {T(<<p>>) : p \in TParts} \cup {T(<<p, q>>) : p \in TParts, q \in Lits \cup {I(V("s"), TRUE, FALSE)}}
             \cup {T(<<p, q, r>>) : p \in Lits, q \in Interps \cup Dirs, r \in Lits}
             \cup {T(<<p, q>>) : p \in Lits, q \in Dirs}
Tmpls == {t \in Templates : NoTwoLits(t.parts)}
(* heredocs written with <<- : two or three lines at indentations 0 / 2 / 4, starting with text or with an interpolation, empty lines,
   the closing marker at two indentations *)
LineShapes == {<<L(<<"a">>)>>, <<I(V("s"), FALSE, FALSE)>>, <<I(V("x"), FALSE, FALSE), L(<<" ", "b">>)>>, <<L(<<"a">>), I(V("ns"), FALSE, FALSE)>>}
Lines1 == {[ind |-> i, parts |-> ps] : i \in {0, 2, 4}, ps \in LineShapes} \cup {[ind |-> 0, parts |-> <<>>]}
Flushes == {[k |-> "flush", lines |-> ls, close |-> c] : ls \in {<<a, b>> : a \in Lines1, b \in Lines1} \cup {<<a, b, d>> : a \in Lines1, b \in Lines1, d \in Lines1}, c \in {0, 2}}
(* calls whose last argument expands: on their own, and evaluated several times (the body of a for expression, of a template for) *)
CallX(f, as) == [k |-> "callx", fn |-> f, args |-> as]
Pairs2 == Tu(<<Tu(<<S(<<"a">>), S(<<"b">>)>>), Tu(<<S(<<"c">>), S(<<"a">>)>>), Tu(<<S(<<"b">>), N(3)>>)>>)
Singles2 == Tu(<<Tu(<<N(1)>>), Tu(<<N(7)>>), Tu(<<V("x")>>)>>)
FlatX == {CallX(f, as) : f \in {"inc", "cat", "nofn"}, as \in {<<V("t")>>, <<V("ns")>>, <<V("n")>>, <<V("o")>>, <<V("u")>>, <<Tu(<<>>)>>, <<Tu(<<N(1)>>)>>, <<Tu(<<S(<<"a">>), S(<<"b">>)>>)>>,
                                                                   <<S(<<"a">>), Tu(<<S(<<"b">>)>>)>>, <<S(<<"a">>), Tu(<<>>)>>, <<N(1), Tu(<<N(2)>>)>>, <<Tu(<<N(1), N(2), N(3)>>)>>}}
ForsX == {ForT(kv, "v", c, b, None) : kv \in {"", "i"}, c \in {Pairs2, Singles2, V("t"), Tu(<<>>)}, b \in {CallX("cat", <<V("v")>>), CallX("inc", <<V("v")>>), CallX("cat", <<S(<<"k">>), V("v")>>)}}
         \cup {ForO("i", "v", c, V("i"), b, None, FALSE) : c \in {Ob(<<"a", "b">>, <<Tu(<<N(1)>>), Tu(<<N(2)>>)>>)}, b \in {CallX("inc", <<V("v")>>)}}
         \cup {T(<<Tfor("", "v", c, <<I(CallX(f, <<V("v")>>), FALSE, FALSE), L(<<" ">>)>>, FALSE)>>) : c \in {Pairs2, Singles2}, f \in {"inc", "cat"}}

(* seeded random trees over all node kinds *)
RECURSIVE RT(_)
RT(d) ==
  IF d = 0 THEN RandomElement(Leaves)
  ELSE LET c == RandomElement(1..12) IN
       CASE c \in {1, 2, 3} -> Bin(RandomElement(Ops), RT(d - 1), RT(d - 1))
         [] c = 4 -> Un(RandomElement({"-", "!"}), RT(d - 1))
         [] c = 5 -> Cond(RT(d - 1), RT(d - 1), RT(d - 1))
         [] c = 6 -> Tu([i \in 1..RandomElement(0..3) |-> RT(d - 1)] \o <<>>)
         [] c = 7 -> LET ks == RandomElement({<<>>, <<"a">>, <<"b", "a">>, <<"a", "b", "c">>}) IN Ob(ks, [i \in 1..Len(ks) |-> RT(d - 1)] \o <<>>)
         [] c = 8 -> Ix(RT(d - 1), RT(d - 1))
         [] c = 9 -> IF RandomElement(BOOLEAN) THEN At(RT(d - 1), RandomElement({"a", "b", "c"})) ELSE Sp(RT(d - 1), RandomElement({"a", "b"}))
         [] c = 10 -> ForT(RandomElement({"", "i"}), "v", RT(d - 1), RandomElement(Bodies), RandomElement(Conds))
         [] c = 11 -> T([i \in 1..RandomElement(1..3) |-> IF i % 2 = 1 THEN I(RT(d - 1), RandomElement(BOOLEAN), RandomElement(BOOLEAN)) ELSE RandomElement(Lits)] \o <<>>)
         [] c = 12 -> [k |-> "call", fn |-> RandomElement({"inc", "cat"}), args |-> [i \in 1..RandomElement(1..2) |-> RT(d - 1)] \o <<>>]
RandTrees(n) == {RT(RandomElement(2..4)) : i \in 1..n}
(* well-typed random trees: deep mixes of operators that mostly have a value *)
RECURSIVE Nm(_), Bl(_), St(_)
Nm(d) == IF d = 0 THEN RandomElement({N(0), N(1), N(2), N(3), N(7), V("x"), V("ns"), Ix(V("t"), N(1)), At(V("o"), "a")})
         ELSE LET c == RandomElement(1..8) IN
              CASE c \in {1, 2, 3, 4} -> Bin(RandomElement({"+", "-", "*", "/", "%"}), Nm(d - 1), Nm(d - 1))
                [] c = 5 -> Un("-", Nm(d - 1))
                [] c = 6 -> Cond(Bl(d - 1), Nm(d - 1), Nm(d - 1))
                [] c = 7 -> [k |-> "call", fn |-> "inc", args |-> <<Nm(d - 1)>>]
                [] c = 8 -> Nm(0)
Bl(d) == IF d = 0 THEN RandomElement({Bo(TRUE), Bo(FALSE), V("bs")})
         ELSE LET c == RandomElement(1..7) IN
              CASE c \in {1, 2} -> Bin(RandomElement({"<", "<=", ">", ">=", "==", "!="}), Nm(d - 1), Nm(d - 1))
                [] c \in {3, 4} -> Bin(RandomElement({"&&", "||"}), Bl(d - 1), Bl(d - 1))
                [] c = 5 -> Un("!", Bl(d - 1))
                [] c = 6 -> Bin(RandomElement({"==", "!="}), St(d - 1), St(d - 1))
                [] c = 7 -> Cond(Bl(d - 1), Bl(d - 1), Bl(d - 1))
St(d) == IF d = 0 THEN RandomElement({S(<<"a">>), S(<<>>), S(<<"a", " ", "b">>), V("s")})
         ELSE LET c == RandomElement(1..4) IN
              CASE c = 1 -> T(<<L(<<"a", " ">>), I(Nm(d - 1), RandomElement(BOOLEAN), FALSE), L(<<" ">>), I(Bl(d - 1), FALSE, RandomElement(BOOLEAN)), L(<<" ", "b">>)>>)
                [] c = 2 -> [k |-> "call", fn |-> "cat", args |-> <<St(d - 1), St(d - 1)>>]
                [] c = 3 -> Cond(Bl(d - 1), St(d - 1), St(d - 1))
                [] c = 4 -> T(<<I(St(d - 1), FALSE, FALSE), L(<<"a">>)>>)
TypedTrees(n) == {Nm(RandomElement(2..4)) : i \in 1..n} \cup {Bl(RandomElement(2..4)) : i \in 1..n} \cup {St(RandomElement(2..3)) : i \in 1..n}

Emit == PrintT(<<"BEHAVIOUR", ToJson(<<[op |-> "Eval", tree |-> tree, env |-> envn, vars |-> Envs[envn], want |-> (LET v == Eval(tree, Envs[envn]) IN IF IsErr(v) THEN "err" ELSE IF HasBad(v) THEN "unspec" ELSE v.t)]>>)>>)
GInit(D) == tree \in D /\ envn \in EnvNames
Next == UNCHANGED gvars
FlatSpec == GInit(Flat \cup FlatX) /\ [][Next]_gvars
PrecSpec == GInit(Prec) /\ [][Next]_gvars
ForSpec == GInit(Fors \cup ForsX) /\ [][Next]_gvars
TmplSpec == GInit(Tmpls) /\ [][Next]_gvars
FlushSpec == GInit(Flushes) /\ [][Next]_gvars
RandSpec == GInit(RandTrees(800) \cup TypedTrees(500)) /\ [][Next]_gvars
LawSpec == tree = N(0) /\ envn = "e1" /\ [][Next]_gvars
(* the reference evaluator is total on everything generated, and obeys the laws any evaluator of this language must *)
Total == Eval(tree, Envs[envn]).t \in {"num", "bool", "str", "null", "tuple", "obj", "err", "unspec"}
Laws == \A l1 \in Leaves, l2 \in Leaves, en \in EnvNames :
          LET a == Eval(l1, Envs[en])  b == Eval(l2, Envs[en]) IN
          /\ VEq(BinOp("+", a, b), BinOp("+", b, a)) /\ VEq(BinOp("*", a, b), BinOp("*", b, a))
          /\ VEq(BinOp("-", a, b), BinOp("+", a, UnOp("-", b)))
          /\ (BinOp("==", a, b).t = "bool" => VEq(BinOp("!=", a, b), Bool(~BinOp("==", a, b).v)))
          /\ VEq(BinOp("<", a, b), BinOp(">", b, a)) /\ VEq(BinOp("<=", a, b), BinOp(">=", b, a))
          /\ (BinOp("<", a, b).t = "bool" => VEq(BinOp(">=", a, b), Bool(~BinOp("<", a, b).v)))
          /\ (BinOp("&&", a, b).t = "bool" => VEq(UnOp("!", BinOp("&&", a, b)), BinOp("||", UnOp("!", a), UnOp("!", b))))
          /\ (BinOp("/", a, b).t = "num" => VEq(BinOp("*", BinOp("/", a, b), b), ToNum(a)))
          /\ (BinOp("%", a, b).t = "num" => LET q == BinOp("/", BinOp("-", a, BinOp("%", a, b)), b) IN q.d = 1 /\ VEq(BinOp("+", BinOp("*", q, b), BinOp("%", a, b)), ToNum(a)))
          /\ VEq(CondResult(Bool(TRUE), a, a), IF IsErr(a) THEN Err ELSE IF Bad(a) THEN Unspec ELSE a)
=============================================================================
