----------------------------- MODULE Gen_Rewrite -----------------------------
EXTENDS Rewrite_Cfgs, Json
Emit == PrintT(<<"BEHAVIOUR", ToJson(<<[op |-> "Rep", cid |-> cid, files |-> files, rws |-> hist]>>)>>)
=============================================================================
