---------------------------- MODULE TaskGrammar ----------------------------
(***************************************************************************)
(* What the Demon reads for every operator task: per (command, sub-command)*)
(* the typed fields its handler in payloads/Demon/src/core/Command.c        *)
(* consumes, in order, and which operator parameter each field must carry. *)
(* (k is the value of a constant field; par names the operator parameter.)  *)
(* Check-in framing, per-task encryption and request ids are part of the    *)
(* Deliver action.   code: pkg/agent/demons.go TaskPrepare,                 *)
(* pkg/agent/agent.go BuildPayloadMessage, cmd/server/dispatch.go           *)
(* Row table generated from DESIGN appendix A.2 (74 rows).                  *)
(***************************************************************************)
EXTENDS Integers, Sequences, FiniteSets, TLC

Rows == {
  [name |-> "sleep", cmd |-> 11, extra |-> FALSE, fields |-> <<[ty |-> "i32", par |-> "delay", k |-> 0], [ty |-> "i32", par |-> "jitter", k |-> 0]>>],
  [name |-> "checkin", cmd |-> 100, extra |-> FALSE, fields |-> <<>>],
  [name |-> "exit", cmd |-> 92, extra |-> FALSE, fields |-> <<[ty |-> "i32", par |-> "method", k |-> 0]>>],
  [name |-> "job_list", cmd |-> 21, extra |-> FALSE, fields |-> <<[ty |-> "i32", par |-> "", k |-> 1]>>],
  [name |-> "job_suspend", cmd |-> 21, extra |-> FALSE, fields |-> <<[ty |-> "i32", par |-> "", k |-> 2], [ty |-> "i32", par |-> "id", k |-> 0]>>],
  [name |-> "job_resume", cmd |-> 21, extra |-> FALSE, fields |-> <<[ty |-> "i32", par |-> "", k |-> 3], [ty |-> "i32", par |-> "id", k |-> 0]>>],
  [name |-> "job_kill", cmd |-> 21, extra |-> FALSE, fields |-> <<[ty |-> "i32", par |-> "", k |-> 4], [ty |-> "i32", par |-> "id", k |-> 0]>>],
  [name |-> "proc_modules", cmd |-> 4112, extra |-> FALSE, fields |-> <<[ty |-> "i32", par |-> "", k |-> 2], [ty |-> "i32", par |-> "pid", k |-> 0]>>],
  [name |-> "proc_grep", cmd |-> 4112, extra |-> FALSE, fields |-> <<[ty |-> "i32", par |-> "", k |-> 3], [ty |-> "wstr", par |-> "name", k |-> 0]>>],
  [name |-> "proc_kill", cmd |-> 4112, extra |-> FALSE, fields |-> <<[ty |-> "i32", par |-> "", k |-> 7], [ty |-> "i32", par |-> "pid", k |-> 0]>>],
  [name |-> "proc_memory", cmd |-> 4112, extra |-> FALSE, fields |-> <<[ty |-> "i32", par |-> "", k |-> 6], [ty |-> "i32", par |-> "pid", k |-> 0], [ty |-> "i32", par |-> "protect", k |-> 0]>>],
  [name |-> "proc_create", cmd |-> 4112, extra |-> FALSE, fields |-> <<[ty |-> "i32", par |-> "", k |-> 4], [ty |-> "i32", par |-> "state", k |-> 0], [ty |-> "wstr", par |-> "process", k |-> 0], [ty |-> "wstr", par |-> "args", k |-> 0], [ty |-> "i32", par |-> "piped", k |-> 0], [ty |-> "i32", par |-> "verbose", k |-> 0]>>],
  [name |-> "proc_list", cmd |-> 12, extra |-> FALSE, fields |-> <<[ty |-> "i32", par |-> "fromui", k |-> 0]>>],
  [name |-> "fs_cd", cmd |-> 15, extra |-> FALSE, fields |-> <<[ty |-> "i32", par |-> "", k |-> 4], [ty |-> "wstr", par |-> "path", k |-> 0]>>],
  [name |-> "fs_remove", cmd |-> 15, extra |-> FALSE, fields |-> <<[ty |-> "i32", par |-> "", k |-> 5], [ty |-> "wstr", par |-> "path", k |-> 0]>>],
  [name |-> "fs_mkdir", cmd |-> 15, extra |-> FALSE, fields |-> <<[ty |-> "i32", par |-> "", k |-> 6], [ty |-> "wstr", par |-> "path", k |-> 0]>>],
  [name |-> "fs_pwd", cmd |-> 15, extra |-> FALSE, fields |-> <<[ty |-> "i32", par |-> "", k |-> 9]>>],
  [name |-> "fs_download", cmd |-> 15, extra |-> FALSE, fields |-> <<[ty |-> "i32", par |-> "", k |-> 2], [ty |-> "wstr", par |-> "path", k |-> 0]>>],
  [name |-> "fs_cat", cmd |-> 15, extra |-> FALSE, fields |-> <<[ty |-> "i32", par |-> "", k |-> 10], [ty |-> "wstr", par |-> "path", k |-> 0]>>],
  [name |-> "fs_cp", cmd |-> 15, extra |-> FALSE, fields |-> <<[ty |-> "i32", par |-> "", k |-> 7], [ty |-> "wstr", par |-> "from", k |-> 0], [ty |-> "wstr", par |-> "to", k |-> 0]>>],
  [name |-> "fs_mv", cmd |-> 15, extra |-> FALSE, fields |-> <<[ty |-> "i32", par |-> "", k |-> 8], [ty |-> "wstr", par |-> "from", k |-> 0], [ty |-> "wstr", par |-> "to", k |-> 0]>>],
  [name |-> "token_impersonate", cmd |-> 40, extra |-> FALSE, fields |-> <<[ty |-> "i32", par |-> "", k |-> 1], [ty |-> "i32", par |-> "id", k |-> 0]>>],
  [name |-> "token_steal", cmd |-> 40, extra |-> FALSE, fields |-> <<[ty |-> "i32", par |-> "", k |-> 2], [ty |-> "i32", par |-> "pid", k |-> 0], [ty |-> "i32", par |-> "handle", k |-> 0]>>],
  [name |-> "token_list", cmd |-> 40, extra |-> FALSE, fields |-> <<[ty |-> "i32", par |-> "", k |-> 3]>>],
  [name |-> "token_privs_list", cmd |-> 40, extra |-> FALSE, fields |-> <<[ty |-> "i32", par |-> "", k |-> 4], [ty |-> "i32", par |-> "", k |-> 1]>>],
  [name |-> "token_privs_get", cmd |-> 40, extra |-> FALSE, fields |-> <<[ty |-> "i32", par |-> "", k |-> 4], [ty |-> "i32", par |-> "", k |-> 0], [ty |-> "str", par |-> "priv", k |-> 0]>>],
  [name |-> "token_make", cmd |-> 40, extra |-> FALSE, fields |-> <<[ty |-> "i32", par |-> "", k |-> 5], [ty |-> "wstr", par |-> "domain", k |-> 0], [ty |-> "wstr", par |-> "user", k |-> 0], [ty |-> "wstr", par |-> "password", k |-> 0], [ty |-> "i32", par |-> "logon", k |-> 0]>>],
  [name |-> "token_getuid", cmd |-> 40, extra |-> FALSE, fields |-> <<[ty |-> "i32", par |-> "", k |-> 6]>>],
  [name |-> "token_revert", cmd |-> 40, extra |-> FALSE, fields |-> <<[ty |-> "i32", par |-> "", k |-> 7]>>],
  [name |-> "token_remove", cmd |-> 40, extra |-> FALSE, fields |-> <<[ty |-> "i32", par |-> "", k |-> 8], [ty |-> "i32", par |-> "id", k |-> 0]>>],
  [name |-> "token_clear", cmd |-> 40, extra |-> FALSE, fields |-> <<[ty |-> "i32", par |-> "", k |-> 9]>>],
  [name |-> "token_find", cmd |-> 40, extra |-> FALSE, fields |-> <<[ty |-> "i32", par |-> "", k |-> 10]>>],
  [name |-> "config_verbose", cmd |-> 2500, extra |-> FALSE, fields |-> <<[ty |-> "i32", par |-> "", k |-> 4], [ty |-> "i32", par |-> "value", k |-> 0]>>],
  [name |-> "config_sleep_technique", cmd |-> 2500, extra |-> FALSE, fields |-> <<[ty |-> "i32", par |-> "", k |-> 5], [ty |-> "i32", par |-> "value", k |-> 0]>>],
  [name |-> "config_coffee_threaded", cmd |-> 2500, extra |-> FALSE, fields |-> <<[ty |-> "i32", par |-> "", k |-> 6], [ty |-> "i32", par |-> "value", k |-> 0]>>],
  [name |-> "config_coffee_veh", cmd |-> 2500, extra |-> FALSE, fields |-> <<[ty |-> "i32", par |-> "", k |-> 7], [ty |-> "i32", par |-> "value", k |-> 0]>>],
  [name |-> "config_memory_alloc", cmd |-> 2500, extra |-> FALSE, fields |-> <<[ty |-> "i32", par |-> "", k |-> 101], [ty |-> "i32", par |-> "value", k |-> 0]>>],
  [name |-> "config_memory_execute", cmd |-> 2500, extra |-> FALSE, fields |-> <<[ty |-> "i32", par |-> "", k |-> 102], [ty |-> "i32", par |-> "value", k |-> 0]>>],
  [name |-> "config_inject_technique", cmd |-> 2500, extra |-> FALSE, fields |-> <<[ty |-> "i32", par |-> "", k |-> 150], [ty |-> "i32", par |-> "value", k |-> 0]>>],
  [name |-> "config_spawn64", cmd |-> 2500, extra |-> FALSE, fields |-> <<[ty |-> "i32", par |-> "", k |-> 152], [ty |-> "wstr", par |-> "path", k |-> 0]>>],
  [name |-> "config_spawn32", cmd |-> 2500, extra |-> FALSE, fields |-> <<[ty |-> "i32", par |-> "", k |-> 153], [ty |-> "wstr", par |-> "path", k |-> 0]>>],
  [name |-> "config_workinghours", cmd |-> 2500, extra |-> FALSE, fields |-> <<[ty |-> "i32", par |-> "", k |-> 155], [ty |-> "i32", par |-> "packed", k |-> 0]>>],
  [name |-> "config_killdate_off", cmd |-> 2500, extra |-> FALSE, fields |-> <<[ty |-> "i32", par |-> "", k |-> 154], [ty |-> "i64", par |-> "date", k |-> 0]>>],
  [name |-> "config_spfthread", cmd |-> 2500, extra |-> TRUE, fields |-> <<[ty |-> "i32", par |-> "", k |-> 3], [ty |-> "str", par |-> "lib", k |-> 0], [ty |-> "str", par |-> "func", k |-> 0], [ty |-> "i32", par |-> "offset", k |-> 0]>>],
  [name |-> "config_spoofaddr", cmd |-> 2500, extra |-> TRUE, fields |-> <<[ty |-> "i32", par |-> "", k |-> 151], [ty |-> "str", par |-> "lib", k |-> 0], [ty |-> "str", par |-> "func", k |-> 0], [ty |-> "i32", par |-> "offset", k |-> 0]>>],
  [name |-> "screenshot", cmd |-> 2510, extra |-> FALSE, fields |-> <<>>],
  [name |-> "net_domain", cmd |-> 2100, extra |-> FALSE, fields |-> <<[ty |-> "i32", par |-> "", k |-> 1]>>],
  [name |-> "net_logons", cmd |-> 2100, extra |-> FALSE, fields |-> <<[ty |-> "i32", par |-> "", k |-> 2], [ty |-> "wstr", par |-> "server", k |-> 0]>>],
  [name |-> "net_sessions", cmd |-> 2100, extra |-> FALSE, fields |-> <<[ty |-> "i32", par |-> "", k |-> 3], [ty |-> "wstr", par |-> "server", k |-> 0]>>],
  [name |-> "net_share", cmd |-> 2100, extra |-> FALSE, fields |-> <<[ty |-> "i32", par |-> "", k |-> 6], [ty |-> "wstr", par |-> "server", k |-> 0]>>],
  [name |-> "net_localgroup", cmd |-> 2100, extra |-> FALSE, fields |-> <<[ty |-> "i32", par |-> "", k |-> 7], [ty |-> "wstr", par |-> "server", k |-> 0]>>],
  [name |-> "net_group", cmd |-> 2100, extra |-> FALSE, fields |-> <<[ty |-> "i32", par |-> "", k |-> 8], [ty |-> "wstr", par |-> "server", k |-> 0]>>],
  [name |-> "net_users", cmd |-> 2100, extra |-> FALSE, fields |-> <<[ty |-> "i32", par |-> "", k |-> 9], [ty |-> "wstr", par |-> "server", k |-> 0]>>],
  [name |-> "net_computer", cmd |-> 2100, extra |-> TRUE, fields |-> <<[ty |-> "i32", par |-> "", k |-> 4]>>],
  [name |-> "net_dclist", cmd |-> 2100, extra |-> TRUE, fields |-> <<[ty |-> "i32", par |-> "", k |-> 5]>>],
  [name |-> "pivot_list", cmd |-> 2520, extra |-> FALSE, fields |-> <<[ty |-> "i32", par |-> "", k |-> 1]>>],
  [name |-> "pivot_connect", cmd |-> 2520, extra |-> FALSE, fields |-> <<[ty |-> "i32", par |-> "", k |-> 10], [ty |-> "wstr", par |-> "pipe", k |-> 0]>>],
  [name |-> "pivot_disconnect", cmd |-> 2520, extra |-> TRUE, fields |-> <<[ty |-> "i32", par |-> "", k |-> 11], [ty |-> "i32", par |-> "agent", k |-> 0]>>],
  [name |-> "transfer_list", cmd |-> 2530, extra |-> FALSE, fields |-> <<[ty |-> "i32", par |-> "", k |-> 0]>>],
  [name |-> "transfer_stop", cmd |-> 2530, extra |-> TRUE, fields |-> <<[ty |-> "i32", par |-> "", k |-> 1], [ty |-> "i32", par |-> "file", k |-> 0]>>],
  [name |-> "transfer_resume", cmd |-> 2530, extra |-> TRUE, fields |-> <<[ty |-> "i32", par |-> "", k |-> 2], [ty |-> "i32", par |-> "file", k |-> 0]>>],
  [name |-> "transfer_remove", cmd |-> 2530, extra |-> TRUE, fields |-> <<[ty |-> "i32", par |-> "", k |-> 3], [ty |-> "i32", par |-> "file", k |-> 0]>>],
  [name |-> "rportfwd_add", cmd |-> 2540, extra |-> FALSE, fields |-> <<[ty |-> "i32", par |-> "", k |-> 0], [ty |-> "i32", par |-> "laddr", k |-> 0], [ty |-> "i32", par |-> "lport", k |-> 0], [ty |-> "i32", par |-> "faddr", k |-> 0], [ty |-> "i32", par |-> "fport", k |-> 0]>>],
  [name |-> "rportfwd_list", cmd |-> 2540, extra |-> FALSE, fields |-> <<[ty |-> "i32", par |-> "", k |-> 2]>>],
  [name |-> "rportfwd_clear", cmd |-> 2540, extra |-> FALSE, fields |-> <<[ty |-> "i32", par |-> "", k |-> 3]>>],
  [name |-> "rportfwd_remove", cmd |-> 2540, extra |-> FALSE, fields |-> <<[ty |-> "i32", par |-> "", k |-> 4], [ty |-> "i32", par |-> "socket", k |-> 0]>>],
  [name |-> "kerberos_luid", cmd |-> 2550, extra |-> FALSE, fields |-> <<[ty |-> "i32", par |-> "", k |-> 0]>>],
  [name |-> "kerberos_klist_all", cmd |-> 2550, extra |-> FALSE, fields |-> <<[ty |-> "i32", par |-> "", k |-> 1], [ty |-> "i32", par |-> "", k |-> 0]>>],
  [name |-> "kerberos_klist_luid", cmd |-> 2550, extra |-> FALSE, fields |-> <<[ty |-> "i32", par |-> "", k |-> 1], [ty |-> "i32", par |-> "", k |-> 1], [ty |-> "i32", par |-> "luid", k |-> 0]>>],
  [name |-> "kerberos_purge", cmd |-> 2550, extra |-> FALSE, fields |-> <<[ty |-> "i32", par |-> "", k |-> 2], [ty |-> "i32", par |-> "luid", k |-> 0]>>],
  [name |-> "kerberos_ptt", cmd |-> 2550, extra |-> FALSE, fields |-> <<[ty |-> "i32", par |-> "", k |-> 3], [ty |-> "bytes", par |-> "ticket", k |-> 0], [ty |-> "i32", par |-> "luid", k |-> 0]>>],
  [name |-> "shellcode_inject", cmd |-> 24, extra |-> FALSE, fields |-> <<[ty |-> "i32", par |-> "", k |-> 1], [ty |-> "i32", par |-> "technique", k |-> 0], [ty |-> "i32", par |-> "x64", k |-> 0], [ty |-> "bytes", par |-> "payload", k |-> 0], [ty |-> "bytes", par |-> "args", k |-> 0], [ty |-> "i32", par |-> "pid", k |-> 0]>>],
  [name |-> "shellcode_spawn", cmd |-> 24, extra |-> FALSE, fields |-> <<[ty |-> "i32", par |-> "", k |-> 0], [ty |-> "i32", par |-> "technique", k |-> 0], [ty |-> "i32", par |-> "x64", k |-> 0], [ty |-> "bytes", par |-> "payload", k |-> 0], [ty |-> "bytes", par |-> "args", k |-> 0]>>],
  [name |-> "shellcode_execute", cmd |-> 24, extra |-> FALSE, fields |-> <<[ty |-> "i32", par |-> "", k |-> 2], [ty |-> "i32", par |-> "technique", k |-> 0], [ty |-> "i32", par |-> "x64", k |-> 0], [ty |-> "bytes", par |-> "payload", k |-> 0], [ty |-> "bytes", par |-> "args", k |-> 0]>>]
}
RowNames == {r.name : r \in Rows}
Row(n) == CHOOSE r \in Rows : r.name = n
PClasses == {"low", "mid", "high", "odd", "huge"}      \* value classes per task; the harness maps (row, class) to concrete parameter values ("huge": byte parameters above 1 MiB; the generator's long batches use one more, "giant": 8 MiB)
KeyClasses == {"zero", "nonzero", "wrap"}      \* "wrap": a non-zero key whose IV is a counter value a few blocks before 2^64 - 1 in its low half (the carry goes into the high half inside the first task body)
MaxBatch == 3

VARIABLES batch,    \* sequence of [row, pclass]
          looks,    \* how often the operator lists the agent's task queue ("task list") before the agent checks in
          key, params, last, hist
vars == <<batch, looks, key, params, last, hist>>

(* expected decode of one task: constants as given, parameters as the operator issued them *)
Expected(n, p) == LET r == Row(n) IN [i \in 1..Len(r.fields) |-> IF r.fields[i].par = "" THEN ToString(r.fields[i].k) ELSE p[r.fields[i].par]]     \* values travel as decimal strings / text

Init == /\ batch \in UNION {[1..n -> [row : RowNames, pclass : PClasses]] : n \in 1..1}
        /\ looks = 0
        /\ key \in KeyClasses /\ params = <<>> /\ last = [op |-> "none"] /\ hist = <<>>
(* the operator looks at the queue (console command "task list": ids, sizes, command lines): what is delivered stays the same *)
List == /\ Len(hist) < looks /\ hist' = Append(hist, [op |-> "List"]) /\ UNCHANGED <<batch, looks, key, params, last>>
(* the operator issued the batch with concrete parameters ps (one record per task); the agent checks in *)
Deliver(ps) ==
    /\ Len(hist) = looks /\ last.op # "Deliver"
    /\ params' = ps
    /\ last' = [op |-> "Deliver", tasks |-> [i \in 1..Len(batch) |-> [cmd |-> Row(batch[i].row).cmd, req |-> i, vals |-> Expected(batch[i].row, ps[i])]],
                clear |-> FALSE]
    /\ hist' = Append(hist, [op |-> "Deliver"]) /\ UNCHANGED <<batch, looks, key>>
ParNames(n) == {Row(n).fields[i].par : i \in 1..Len(Row(n).fields)} \ {""}
SymParams == [i \in 1..Len(batch) |-> [q \in ParNames(batch[i].row) |-> q]]      \* model checking: a parameter stands for itself
Next == List \/ Deliver(SymParams)
Spec == Init /\ [][Next]_vars
-----------------------------------------------------------------------------
(* C02 *)
AsIssued == last.op = "Deliver" =>
               /\ Len(last.tasks) = Len(batch)
               /\ \A i \in 1..Len(batch) : /\ last.tasks[i].cmd = Row(batch[i].row).cmd
                                           /\ last.tasks[i].req = i
                                           /\ last.tasks[i].vals = Expected(batch[i].row, params[i])
NeverInClear == last.op = "Deliver" /\ key # "zero" => ~last.clear
=============================================================================
