------------------------------ MODULE Route ------------------------------
(***************************************************************************)
(* Routing of tasks down a chain of SMB pivots and of callbacks up again.  *)
(*   code: pkg/agent/agent.go PivotAddJob (layered wrapping), demons.go     *)
(*         COMMAND_PIVOT / DEMON_PIVOT_SMB_COMMAND (relay unwrapping)       *)
(*   Demon: TransportSmb.c (pipe frame), Command.c (CommandDispatcher)      *)
(* Frames are terms: Enc(k, x) can only be opened with key k; a pivot task  *)
(* names the next hop and carries an opaque pipe frame for it.              *)
(***************************************************************************)
EXTENDS Integers, Sequences, FiniteSets, TLC

Hops == <<"h1", "h2", "h3", "h4", "h5", "h6">>   \* hop symbols; h1 talks to the listener directly

CONSTANTS Classes,     \* id classes {"one","small","topbit","max"}
          MaxLen,      \* longest chain (first hop included)
          Defects      \* {} = the design; {"parse32"} = ids >= 2^31 are dropped while wrapping

VARIABLES chain,   \* the chain in use: sequence of hop symbols, chain[1] talks to the listener directly
          cls,     \* [hop -> class] id class of each hop
          last,    \* outcome of the last routing step
          hist

vars == <<chain, cls, last, hist>>

Enc(k, x) == [enc |-> k, x |-> x]
Task(to) == [kind |-> "task", to |-> to]                        \* the operator's task for agent `to`
PivotTask(next, frame) == [kind |-> "pivot", next |-> next, frame |-> frame]
Pipe(to, pkg) == [pipe |-> to, pkg |-> pkg]                     \* SMB pipe frame: child id + package

OneMax(f, n) == /\ Cardinality({i \in 1..n : f[Hops[i]] = "one"}) <= 1
                /\ Cardinality({i \in 1..n : f[Hops[i]] = "max"}) <= 1

Init == /\ \E n \in 2..MaxLen : chain = SubSeq(Hops, 1, n)
        /\ cls \in [{Hops[i] : i \in 1..Len(Hops)} -> Classes]
        /\ OneMax(cls, Len(Hops))
        /\ last = [op |-> "none"]
        /\ hist = <<>>

(* what PivotAddJob builds for the target chain[n]: the job queued for chain[1] *)
RECURSIVE WrapUp(_, _)
WrapUp(j, job) ==   \* job is the pivot task currently addressed to chain[j]'s parent ... climb to hop 1
    IF j = 1 THEN job
    ELSE WrapUp(j - 1, PivotTask(chain[j], Pipe(chain[j], Enc(chain[j], job))))

Wrapped == LET n == Len(chain) IN
           WrapUp(n - 1, PivotTask(chain[n], Pipe(chain[n], Enc(chain[n], Task(chain[n])))))

Dropped == "parse32" \in Defects /\ \E i \in 2..Len(chain) : cls[chain[i]] \in {"topbit", "max"}      \* ("r2" only ever stands first)

(* what the Demons do: every hop opens its layer with its own key *)
RECURSIVE Unwrap(_, _, _)
Unwrap(job, me, path) ==
    IF job.kind = "task" THEN [path |-> path, final |-> job, at |-> me]
    ELSE LET fr == job.frame IN
         IF fr.pipe # job.next \/ fr.pkg.enc # job.next THEN [path |-> path, final |-> [kind |-> "garbage", to |-> ""], at |-> me]
         ELSE Unwrap(fr.pkg.x, job.next, Append(path, job.next))

(* kind "cmd": an ordinary task; kind "file": a file push - the file's bytes as a chunk task and then the command that
   names the file, both addressed to the deepest agent, both wrapped and routed the same way, in that order *)
Kinds == {"cmd", "file"}
DownAs(op, owner, kind) ==
    /\ kind \in Kinds
    /\ last' = IF Dropped THEN [op |-> op, owner |-> owner, delivered |-> FALSE, path |-> <<>>, at |-> "", ok |-> FALSE]
               ELSE LET u == Unwrap(Wrapped, chain[1], <<>>) IN
                    [op |-> op, owner |-> owner, delivered |-> TRUE, path |-> u.path, at |-> u.at, ok |-> (u.final = Task(chain[Len(chain)]))]
    /\ hist' = Append(hist, [op |-> op, owner |-> owner, kind |-> kind])
    /\ UNCHANGED <<chain, cls>>
Down(kind) == DownAs("Down", "", kind)   \* operator task(s) for the deepest agent; first hop checks in
(* the same, and while the tasks wait at the first hop the operator empties the task queue of a hop in the middle (h's own tasks:
   what waits for agents behind h is not h's) *)
DownClear(h) == /\ \E i \in 2..(Len(chain) - 1) : chain[i] = h
                /\ DownAs("DownClear", h, "cmd")

(* a callback of the deepest agent relayed upward hop by hop; the request id is outstanding for `owner` *)
Up(owner) ==
    /\ last' = [op |-> "Up", owner |-> owner, delivered |-> TRUE, path |-> <<>>,
                at |-> IF owner = chain[Len(chain)] THEN owner ELSE "", ok |-> TRUE]
    /\ hist' = Append(hist, [op |-> "Up", owner |-> owner, kind |-> ""])
    /\ UNCHANGED <<chain, cls>>

(* the topology changes under the traffic: hop h (with everything behind it) reconnects through another agent that talks to
   the listener directly ("r2"); later its former parent reports the old link gone - which is no news.  Tasks and callbacks
   follow the chain as it is now *)
Idx(h) == CHOOSE i \in 1..Len(chain) : chain[i] = h
Rehang(h) == /\ "r2" \notin {chain[i] : i \in 1..Len(chain)} /\ \E i \in 2..Len(chain) : chain[i] = h
             /\ chain' = <<"r2">> \o SubSeq(chain, Idx(h), Len(chain))
             /\ last' = [op |-> "Rehang", owner |-> h, delivered |-> FALSE, path |-> <<>>, at |-> "", ok |-> TRUE]
             /\ hist' = Append(hist, [op |-> "Rehang", owner |-> h, kind |-> chain[Idx(h) - 1]])       \* kind: the former parent
             /\ UNCHANGED cls
LateDisconnect == /\ Len(hist) > 0 /\ hist[Len(hist)].op = "Rehang"
                  /\ last' = [op |-> "LateDisconnect", owner |-> hist[Len(hist)].owner, delivered |-> FALSE, path |-> <<>>, at |-> "", ok |-> TRUE]
                  /\ hist' = Append(hist, [op |-> "LateDisconnect", owner |-> hist[Len(hist)].owner, kind |-> hist[Len(hist)].kind])
                  /\ UNCHANGED <<chain, cls>>
(* sessions change and come back: hop h answers the operator's checkin request with new key material (from then on its layer is
   under the new key); the teamserver restarts (sessions, keys and the chain come back from the database).  Routing is as before *)
Quiet(op, owner) == /\ last' = [op |-> op, owner |-> owner, delivered |-> FALSE, path |-> <<>>, at |-> "", ok |-> TRUE]
                    /\ hist' = Append(hist, [op |-> op, owner |-> owner, kind |-> ""])
                    /\ UNCHANGED <<chain, cls>>
Rekey(h) == (\E i \in 1..Len(chain) : chain[i] = h) /\ Quiet("Rekey", h)
Restart == Quiet("Restart", "")
Next == /\ Len(hist) < 3
        /\ \/ \E k \in Kinds : Down(k)
           \/ \E o \in {chain[i] : i \in 1..Len(chain)} \cup {"nobody"} : Up(o)

Spec == Init /\ [][Next]_vars
-----------------------------------------------------------------------------
(* C08 *)
RoutedDown == last.op \in {"Down", "DownClear"} =>
                 /\ last.delivered
                 /\ last.path = Tail(chain)                 \* each hop finds the next hop's id
                 /\ last.at = chain[Len(chain)] /\ last.ok   \* the last frame is the original task under the target's key
RoutedUp == last.op = "Up" =>      \* attributed to, decrypted for and gated by the agent named in the inner header
               /\ last.at = (IF last.owner = chain[Len(chain)] THEN last.owner ELSE "")
               /\ last.ok
=============================================================================
