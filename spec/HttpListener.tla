--------------------------- MODULE HttpListener ---------------------------
(***************************************************************************)
(* Admission of HTTP requests by a listener profile.                       *)
(*   code: pkg/handlers/http.go request / fake404 / Start                  *)
(* A cell is a listener configuration (features) and a request (features); *)
(* Serve computes what must happen.  Values behind the feature names are   *)
(* fixed by the harness (drive/http.go).                                   *)
(***************************************************************************)
EXTENDS Integers, Sequences, FiniteSets, TLC

UriCfgs  == {"none", "empty1", "one", "two"}          \* no URIs, [""], ["/a"], ["/a", "/b?x=1"]
RespCfgs == {"none", "plain", "colon", "nospace"}     \* response header: none, "X-Resp: r1", "Location: http://h:80/p", "X-Frame-Options:DENY" + "X-Tab:<tab>v"
Methods  == {"POST", "GET", "PUT"}
Paths    == {"/a", "/b?x=1", "/b", "/zzz", "/a?q=1"}
PlainReq == {"ok", "wrong", "absent", "lowername"}    \* request header X-Plain: right value / other value / missing / name in lower case
MultiReq == {"full", "prefix", "absent"}              \* X-Multi configured as "a: b": full value / only "a" / missing
UaReq    == {"match", "mismatch", "absent"}
Peers    == {"v4", "v6"}

Cfgs == [uris : UriCfgs, hPlain : BOOLEAN, hIgnored : BOOLEAN, hMulti : BOOLEAN, hNoSep : BOOLEAN, ua : BOOLEAN, redir : BOOLEAN, resp : RespCfgs]
Reqs == [method : Methods, path : Paths, plain : PlainReq, multi : MultiReq, connOther : BOOLEAN, ua : UaReq, peer : Peers, xff : BOOLEAN]

VARIABLES cfg, req, last, hist
vars == <<cfg, req, last, hist>>

UriOk(c, r) == CASE c.uris \in {"none", "empty1"} -> TRUE
                 [] c.uris = "one" -> r.path = "/a"
                 [] c.uris = "two" -> r.path \in {"/a", "/b?x=1"}
HeadersOk(c, r) == /\ (c.hPlain => r.plain \in {"ok", "lowername"})       \* header names are case-insensitive
                   /\ (c.hMulti => r.multi = "full")                        \* the whole configured value, not a prefix of it
                   \* hIgnored (Connection / Accept-Encoding) and hNoSep (no ": " in the entry) never matter
UaOk(c, r) == c.ua => r.ua = "match"
Admit(c, r) == r.method = "POST" /\ UriOk(c, r) /\ HeadersOk(c, r) /\ UaOk(c, r)

ExtIP(c, r) == IF c.redir THEN (IF r.xff THEN "xff" ELSE "empty") ELSE r.peer

Init == cfg \in Cfgs /\ req \in Reqs /\ last = [op |-> "none"] /\ hist = <<>>

Serve == /\ hist = <<>>
         /\ last' = IF Admit(cfg, req)
                    THEN [op |-> "Serve", admitted |-> TRUE, status |-> 200, changed |-> TRUE, resp |-> cfg.resp, ip |-> ExtIP(cfg, req)]
                    ELSE [op |-> "Serve", admitted |-> FALSE, status |-> 404, changed |-> FALSE, resp |-> "n/a", ip |-> "n/a"]
         /\ hist' = <<[op |-> "Serve"]>>
         /\ UNCHANGED <<cfg, req>>
Spec == Init /\ [][Serve]_vars
-----------------------------------------------------------------------------
(* C12 *)
OnlyIfMatches == last.op = "Serve" /\ last.admitted => Admit(cfg, req)
RejectedIsDecoy == last.op = "Serve" /\ ~last.admitted => last.status = 404 /\ ~last.changed
AnswersCarryHeaders == last.op = "Serve" /\ last.admitted => last.resp = cfg.resp
AddressAttribution == last.op = "Serve" /\ last.admitted => last.ip = ExtIP(cfg, req)
=============================================================================
