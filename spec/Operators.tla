---------------------------- MODULE Operators ----------------------------
(***************************************************************************)
(* Operator connections, the retained event list and event fan-out.        *)
(*   code: cmd/server/teamserver.go handleRequest / ClientAuthenticate /   *)
(*         EventAppend / EventBroadcast / SendEvent / RemoveClient /       *)
(*         SendAllPackagesToNewClient, cmd/server/listener.go              *)
(*         ListenerRemove (pruning), cmd/server/dispatch.go (chat,         *)
(*         listener add/remove from operators), agent.go AgentSendNotify   *)
(* recv[c] is everything socket c has received so far, as labels.          *)
(***************************************************************************)
EXTENDS Integers, Sequences, FiniteSets, TLC, SequencesExt

CONSTANTS Clients, Agents, Lst, MaxOps

BadKinds == {"wrongDigest", "unknownUser", "notJSON", "noPassword", "passwordNotString", "noInfo", "wrongEvent", "wrongSubEvent", "clearPassword",
             "impersonate"}     \* names an operator who is logged in on another socket, with a wrong digest
Kinds == {"good", "extraFields"} \cup BadKinds      \* extra fields do not matter

VARIABLES phase,    \* [Clients -> {"absent","conn","authed","closed","gone"}]
          recv,     \* [Clients -> Seq(STRING)]
          events,   \* retained events, in recording order
          live,     \* live sessions in registration order
          lsn,      \* listeners
          n,        \* event counter
          last, hist
vars == <<phase, recv, events, live, lsn, n, last, hist>>
view == <<phase, recv, events, live, lsn, n, last>>

Authed == {c \in Clients : phase[c] = "authed"}
Lab(p, x) == p \o x
Num(i) == ToString(i)

Init == /\ phase = [c \in Clients |-> "absent"] /\ recv = [c \in Clients |-> <<>>]
        /\ events = <<"lsnadd:ext">> /\ live = <<>> /\ lsn = {} /\ n = 1     \* one listener comes from the profile
        /\ last = [op |-> "none", done |-> TRUE] /\ hist = <<>>
Log(op, c, x) == hist' = Append(hist, [op |-> op, c |-> c, x |-> x, y |-> ""])
Log4(op, c, x, y) == hist' = Append(hist, [op |-> op, c |-> c, x |-> x, y |-> y])
Done(op) == last' = [op |-> op, done |-> TRUE]

(* every authenticated client except those in `skip` gets the frames fr appended *)
Fan(fr, skip) == [c \in Clients |-> IF c \in Authed \ skip THEN recv[c] \o fr ELSE recv[c]]

Connect(c) ==
    /\ phase[c] = "absent"
    /\ phase' = [phase EXCEPT ![c] = "conn"]
    /\ UNCHANGED <<recv, events, live, lsn, n>> /\ Done("Connect") /\ Log("Connect", c, "")

SessLabels == [i \in 1..Len(live) |-> Lab("sess:", live[i])]

Auth(c, kind) ==   \* first message on the socket
    /\ phase[c] = "conn"
    /\ IF kind \in {"good", "extraFields"}
       THEN LET ev == Append(events, Lab("user:", c)) IN
            /\ events' = ev
            /\ recv' = [d \in Clients |-> IF d = c THEN recv[c] \o <<"authok">> \o ev \o SessLabels
                                         ELSE IF d \in Authed THEN Append(recv[d], Lab("user:", c)) ELSE recv[d]]
            /\ phase' = [phase EXCEPT ![c] = "authed"]
       ELSE /\ recv' = [recv EXCEPT ![c] = Append(@, "autherr")]
            /\ phase' = [phase EXCEPT ![c] = "closed"]
            /\ UNCHANGED events
    /\ UNCHANGED <<live, lsn, n>> /\ Done("Auth") /\ Log("Auth", c, kind)

(* a correct first message whose replay is overtaken by a chat line recorded while the replay is under way
   (after its first frame): the newcomer still gets every retained event and the new line exactly once *)
AuthRace(c) ==
    /\ phase[c] = "conn"
    /\ LET ev == Append(events, Lab("user:", c))
           line == Lab("chat", Num(n)) IN
       /\ events' = Append(ev, line)
       /\ recv' = [d \in Clients |-> IF d = c THEN recv[c] \o <<"authok", ev[1], line>> \o SubSeq(ev, 2, Len(ev)) \o SessLabels
                                    ELSE IF d \in Authed THEN recv[d] \o <<Lab("user:", c), line>> ELSE recv[d]]
    /\ phase' = [phase EXCEPT ![c] = "authed"]
    /\ n' = n + 1
    /\ UNCHANGED <<live, lsn>> /\ Done("AuthRace") /\ Log4("AuthRace", c, "", Num(n))

(* a correct first message whose replay is overtaken by another operator removing the server's first listener
   ("ext", whose add event is the first retained event and has just been replayed): the newcomer still gets
   every other retained event exactly once and in order, and the removal notice once *)
ExtAdd == "lsnadd:ext"
AuthRaceRm(c, d) ==
    /\ phase[c] = "conn" /\ phase[d] = "authed" /\ c # d
    /\ Len(events) >= 1 /\ events[1] = ExtAdd
    /\ LET ev == Append(events, Lab("user:", c)) IN
       /\ events' = SelectSeq(ev, LAMBDA e : e # ExtAdd) \o <<"rmreq:ext", "lsnrm:ext">>
       /\ recv' = [x \in Clients |-> IF x = c THEN recv[c] \o <<"authok", ev[1], "lsnrm:ext">> \o SubSeq(ev, 2, Len(ev)) \o SessLabels
                                    ELSE IF x \in Authed THEN recv[x] \o <<Lab("user:", c), "lsnrm:ext">> ELSE recv[x]]
    /\ phase' = [phase EXCEPT ![c] = "authed"]
    /\ UNCHANGED <<live, lsn, n>> /\ Done("AuthRaceRm") /\ Log("AuthRaceRm", c, d)

FollowUp(c) ==     \* anything sent after a refused handshake: no effect at all
    /\ phase[c] = "closed"
    /\ UNCHANGED <<phase, recv, events, live, lsn, n>> /\ Done("FollowUp") /\ Log("FollowUp", c, "")

Chat(c) ==         \* an operator's chat line: retained, shown to everybody including the sender
    /\ phase[c] = "authed"
    /\ events' = Append(events, Lab("chat", Num(n)))
    /\ recv' = Fan(<<Lab("chat", Num(n))>>, {})
    /\ n' = n + 1
    /\ UNCHANGED <<phase, live, lsn>> /\ Done("Chat") /\ Log("Chat", c, Num(n))

Beacon(a) ==       \* agent output while log forwarding is on: a call-home tick (one-shot) and a console line (retained)
    /\ \E i \in 1..Len(live) : live[i] = a
    /\ events' = Append(events, Lab("out", Num(n)))
    /\ recv' = Fan(<<Lab("tick:", a), Lab("out", Num(n))>>, {})
    /\ n' = n + 1
    /\ UNCHANGED <<phase, live, lsn>> /\ Done("Beacon") /\ Log("Beacon", a, Num(n))

Register(a) ==     \* new session: announced once, never retained; shown to later operators as a live session
    /\ \A i \in 1..Len(live) : live[i] # a
    /\ live' = Append(live, a)
    /\ recv' = Fan(<<Lab("sess:", a)>>, {})
    /\ UNCHANGED <<phase, events, lsn, n>> /\ Done("Register") /\ Log("Register", a, "")

AddLsn(l) ==       \* listener started by the server itself (profile)
    /\ l \notin lsn /\ lsn' = lsn \cup {l}
    /\ events' = Append(events, Lab("lsnadd:", l))
    /\ recv' = Fan(<<Lab("lsnadd:", l)>>, {})
    /\ UNCHANGED <<phase, live, n>> /\ Done("AddLsn") /\ Log("AddLsn", l, "")

AddLsnOp(c, l) ==  \* listener added by an operator: the request is retained too
    /\ phase[c] = "authed" /\ l \notin lsn /\ lsn' = lsn \cup {l}
    /\ events' = events \o <<Lab("addreq:", l), Lab("lsnadd:", l)>>
    /\ recv' = Fan(<<Lab("lsnadd:", l)>>, {})
    /\ UNCHANGED <<phase, live, n>> /\ Done("AddLsnOp") /\ Log("AddLsnOp", c, l)

Pruned(l) == SelectSeq(events, LAMBDA e : e # Lab("lsnadd:", l) /\ e # Lab("addreq:", l))

RmLsn(c, l) ==     \* operator removes a listener: its Add records leave the retained list
    /\ phase[c] = "authed" /\ l \in lsn /\ lsn' = lsn \ {l}
    /\ events' = Pruned(l) \o <<Lab("rmreq:", l), Lab("lsnrm:", l)>>
    /\ recv' = Fan(<<Lab("lsnrm:", l)>>, {})
    /\ UNCHANGED <<phase, live, n>> /\ Done("RmLsn") /\ Log("RmLsn", c, l)

Close(c) ==        \* an authenticated operator goes away
    /\ phase[c] = "authed"
    /\ phase' = [phase EXCEPT ![c] = "gone"]
    /\ events' = Append(events, Lab("bye:", c))
    /\ recv' = Fan(<<Lab("bye:", c)>>, {c})
    /\ UNCHANGED <<live, lsn, n>> /\ Done("Close") /\ Log("Close", c, "")

(* c's transport is cut and, before the server has noticed, d writes a chat line: both the chat line
   and the disconnect notice reach every remaining operator.  Their relative order is a race between
   two goroutines; the harness records the pair in the canonical order <<bye, chat>>. *)
CutChat(c, d) ==
    /\ phase[c] = "authed" /\ phase[d] = "authed" /\ c # d
    /\ phase' = [phase EXCEPT ![c] = "gone"]
    /\ recv' = Fan(<<Lab("bye:", c), Lab("chat", Num(n))>>, {c})
    /\ events' = events \o <<Lab("bye:", c), Lab("chat", Num(n))>>
    /\ n' = n + 1
    /\ UNCHANGED <<live, lsn>> /\ Done("CutChat") /\ Log4("CutChat", c, d, Num(n))

(* many strangers at the same moment: connections that are not among Clients present first messages that are refused, all
   at once; each gets its error and nothing else, nothing changes for anybody, the teamserver keeps running *)
Strangers == /\ UNCHANGED <<phase, recv, events, live, lsn, n>> /\ Done("Strangers") /\ Log("Strangers", "", "")
Next == /\ Len(hist) < MaxOps
        /\ \/ \E c \in Clients : Connect(c) \/ FollowUp(c) \/ Chat(c) \/ Close(c) \/ AuthRace(c)
           \/ Strangers
           \/ \E c \in Clients, k \in Kinds : Auth(c, k)
           \/ \E a \in Agents : Beacon(a) \/ Register(a)
           \/ \E l \in Lst : AddLsn(l)
           \/ \E c \in Clients, l \in Lst : AddLsnOp(c, l) \/ RmLsn(c, l)
           \/ \E c, d \in Clients : CutChat(c, d) \/ AuthRaceRm(c, d)
Spec == Init /\ [][Next]_vars
-----------------------------------------------------------------------------
(* C06: nothing for a connection that has not authenticated *)
NothingBeforeAuth == \A c \in Clients : phase[c] \in {"absent", "conn", "closed"} => recv[c] \in {<<>>, <<"autherr">>}
ErrorOnlyAfterRefusal == \A c \in Clients : phase[c] \in {"absent", "conn"} => recv[c] = <<>>
(* C11 *)
Completes == last.done
NoRemovedListenerRetained == \A l \in Lst : l \notin lsn => \A i \in 1..Len(events) : events[i] # Lab("lsnadd:", l) /\ events[i] # Lab("addreq:", l)
NoOneShotRetained == \A i \in 1..Len(events) : \A a \in Agents : events[i] # Lab("sess:", a) /\ events[i] # Lab("tick:", a)
(* every frame an operator has seen after its own authok is either replay or a broadcast: stated in the trace monitor *)
=============================================================================
