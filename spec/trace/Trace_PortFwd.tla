--------------------------- MODULE Trace_PortFwd ---------------------------
(* binds what the reference Demon (agent side) and a real TCP target saw of a reverse port forward to PortFwd.tla *)
EXTENDS PortFwd, Json, IOUtils, SequencesExt
TraceLog == ndJsonDeserialize(IOEnv.VERIF_TRACE)
Strict == IOEnv.VERIF_STRICT = "1"
VARIABLES l, obs, gated      \* gated: the run held the reader goroutine at its hook point, so observations are exact in every state
tvars == <<vars, l, obs, gated>>
E == TraceLog[l]
Obs0 == [dn |-> [s \in Socks |-> [ok |-> TRUE, h |-> 0, q |-> 0]], table |-> <<>>, tgot |-> [s \in Socks |-> <<>>], tside |-> [s \in Socks |-> "none"], q |-> <<>>,
         agot |-> [s \in Socks |-> <<>>], atold |-> <<>>, locked |-> FALSE, done |-> TRUE]
TraceInit == Init /\ l = 1 /\ obs = Obs0 /\ gated = FALSE
IsEvent(e) == l <= Len(TraceLog) /\ E.ev = e /\ l' = l + 1
Reset == /\ IsEvent("Reset") /\ obs' = Obs0 /\ gated' = E.gated
         /\ rd' = [s \in Socks |-> "none"] /\ held' = [s \in Socks |-> <<>>]
         /\ ent' = [s \in Socks |-> "none"] /\ tside' = [s \in Socks |-> "none"]
         /\ sent' = [s \in Socks |-> <<>>] /\ tgot' = [s \in Socks |-> <<>>]
         /\ wrote' = [s \in Socks |-> <<>>] /\ pend' = [s \in Socks |-> <<>>] /\ eofp' = [s \in Socks |-> FALSE]
         /\ q' = <<>> /\ agot' = [s \in Socks |-> <<>>] /\ atold' = {} /\ byagent' = {}
         /\ last' = [op |-> "none"] /\ hist' = <<>>
Act == \/ (IsEvent("Open") /\ Open(E.s))
       \/ (IsEvent("Data") /\ Data(E.s, E.c))
       \/ (IsEvent("TargetWrite") /\ TargetWrite(E.s, E.c))
       \/ (IsEvent("TargetClose") /\ TargetClose(E.s))
       \/ (IsEvent("Reader") /\ Reader(E.s))
       \/ (IsEvent("Remove") /\ Remove(E.s))
       \/ (IsEvent("CheckIn") /\ CheckIn)
Seen == obs' = E.st /\ UNCHANGED gated
ListedOf(t) == {t[i].s : i \in 1..Len(t)}
(* the recorder shows write tasks of one socket that follow each other as one entry (the relay's buffer cuts large reads) *)
RECURSIVE Merge(_)
Merge(ts) == IF Len(ts) < 2 THEN ts
             ELSE LET a == ts[1] b == ts[2] IN
                  IF a.k = "w" /\ b.k = "w" /\ a.s = b.s THEN Merge(<<[k |-> "w", s |-> a.s, d |-> a.d \o b.d]>> \o SubSeq(ts, 3, Len(ts)))
                  ELSE <<a>> \o Merge(Tail(ts))
ChunkSize == [a |-> 10, B |-> 70000, x |-> 12, Y |-> 50000]
RECURSIVE Bytes(_)
Bytes(cs) == IF cs = <<>> THEN 0 ELSE ChunkSize[Head(cs)] + Bytes(Tail(cs))
(* the down direction as a stream: the relay's reads do not stop where the target's writes did, so what has been passed on
   (handed to the agent + queued for it) is a prefix of what the target wrote, byte for byte, at least as long as what the
   reader's turns so far must have passed on and complete once nothing is in flight *)
DownOK(o, s, exact) == /\ o.dn[s].ok
                       /\ o.dn[s].h + o.dn[s].q <= Bytes(wrote[s])
                       /\ ((exact /\ s \notin byagent) =>
                              (/\ o.dn[s].h + o.dn[s].q >= Bytes(agot[s] \o QW(q, s))
                               /\ o.dn[s].h >= Bytes(agot[s])
                               /\ ((held[s] = <<>> /\ pend[s] = <<>>) => (o.dn[s].h + o.dn[s].q = Bytes(wrote[s])))))
(* strict: beyond the property, the table, the target's view and the close tasks are what the model says *)
Bound == /\ tgot' = E.st.tgot
         /\ (gated \/ \A s \in Socks : ~ReaderEnabled(s)') =>
               /\ atold' = ToSet(E.st.atold)
               /\ ListedOf(E.st.table) = {s \in Socks : ent'[s] \in {"listed", "open"}}
               /\ \A s \in Socks : tside'[s] = "eof" <=> E.st.tside[s] = "eof"
         /\ E.st.done /\ ~E.st.locked
TraceNext == Reset \/ (Act /\ Seen /\ (Strict => Bound))
TraceSpec == TraceInit /\ [][TraceNext]_tvars
TraceAccepted == TLCGet("stats").diameter - 1 = Len(TraceLog)
-----------------------------------------------------------------------------
Quiet == gated \/ \A s \in Socks : ~ReaderEnabled(s)     \* when are the observations exact
ObsListed == ListedOf(obs.table)
ObsTold(s) == s \in ToSet(obs.atold) \/ \E i \in 1..Len(obs.q) : obs.q[i].k = "c" /\ obs.q[i].s = s
(* what the agent sent is what the target received, in order, nothing else *)
MonUpIntact == \A s \in Socks : obs.tgot[s] = sent[s]
(* what the target wrote is what the agent is handed (same socket id), in order, once the relay has had its turn -
   while the connection is still open, not only at its end *)
MonDownIntact == \A s \in Socks : DownOK(obs, s, Quiet)
(* closing either side removes the socket everywhere *)
MonClosedEverywhere == Quiet => \A s \in Socks :
    /\ (tside[s] = "closed" /\ rd[s] = "exit" /\ s \notin byagent) => (s \notin ObsListed /\ ObsTold(s))
    /\ (s \in byagent) => (s \notin ObsListed /\ obs.tside[s] # "open")
(* the forward table: one entry per live socket, no leftovers, no duplicates, no stuck mutex *)
MonTableConsistent == /\ Len(obs.table) = Cardinality(ObsListed)
                      /\ Quiet => ObsListed = {s \in Socks : ent[s] \in {"listed", "open"}}
                      /\ obs.done /\ ~obs.locked
=============================================================================
