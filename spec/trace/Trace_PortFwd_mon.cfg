SPECIFICATION TraceSpec
CONSTANTS
  Socks = {"s1", "s2", "s3"}
  UpChunks = {"a", "B"}
  DownChunks = {"x", "Y"}
  MaxOps = 100000
INVARIANTS MonUpIntact MonDownIntact MonClosedEverywhere MonTableConsistent
POSTCONDITION TraceAccepted
CHECK_DEADLOCK FALSE
