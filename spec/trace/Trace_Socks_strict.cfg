SPECIFICATION TraceSpec
INVARIANTS MonSpeaksTheProtocol MonAgentSideIntact MonClosedEverywhere ClosedMeansGone NoTaskWithoutRequest
POSTCONDITION TraceAccepted
CHECK_DEADLOCK FALSE
