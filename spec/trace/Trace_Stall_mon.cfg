SPECIFICATION TraceSpec
CONSTANTS Clients = {"c1", "c2", "c3"}
 MaxOps = 99
INVARIANTS MonNobodyBlocked MonAgentsServed
POSTCONDITION TraceAccepted
CHECK_DEADLOCK FALSE
