SPECIFICATION TraceSpec
CONSTANTS
  Agents = {"a1", "a2"}
  Fids = {1, 2}
  Names <- NameSet
  Chunks = {"c1", "c2"}
  MaxOps = 1000000
INVARIANTS MonOwnFolderOnly MonNothingElsewhere MonContent
POSTCONDITION TraceAccepted
CHECK_DEADLOCK FALSE
