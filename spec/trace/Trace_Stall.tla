----------------------------- MODULE Trace_Stall -----------------------------
(* judges what the operators that still read received, and whether agent requests were served, against Stall.tla *)
EXTENDS Stall, Json, IOUtils, SequencesExt
TraceLog == ndJsonDeserialize(IOEnv.VERIF_TRACE)
Strict == IOEnv.VERIF_STRICT = "1"
VARIABLES l, obs
tvars == <<vars, l, obs>>
E == TraceLog[l]
NoObs == [got |-> [c \in Clients |-> <<>>], live |-> <<>>, agent_ok |-> TRUE, sent |-> 0]
TraceInit == l = 1 /\ Init /\ obs = NoObs
IsEvent(e) == l <= Len(TraceLog) /\ E.ev = e /\ l' = l + 1
Reset == IsEvent("Reset") /\ stalled' = {} /\ sent' = <<>> /\ got' = [c \in Clients |-> <<>>] /\ agentOK' = TRUE /\ hist' = <<>> /\ obs' = NoObs
Act(o) == CASE o.op = "Stall" -> Stall(o.c) [] o.op = "Chat" -> Chat(o.c, o.big) [] o.op = "AgentRequest" -> AgentRequest
(* strict: the model's view of who got what is what the operators that still read report *)
SStep == IsEvent("Step") /\ Act(E.o) /\ obs' = E.obs /\ \A c \in ToSet(E.obs.live) : got'[c] = E.obs.got[c]
MStep == IsEvent("Step") /\ obs' = E.obs /\ UNCHANGED vars
TraceNext == Reset \/ (Strict /\ SStep) \/ (~Strict /\ MStep)
TraceSpec == TraceInit /\ [][TraceNext]_tvars
MonNobodyBlocked == \A c \in ToSet(obs.live) : obs.got[c] = [i \in 1..obs.sent |-> i]
MonAgentsServed == obs.agent_ok
TraceAccepted == TLCGet("stats").diameter - 1 = Len(TraceLog)
=============================================================================
