--------------------------- MODULE Trace_Registry ---------------------------
(* binds the real listener/service registries to Registry.tla *)
EXTENDS Registry, Json, IOUtils, SequencesExt

TraceLog == ndJsonDeserialize(IOEnv.VERIF_TRACE)
Strict == IOEnv.VERIF_STRICT = "1"
VARIABLES l, obs
tvars == <<vars, l, obs>>
E == TraceLog[l]
NoObs == [run |-> [n \in Names |-> None], dupl |-> FALSE, db |-> {}, adv |-> {}, port |-> {}, agents |-> {}, lsts |-> {}, eps |-> {}, exc2 |-> {},
          nconn |-> 0, ok |-> TRUE, done |-> TRUE, cfgsame |-> TRUE]
TraceInit == Init /\ l = 1 /\ obs = NoObs
IsEvent(e) == l <= Len(TraceLog) /\ E.ev = e /\ l' = l + 1
Reset == /\ IsEvent("Reset")
         /\ run' = [n \in Names |-> None] /\ dupl' = FALSE /\ db' = {} /\ adv' = {} /\ port' = {}
         /\ ver' = [n \in Names |-> 0] /\ conn' = {}
         /\ sAgent' = [x \in Items |-> None] /\ sLst' = [x \in Items |-> None] /\ sExc2' = [x \in Items |-> None]
         /\ last' = [op |-> "none", ok |-> TRUE, done |-> TRUE] /\ hist' = <<>> /\ obs' = NoObs

Seen == obs' = [run |-> [n \in Names |-> E.st.run[n]], dupl |-> E.st.dupl, db |-> ToSet(E.st.db), adv |-> ToSet(E.st.adv), port |-> ToSet(E.st.port),
                agents |-> ToSet(E.st.agents), lsts |-> ToSet(E.st.lsts), eps |-> ToSet(E.st.eps), exc2 |-> ToSet(E.st.exc2),
                nconn |-> E.st.nconn, ok |-> E.res.ok, done |-> E.res.done, cfgsame |-> E.res.cfgsame]
What(b) == IF b \in {"agent:" \o x : x \in Items} THEN "agent" ELSE IF b \in {"listener:" \o x : x \in Items} THEN "listener" ELSE "exc2"
Item(b) == CHOOSE x \in Items : b \in {"agent:" \o x, "listener:" \o x, "exc2:" \o x}

Act == \/ IsEvent("Add") /\ Add(E.a, E.b)
       \/ IsEvent("AddSvcType") /\ AddSvcType(E.a, E.b)
       \/ IsEvent("Remove") /\ Rm(E.a)
       \/ IsEvent("Edit") /\ Edit(E.a)
       \/ IsEvent("Serve") /\ \E v \in 0..1 : ToString(v) = E.b /\ Serve(E.a, v)
       \/ IsEvent("SvcConnect") /\ SvcConnect(E.a, E.b = "good")
       \/ IsEvent("SvcReg") /\ SvcReg(E.a, What(E.b), Item(E.b))
       \/ IsEvent("SvcDisconnect") /\ SvcDisconnect(E.a)
       \/ IsEvent("SvcLeaveTogether") /\ SvcLeaveTogether
       \/ IsEvent("Restart") /\ Restart(E.b = "busy")

Owned(f) == {x \in Items : f[x] # None}
Bound == /\ obs'.run = run' /\ obs'.dupl = dupl' /\ obs'.db = db' /\ obs'.adv = adv' /\ obs'.port = port'
         /\ obs'.agents = Owned(sAgent') /\ obs'.lsts = Owned(sLst') /\ obs'.exc2 = Owned(sExc2')
         /\ obs'.nconn = Cardinality(conn') /\ obs'.ok = last'.ok /\ obs'.done

TraceNext == Reset \/ (Act /\ Seen /\ (Strict => Bound))
TraceSpec == TraceInit /\ [][TraceNext]_tvars
TraceAccepted == TLCGet("stats").diameter - 1 = Len(TraceLog)

(* ---- C16 on what was observed ---- *)
MonUniqueNames == ~obs.dupl
MonThreeViews == LET B == {n \in Names : obs.run[n] \in Builtin} IN B = obs.db /\ B = obs.adv
MonRemovedStopsAccepting == obs.port \subseteq {n \in Names : obs.run[n] = "http"}
MonEditApplies == last.op = "Serve" => obs.ok = last.ok
(* the endpoint of an External listener: its own, or - added as "extsame" - the other name's *)
Other(n) == CHOOSE m \in Names : m # n
EpOf(n) == IF \E i \in 1..Len(hist) : hist[i].op = "Add" /\ hist[i].a = n /\ hist[i].b = "extsame" THEN Other(n) \o "-ep" ELSE n \o "-ep"
MonOwnerScopedCleanup ==   \* registered = registered by connections that are still there (the model tracks owners from the calls)
    /\ obs.agents = Owned(sAgent) /\ obs.lsts = Owned(sLst) /\ obs.exc2 = Owned(sExc2)
    /\ obs.eps = {x \o "-ep" : x \in Owned(sExc2)} \cup {EpOf(n) : n \in {m \in Names : obs.run[m] = "ext"}}
MonKeepsRunning == obs.done
(* C10 / C16: a restart loses no listener - not even one that could not bind while the teamserver started - and nothing of its
   configuration *)
MonListenersSurvive == last.op = "Restart" => obs.cfgsame /\ obs.db = db /\ {n \in Names : obs.run[n] \in Builtin} = {n \in Names : run[n] \in Builtin}
(* ---- the service half of C06: nothing is dispatched for a connection that did not present the password ---- *)
MonSvcAuth == obs.nconn = Cardinality(conn)
=============================================================================
