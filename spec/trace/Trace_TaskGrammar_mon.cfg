SPECIFICATION TraceSpec
INVARIANTS AsIssued NeverInClear
POSTCONDITION TraceAccepted
CHECK_DEADLOCK FALSE
