---------------------------- MODULE Trace_Gate ----------------------------
(* binds recorded executions of the real callback gate to Gate.tla; see Trace_JobQueue for the scheme *)
EXTENDS Gate, Json, IOUtils, SequencesExt

TraceLog == ndJsonDeserialize(IOEnv.VERIF_TRACE)
Strict == IOEnv.VERIF_STRICT = "1"
VARIABLES l
tvars == <<vars, l>>
E == TraceLog[l]

TraceInit == Init /\ l = 1
IsEvent(e) == l <= Len(TraceLog) /\ E.ev = e /\ l' = l + 1

Reset == /\ IsEvent("Reset")
         /\ tasks' = [a \in Agents |-> {}] /\ used' = {} /\ open' = [a \in Agents |-> 0]
         /\ last' = None /\ hist' = <<>>

LoggedTasks == [a \in Agents |-> ToSet(E.st.tasks[a])]

SIssue == IsEvent("Issue") /\ Issue(E.a, E.r) /\ tasks' = LoggedTasks
SCallback == /\ IsEvent("Callback") /\ Callback(E.a, E.r, E.c)
             /\ tasks' = LoggedTasks /\ \A a \in Agents : (open'[a] > 0) = E.st.open[a]
             /\ last'.effect = E.res.effect

(* monitor: outstanding ids are rebuilt from the calls alone; `open` and the effect come from the log *)
MIssue == /\ IsEvent("Issue")
          /\ tasks' = [tasks EXCEPT ![E.a] = @ \cup {E.r}] /\ used' = used \cup {E.r}
          /\ last' = [None EXCEPT !.op = "Issue", !.a = E.a, !.r = E.r]
          /\ UNCHANGED <<open, hist>>
MCallback == LET acc == Accepted(E.a, E.r, E.c) IN
          /\ IsEvent("Callback")
          /\ tasks' = IF acc /\ E.c \in Final THEN [tasks EXCEPT ![E.a] = @ \ {E.r}] ELSE tasks
          /\ open' = E.st.open
          /\ last' = [op |-> "Callback", a |-> E.a, r |-> E.r, c |-> E.c, accepted |-> acc, effect |-> E.res.effect]
          /\ UNCHANGED <<used, hist>>

SHandOut == IsEvent("HandOut") /\ HandOut(E.a) /\ tasks' = LoggedTasks
MHandOut == IsEvent("HandOut") /\ last' = [None EXCEPT !.op = "HandOut", !.a = E.a] /\ UNCHANGED <<tasks, used, open, hist>>
SRelayJob == IsEvent("RelayJob") /\ RelayJob(E.a) /\ tasks' = LoggedTasks
MRelayJob == IsEvent("RelayJob") /\ last' = [None EXCEPT !.op = "RelayJob", !.a = E.a] /\ UNCHANGED <<tasks, used, open, hist>>
TraceNext == \/ Reset
             \/ (Strict /\ SRelayJob) \/ (~Strict /\ MRelayJob)
             \/ (Strict /\ SHandOut) \/ (~Strict /\ MHandOut)
             \/ (Strict /\ (SIssue \/ SCallback))
             \/ (~Strict /\ (MIssue \/ MCallback))
TraceSpec == TraceInit /\ [][TraceNext]_tvars
TraceAccepted == TLCGet("stats").diameter - 1 = Len(TraceLog)
=============================================================================
