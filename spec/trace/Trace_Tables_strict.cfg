SPECIFICATION TraceSpec
CONSTANTS Ids = {1, 2}
 MaxDl = 2
 MaxPf = 2
 MaxOps = 1000
INVARIANTS MonAnswered MonClean
POSTCONDITION TraceAccepted
CHECK_DEADLOCK FALSE
