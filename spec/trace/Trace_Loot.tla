---------------------------- MODULE Trace_Loot ----------------------------
(* binds listings of the real loot tree (taken after every step) to Loot.tla *)
EXTENDS Loot_MC, Json, IOUtils

TraceLog == ndJsonDeserialize(IOEnv.VERIF_TRACE)
Strict == IOEnv.VERIF_STRICT = "1"
VARIABLES l,
          lfs,   \* the file system as listed (path -> chunk symbols)
          oth    \* anything found outside the places loot may go
tvars == <<vars, l, lfs, oth>>
E == TraceLog[l]
TraceInit == Init /\ l = 1 /\ lfs = <<>> /\ oth = <<>>
IsEvent(e) == l <= Len(TraceLog) /\ E.ev = e /\ l' = l + 1
Reset == IsEvent("Reset") /\ fs' = <<>> /\ open' = [a \in Agents |-> [f \in Fids |-> <<>>]] /\ last' = [op |-> "none", ok |-> TRUE] /\ hist' = <<>>
         /\ lfs' = <<>> /\ oth' = <<>>

LogFs == LET S == ToSet(E.st.fs) IN [p \in {x.path : x \in S} |-> (CHOOSE x \in S : x.path = p).content]
Seen == lfs' = LogFs /\ oth' = E.st.other

Act == \/ IsEvent("Open") /\ Open(E.a, E.f, E.n, E.c)
       \/ IsEvent("Write") /\ Write(E.a, E.f, E.c)
       \/ IsEvent("Close") /\ Close(E.a, E.f)
       \/ IsEvent("ServiceFile") /\ ServiceFile(E.a, E.n, E.c)
       \/ IsEvent("CraftedFile") /\ CraftedFile(E.a, E.c)
       \/ IsEvent("Restart") /\ Restart
(* strict: the listing is exactly what the model predicts; monitor: the model runs alongside as the reference *)
TraceNext == Reset \/ (Act /\ Seen /\ (Strict => fs' = LogFs /\ E.st.other = <<>>))
TraceSpec == TraceInit /\ [][TraceNext]_tvars
TraceAccepted == TLCGet("stats").diameter - 1 = Len(TraceLog)

MonOwnFolderOnly == \A p \in DOMAIN lfs : \E a \in Agents : IsPrefix(Base(a), p) /\ Len(p) > 3
MonNothingElsewhere == oth = <<>>
MonContent == \A p \in (DOMAIN lfs) \cap (DOMAIN fs) : lfs[p] = fs[p]
=============================================================================
