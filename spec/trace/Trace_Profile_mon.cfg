SPECIFICATION TraceSpec
INVARIANTS MonNoCrash MonAcceptsValid MonRejectsInvalid MonNamesProblem
POSTCONDITION TraceAccepted
CHECK_DEADLOCK FALSE
