------------------------ MODULE Trace_JobQueue ------------------------
(***************************************************************************)
(* Binds executions of the real teamserver (recorded by the harness as     *)
(* ndjson, one event per public call, many behaviours separated by Reset)  *)
(* to JobQueue.tla.                                                        *)
(*  VERIF_STRICT=1 : every event must be the corresponding JobQueue action *)
(*                   AND reproduce the logged queue / reply  (conformance) *)
(*  VERIF_STRICT=0 : monitor - variables follow the log, the history       *)
(*                   variables are rebuilt from the calls and replies      *)
(*                   alone, and only the property (C04) is evaluated.      *)
(***************************************************************************)
EXTENDS JobQueue, Json, IOUtils

TraceLog == ndJsonDeserialize(IOEnv.VERIF_TRACE)
Strict == IOEnv.VERIF_STRICT = "1"

VARIABLES l,     \* next event
          obs    \* harness-observed byte-level facts of the last step

tvars == <<vars, l, obs>>

E == TraceLog[l]
NoObs == [file_ok |-> TRUE, unknown |-> 0, dup |-> 0]

TraceInit == Init /\ l = 1 /\ obs = NoObs

IsEvent(e) == l <= Len(TraceLog) /\ E.ev = e /\ l' = l + 1

Reset == /\ IsEvent("Reset")
         /\ queue' = [a \in Agents |-> <<>>] /\ enq' = [a \in Agents |-> <<>>]
         /\ delivered' = [a \in Agents |-> <<>>] /\ nextId' = 1 /\ nextFile' = 1
         /\ reply' = NoReply /\ hist' = <<>> /\ obs' = NoObs

ObsOf(e) == [file_ok |-> e.res.file_ok, unknown |-> e.res.unknown, dup |-> e.res.dup]

(* ---- strict: the model explains the step and predicts the logged state ---- *)
SEnqOp   == IsEvent("EnqOp")   /\ EnqOp(E.a)          /\ queue' = E.st.queue /\ obs' = ObsOf(E)
SEnqRaw  == IsEvent("EnqRaw")  /\ EnqRaw(E.a, E.arg)  /\ queue' = E.st.queue /\ obs' = ObsOf(E)
SUpload  == IsEvent("Upload")  /\ Upload(E.a, E.arg)  /\ queue' = E.st.queue /\ obs' = ObsOf(E)
SClear   == IsEvent("Clear")   /\ Clear(E.a)          /\ queue' = E.st.queue /\ obs' = ObsOf(E)
SCheckIn == /\ IsEvent("CheckIn") /\ CheckIn(E.a, E.arg = 1)
            /\ queue' = E.st.queue
            /\ reply'.kind = E.res.kind /\ reply'.batch = E.res.batch
            /\ obs' = ObsOf(E)

(* ---- monitor: follow the log; history from calls and replies only ---- *)
NonChunk(s) == SelectSeq(s, LAMBDA j : j.kind # "chunk")
Owed(a) == Len(enq[a]) - Len(Flat(delivered[a]))
MonStep ==
    /\ l <= Len(TraceLog) /\ E.ev # "Reset" /\ l' = l + 1
    /\ queue' = E.st.queue
    /\ enq' = [enq EXCEPT ![E.a] = IF E.ev = "Clear" THEN Flat(delivered[E.a]) ELSE @ \o E.res.new]
    /\ delivered' = IF E.res.kind = "jobs"
                    THEN [delivered EXCEPT ![E.a] = Append(@, Ids(NonChunk(E.res.batch)))]
                    ELSE delivered
    /\ reply' = [kind |-> E.res.kind, a |-> E.a, asks |-> (E.arg = 1), qlen |-> Owed(E.a), batch |-> E.res.batch]
    /\ obs' = ObsOf(E)
    /\ UNCHANGED <<nextId, nextFile, hist>>

TraceNext == \/ Reset
             \/ (Strict /\ (SEnqOp \/ SEnqRaw \/ SUpload \/ SClear \/ SCheckIn))
             \/ (~Strict /\ MonStep)

TraceSpec == TraceInit /\ [][TraceNext]_tvars

TraceAccepted == TLCGet("stats").diameter - 1 = Len(TraceLog)

(* ---- the property on observed behaviour (monitor invariants) ---- *)
MonExactlyOnceInOrder == \A a \in Agents : IsPrefix(Flat(delivered[a]), enq[a])
MonNoJobOnlyIfEmpty == reply.kind = "nojob" /\ reply.asks => reply.qlen = 0
MonBounded == Bounded
MonNonEmpty == reply.kind = "jobs" => Len(reply.batch) >= 1
MonObserved == obs.file_ok /\ obs.unknown = 0 /\ obs.dup = 0
=============================================================================
