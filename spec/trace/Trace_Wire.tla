---------------------------- MODULE Trace_Wire ----------------------------
(* binds results of the real parser (pkg/common/parser) to Wire.tla *)
EXTENDS Wire, Json, IOUtils

TraceLog == ndJsonDeserialize(IOEnv.VERIF_TRACE)
Strict == IOEnv.VERIF_STRICT = "1"
VARIABLES l
tvars == <<vars, l>>
E == TraceLog[l]
TraceInit == /\ l = 1 /\ fields = <<[t |-> "i32", n |-> 0]>> /\ residue = 0 /\ cut = 0 /\ last = [op |-> "none"] /\ hist = <<>>
IsEvent(e) == l <= Len(TraceLog) /\ E.ev = e /\ l' = l + 1
Reset == IsEvent("Reset") /\ fields' = E.fields /\ residue' = E.residue /\ cut' = E.cut /\ last' = [op |-> "none"] /\ hist' = <<>>
Logged == [op |-> E.ev, can |-> E.res.can, left |-> E.res.left, ok |-> E.res.ok]
SProbe == IsEvent("Probe") /\ Probe /\ last' = Logged
SRead  == IsEvent("Read") /\ Read /\ last' = Logged
MonStep == l <= Len(TraceLog) /\ E.ev # "Reset" /\ l' = l + 1 /\ last' = Logged /\ UNCHANGED <<fields, residue, cut, hist>>
TraceNext == Reset \/ (Strict /\ (SProbe \/ SRead)) \/ (~Strict /\ MonStep)
TraceSpec == TraceInit /\ [][TraceNext]_tvars
TraceAccepted == TLCGet("stats").diameter - 1 = Len(TraceLog)
=============================================================================
