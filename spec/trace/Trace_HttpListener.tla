------------------------ MODULE Trace_HttpListener ------------------------
(* binds what the real gin engine of an HTTP listener did with a request to HttpListener.tla *)
EXTENDS HttpListener, Json, IOUtils
TraceLog == ndJsonDeserialize(IOEnv.VERIF_TRACE)
Strict == IOEnv.VERIF_STRICT = "1"
VARIABLES l
tvars == <<vars, l>>
E == TraceLog[l]
AnyCfg == CHOOSE c \in Cfgs : TRUE
AnyReq == CHOOSE r \in Reqs : TRUE
TraceInit == l = 1 /\ cfg = AnyCfg /\ req = AnyReq /\ last = [op |-> "none"] /\ hist = <<>>
IsEvent(e) == l <= Len(TraceLog) /\ E.ev = e /\ l' = l + 1
Reset == IsEvent("Reset") /\ cfg' = E.cfg /\ req' = E.req /\ last' = [op |-> "none"] /\ hist' = <<>>
Logged == [op |-> "Serve", admitted |-> E.res.admitted, status |-> E.res.status, changed |-> E.res.changed, resp |-> E.res.resp, ip |-> E.res.ip]
SServe == IsEvent("Serve") /\ Serve /\ last' = Logged
MServe == IsEvent("Serve") /\ last' = Logged /\ hist' = <<[op |-> "Serve"]>> /\ UNCHANGED <<cfg, req>>
TraceNext == Reset \/ (Strict /\ SServe) \/ (~Strict /\ MServe)
TraceSpec == TraceInit /\ [][TraceNext]_tvars
TraceAccepted == TLCGet("stats").diameter - 1 = Len(TraceLog)
=============================================================================
