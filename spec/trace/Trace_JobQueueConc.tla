------------------------- MODULE Trace_JobQueueConc -------------------------
(* judges one recorded run of concurrent producers against the agent's check-ins: what was handed out, in order *)
EXTENDS JobQueueConc, Json, IOUtils
TraceLog == ndJsonDeserialize(IOEnv.VERIF_TRACE)
VARIABLES l, cur
tvars == <<vars, l, cur>>
E == TraceLog[l]
TraceInit == l = 1 /\ cur = [ev |-> "Reset"] /\ Init
Step == l <= Len(TraceLog) /\ l' = l + 1 /\ cur' = E /\ UNCHANGED vars
TraceSpec == TraceInit /\ [][Step]_tvars
AddedOf(r) == (1..r.producers) \X (1..r.per)
MonNoCrash == cur.ev = "Run" => ~cur.crashed /\ cur.undecodable = 0
MonExactlyOnce == (cur.ev = "Run" /\ ~cur.crashed) => RunExactlyOnce(AddedOf(cur), cur.got)
MonPerProducerOrder == (cur.ev = "Run" /\ ~cur.crashed) => RunOrderedFast(cur.got)
TraceAccepted == TLCGet("stats").diameter - 1 = Len(TraceLog)
=============================================================================
