SPECIFICATION TraceSpec
INVARIANTS TerminatesCleanly ReplyOrDecoy RejectedTouchesNothing
POSTCONDITION TraceAccepted
CHECK_DEADLOCK FALSE
