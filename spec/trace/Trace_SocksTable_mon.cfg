SPECIFICATION TraceSpec
CONSTANTS
  Ports = {"p1", "p2", "p3"}
  MaxOps = 100000
INVARIANTS MonNoDuplicates MonListedIsLive MonTableMatchesCommands MonCompletes
POSTCONDITION TraceAccepted
CHECK_DEADLOCK FALSE
