SPECIFICATION TraceSpec
INVARIANTS OnlyIfMatches RejectedIsDecoy AnswersCarryHeaders AddressAttribution
POSTCONDITION TraceAccepted
CHECK_DEADLOCK FALSE
