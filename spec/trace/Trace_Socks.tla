---------------------------- MODULE Trace_Socks ----------------------------
(* binds what a real SOCKS client and the reference Demon saw of the agent's proxy to Socks.tla *)
EXTENDS Socks, Json, IOUtils
TraceLog == ndJsonDeserialize(IOEnv.VERIF_TRACE)
Strict == IOEnv.VERIF_STRICT = "1"
VARIABLES l, obs
tvars == <<vars, l, obs>>
E == TraceLog[l]
AnySc == CHOOSE s \in Scen : TRUE
TraceInit == l = 1 /\ sc = AnySc /\ phase = "start" /\ toClient = <<>> /\ toAgent = <<>> /\ table = FALSE /\ last = [op |-> "none"] /\ hist = <<>> /\ obs = [toClient |-> <<>>, toAgent |-> <<>>, table |-> FALSE]
IsEvent(e) == l <= Len(TraceLog) /\ E.ev = e /\ l' = l + 1
Reset == IsEvent("Reset") /\ sc' = E.sc /\ phase' = "start" /\ toClient' = <<>> /\ toAgent' = <<>> /\ table' = FALSE /\ last' = [op |-> "none"] /\ hist' = <<>> /\ obs' = [toClient |-> <<>>, toAgent |-> <<>>, table |-> FALSE]
Act == \/ IsEvent("Handshake") /\ Handshake
       \/ IsEvent("AgentAnswer") /\ AgentAnswer
       \/ IsEvent("Relay") /\ Relay
       \/ IsEvent("ClientCloses") /\ ClientCloses
       \/ IsEvent("AgentCloses") /\ AgentCloses
       \/ IsEvent("OperatorKills") /\ OperatorKills
       \/ IsEvent("Wait") /\ Wait
(* the property is the protocol itself: what both sides saw must be what the RFC-derived model says *)
Bound == toClient' = E.res.toClient /\ toAgent' = E.res.toAgent /\ table' = E.res.table
Seen == obs' = [toClient |-> E.res.toClient, toAgent |-> E.res.toAgent, table |-> E.res.table]
TraceNext == Reset \/ (Act /\ Seen /\ (Strict => Bound))
TraceSpec == TraceInit /\ [][TraceNext]_tvars
TraceAccepted == TLCGet("stats").diameter - 1 = Len(TraceLog)
MonSpeaksTheProtocol == obs.toClient = toClient       \* replies to the client: method selection, rejection/connect replies, relayed bytes, EOF
MonAgentSideIntact == obs.toAgent = toAgent           \* connect task with the exact address, write tasks carrying exactly the client's bytes, close
MonClosedEverywhere == obs.table = table
=============================================================================
