SPECIFICATION TraceSpec
INVARIANTS MonSpeaksTheProtocol MonAgentSideIntact MonClosedEverywhere
POSTCONDITION TraceAccepted
CHECK_DEADLOCK FALSE
