SPECIFICATION TraceSpec
INVARIANTS PassedAsData NothingElseRuns
POSTCONDITION TraceAccepted
CHECK_DEADLOCK FALSE
