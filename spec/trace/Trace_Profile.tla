---------------------------- MODULE Trace_Profile ----------------------------
(* binds the real profile loader to Profile.tla: the document is read by the specification item by item
   (strict: also at the line the harness actually wrote it), and what the loader returned for the rendered
   file is judged against the specification's cfg / faults *)
EXTENDS Profile, Json, IOUtils
TraceLog == ndJsonDeserialize(IOEnv.VERIF_TRACE)
Strict == IOEnv.VERIF_STRICT = "1"
VARIABLES l, obs, loaded
tvars == <<vars, l, obs, loaded>>
E == TraceLog[l]
NoObs == [panic |-> FALSE, err |-> FALSE, cfg |-> NoEmpty, diags |-> <<>>]
TraceInit == l = 1 /\ Init /\ obs = NoObs /\ loaded = FALSE
IsEvent(e) == l <= Len(TraceLog) /\ E.ev = e /\ l' = l + 1
Reset == IsEvent("Reset") /\ stack' = <<Frame("ROOT", "", 0, FALSE)>> /\ cfg' = NoEmpty /\ assigned' = {} /\ opened' = {}
         /\ faults' = {} /\ line' = 1 /\ done' = FALSE /\ hist' = <<>> /\ obs' = NoObs /\ loaded' = FALSE
Apply(ev) == CASE ev.e = "open" -> Open(ev.t, ev.labels, ev.lay)
               [] ev.e = "empty" -> Empty(ev.t, ev.labels, ev.lay)
               [] ev.e = "attr" -> Attr(ev.name, ev.sv, ev.lay)
               [] ev.e = "trivia" -> Trivia(ev.k)
               [] ev.e = "close" -> Close
               [] ev.e = "end" -> End
Item == IsEvent("Item") /\ (Strict => E.o.line = line) /\ Apply(E.o) /\ UNCHANGED <<obs, loaded>>
Load == IsEvent("Load") /\ done /\ obs' = E.obs /\ loaded' = TRUE /\ UNCHANGED vars
TraceNext == Reset \/ Item \/ Load
TraceSpec == TraceInit /\ [][TraceNext]_tvars
MonNoCrash == loaded => ~obs.panic
MonAcceptsValid == (loaded /\ ~obs.panic) => AcceptsValid(obs)
MonRejectsInvalid == (loaded /\ ~obs.panic) => RejectsInvalid(obs)
MonNamesProblem == (loaded /\ ~obs.panic) => NamesProblem(obs)
TraceAccepted == TLCGet("stats").diameter - 1 = Len(TraceLog)
=============================================================================
