------------------------ MODULE Trace_ConfigLayout ------------------------
(* binds the real PatchConfig output, read back the way the Demon reads it, to ConfigLayout.tla *)
EXTENDS ConfigLayout, Json, IOUtils
TraceLog == ndJsonDeserialize(IOEnv.VERIF_TRACE)
Strict == IOEnv.VERIF_STRICT = "1"
VARIABLES l
tvars == <<vars, l>>
E == TraceLog[l]
TraceInit == l = 1 /\ opt = FixedOpt /\ lst = FixedLst /\ last = [op |-> "none"] /\ hist = <<>>
IsEvent(e) == l <= Len(TraceLog) /\ E.ev = e /\ l' = l + 1
Reset == IsEvent("Reset") /\ opt' = E.opt /\ lst' = E.lst /\ last' = [op |-> "none"] /\ hist' = <<>>
Logged == [op |-> "Patch", built |-> E.res.built, o |-> E.res.o, l |-> E.res.l]
SPatch == IsEvent("Patch") /\ Patch /\ last' = Logged
MPatch == IsEvent("Patch") /\ last' = Logged /\ hist' = <<[op |-> "Patch"]>> /\ UNCHANGED <<opt, lst>>
LoggedA == [op |-> "Again", built |-> E.res.built, o |-> E.res.o, l |-> E.res.l]
SAgain == IsEvent("Again") /\ Again /\ last' = LoggedA
MAgain == IsEvent("Again") /\ last' = LoggedA /\ hist' = Append(hist, [op |-> "Again"]) /\ UNCHANGED <<opt, lst>>
LoggedB == [op |-> "Built", built |-> E.res.built, o |-> E.res.o, l |-> E.res.l]
SBuilt == IsEvent("Built") /\ Built(E.fmt) /\ last' = LoggedB
MBuilt == IsEvent("Built") /\ last' = LoggedB /\ hist' = Append(hist, [op |-> "Built", fmt |-> E.fmt]) /\ UNCHANGED <<opt, lst>>
TraceNext == Reset \/ (Strict /\ (SPatch \/ SAgain \/ SBuilt)) \/ (~Strict /\ (MPatch \/ MAgain \/ MBuilt))
TraceSpec == TraceInit /\ [][TraceNext]_tvars
TraceAccepted == TLCGet("stats").diameter - 1 = Len(TraceLog)
=============================================================================
