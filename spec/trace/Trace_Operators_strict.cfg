SPECIFICATION TraceSpec
CONSTANTS
  Clients = {"c1", "c2", "c3"}
  Agents = {"a1", "a2"}
  Lst = {"l1"}
  MaxOps = 1000000
INVARIANTS MonNothingBeforeAuth MonOperatorsSeeTheStream MonNobodyBlocked MonRefusalIsInert
POSTCONDITION TraceAccepted
CHECK_DEADLOCK FALSE
