SPECIFICATION TraceSpec
CONSTANTS
  Agents = {"a1", "a2"}
  Ids = {0, 1, 2, 3}
  SendLogs = TRUE
  MaxOps = 1000000
INVARIANTS OnlyOutstandingHaveEffect AcceptedOnlyIf FinalRetires TasksIssued NoSharing
POSTCONDITION TraceAccepted
CHECK_DEADLOCK FALSE
