--------------------------- MODULE Trace_Persist ---------------------------
(* binds kill-point snapshots of the real SQLite file (reopened with the real reader calls) to Persist.tla *)
EXTENDS Persist, Json, IOUtils, SequencesExt

TraceLog == ndJsonDeserialize(IOEnv.VERIF_TRACE)
Strict == IOEnv.VERIF_STRICT = "1"
VARIABLES l
tvars == <<vars, l>>
E == TraceLog[l]
TraceInit == Init /\ l = 1
IsEvent(e) == l <= Len(TraceLog) /\ E.ev = e /\ l' = l + 1

Reset == /\ IsEvent("Reset")
         /\ live' = [a \in Agents |-> "none"] /\ meta' = [a \in Agents |-> None] /\ par' = [a \in Agents |-> None]
         /\ lsn' = {} /\ acked' = {} /\ dbA' = [a \in Agents |-> [st |-> "none", meta |-> None]] /\ dbL' = {} /\ dbS' = {}
         /\ pend' = <<>> /\ infl' = {} /\ toAck' = {} /\ hist' = <<>>

(* the logged database, in the model's vocabulary *)
Rows == ToSet(E.st.rows)
Rest == ToSet(E.st.R)
MetaOf(a) == IF \E r \in Rest : r.id = a THEN (CHOOSE r \in Rest : r.id = a).meta ELSE None
(* "active" = what the real AgentAll() hands to the restore loop; a row that exists but is not restored counts as dead *)
LogDbA == [a \in Agents |->
            IF \E r \in Rest : r.id = a THEN [st |-> "active", meta |-> MetaOf(a)]
            ELSE IF \E r \in Rows : r.id = a THEN [st |-> "dead", meta |-> None]
            ELSE [st |-> "none", meta |-> None]]
LogDbL == {<<x[1], x[2]>> : x \in ToSet(E.st.links)}
LogDbS == ToSet(E.st.lsn)
(* the pairs the restore loop would see through ParentOf / LinksOf of the restored sessions *)
Views == ToSet(E.st.views)
ViewL == {<<v[1], v[2]>> : v \in Views}
RestIds == {r.id : r \in Rest}
ViewsOK == Views = {<<x[1], x[2], "parentof">> : x \in {y \in LogDbL : y[2] \in RestIds}}
                   \cup {<<x[1], x[2], "linksof">> : x \in {y \in LogDbL : y[1] \in RestIds}}
SameDb == /\ \A a \in Agents : dbA'[a].st = LogDbA[a].st /\ (dbA'[a].st = "active" => dbA'[a].meta = LogDbA[a].meta)
          /\ dbL' = LogDbL /\ dbS' = LogDbS
Clean == /\ \A r \in Rows : r.id \in Agents    \* no row under an id nobody registered
         /\ \A r \in Rest : r.id \in Agents
         /\ \A r \in Rows : r.active <=> (\E x \in Rest : x.id = r.id)   \* the reader returns exactly the rows flagged active
         /\ ViewsOK

BeginOp ==
    /\ IsEvent("Begin")
    /\ \/ E.op = "Register" /\ Register(E.a, E.m)
       \/ E.op = "Update" /\ Update(E.a, E.m)
       \/ E.op = "ConnectNew" /\ ConnectNew(E.a, E.b, E.m)
       \/ E.op = "Reparent" /\ Reparent(E.a, E.b)
       \/ E.op = "Disconnect" /\ Disconnect(E.a, E.b)
       \/ E.op = "Died" /\ Died(E.a)
       \/ E.op = "AddListener" /\ AddListener(E.a)
       \/ E.op = "RemoveListener" /\ RemoveListener(E.a)

(* strict: a logged statement is either the next modelled statement or one that rewrites a row unchanged *)
SStmt == IsEvent("Stmt") /\ Clean /\ ((Step /\ SameDb) \/ (UNCHANGED vars /\ SameDb))
SEnd  == IsEvent("End") /\ pend = <<>> /\ Clean /\ UNCHANGED vars /\ SameDb

(* monitor: the database is what was logged; the running server's view comes from the calls *)
MStmt == /\ IsEvent("Stmt")
         /\ dbA' = LogDbA /\ dbL' = ViewL /\ dbS' = LogDbS
         /\ UNCHANGED <<live, meta, par, lsn, acked, pend, infl, toAck, hist>>
MEnd == /\ IsEvent("End")
        /\ dbA' = LogDbA /\ dbL' = ViewL /\ dbS' = LogDbS
        /\ pend' = <<>> /\ acked' = acked \cup toAck /\ infl' = {} /\ toAck' = {}
        /\ UNCHANGED <<live, meta, par, lsn, hist>>

TraceNext == Reset \/ BeginOp \/ (Strict /\ (SStmt \/ SEnd)) \/ (~Strict /\ (MStmt \/ MEnd))
TraceSpec == TraceInit /\ [][TraceNext]_tvars
TraceAccepted == TLCGet("stats").diameter - 1 = Len(TraceLog)
=============================================================================
