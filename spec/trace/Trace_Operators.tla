-------------------------- MODULE Trace_Operators --------------------------
(* binds what real websocket clients received (and the server's retained list) to Operators.tla *)
EXTENDS Operators, Json, IOUtils

TraceLog == ndJsonDeserialize(IOEnv.VERIF_TRACE)
Strict == IOEnv.VERIF_STRICT = "1"
VARIABLES l,
          seen,    \* what each socket actually received (labels)
          srv      \* server-side observations: locked send mutexes
tvars == <<vars, l, seen, srv>>
E == TraceLog[l]
TraceInit == Init /\ l = 1 /\ seen = [c \in Clients |-> <<>>] /\ srv = [locked |-> <<>>, done |-> TRUE]
IsEvent(e) == l <= Len(TraceLog) /\ E.ev = e /\ l' = l + 1
Reset == /\ IsEvent("Reset")
         /\ phase' = [c \in Clients |-> "absent"] /\ recv' = [c \in Clients |-> <<>>]
         /\ events' = <<"lsnadd:ext">> /\ live' = <<>> /\ lsn' = {} /\ n' = 1
         /\ last' = [op |-> "none", done |-> TRUE] /\ hist' = <<>>
         /\ seen' = [c \in Clients |-> <<>>] /\ srv' = [locked |-> <<>>, done |-> TRUE]

Known(s) == SelectSeq(s, LAMBDA x : x # "?")      \* frames of kinds the model does not describe are ignored for operators
Logged == [c \in Clients |-> E.st.recv[c]]

Act == \/ IsEvent("Connect") /\ Connect(E.c)
       \/ IsEvent("Auth") /\ Auth(E.c, E.x)
       \/ IsEvent("FollowUp") /\ FollowUp(E.c)
       \/ IsEvent("AuthRace") /\ AuthRace(E.c)
       \/ IsEvent("AuthRaceRm") /\ AuthRaceRm(E.c, E.x)
       \/ IsEvent("Chat") /\ Chat(E.c)
       \/ IsEvent("Strangers") /\ Strangers
       \/ IsEvent("Beacon") /\ Beacon(E.c)
       \/ IsEvent("Register") /\ Register(E.c)
       \/ IsEvent("AddLsn") /\ AddLsn(E.c)
       \/ IsEvent("AddLsnOp") /\ AddLsnOp(E.c, E.x)
       \/ IsEvent("RmLsn") /\ RmLsn(E.c, E.x)
       \/ IsEvent("Close") /\ Close(E.c)
       \/ IsEvent("CutChat") /\ CutChat(E.c, E.x)

Observe == seen' = Logged /\ srv' = [locked |-> E.st.locked, done |-> E.res.done]
(* strict: sockets and the retained list are exactly the model's *)
Bound == /\ \A c \in Clients : recv'[c] = E.st.recv[c]
         /\ events' = E.st.events /\ E.st.locked = <<>> /\ E.res.done

TraceNext == Reset \/ (Act /\ Observe /\ (Strict => Bound))
TraceSpec == TraceInit /\ [][TraceNext]_tvars
TraceAccepted == TLCGet("stats").diameter - 1 = Len(TraceLog)

(* ---- monitor: the model runs alongside as the reference for what each operator must have seen ---- *)
MonNothingBeforeAuth ==   \* C06
    \A c \in Clients : phase[c] \in {"absent", "conn", "closed"} => seen[c] \in {<<>>, <<"autherr">>}
MonOperatorsSeeTheStream ==   \* C11: replay on authentication and every broadcast, in order, one frame each
    \A c \in Clients : phase[c] = "authed" => Known(seen[c]) = recv[c]
MonNobodyBlocked == srv.done /\ srv.locked = <<>>
(* C06: a refused first message (and anything after it) triggers nothing: the other operators' streams are exactly what they were *)
MonRefusalIsInert ==
    last.op \in {"Auth", "FollowUp"} =>
        \A c \in Clients : phase[c] = "authed" => Known(seen[c]) = recv[c]
=============================================================================
