--------------------------- MODULE Trace_ShellSafe ---------------------------
EXTENDS ShellSafe, Json, IOUtils
TraceLog == ndJsonDeserialize(IOEnv.VERIF_TRACE)
Strict == IOEnv.VERIF_STRICT = "1"
VARIABLES l
tvars == <<vars, l>>
E == TraceLog[l]
TraceInit == l = 1 /\ cls = "plain" /\ last = [op |-> "none"]
IsEvent(e) == l <= Len(TraceLog) /\ E.ev = e /\ l' = l + 1
Reset == IsEvent("Reset") /\ cls' = E.cls /\ last' = [op |-> "none"]
Logged == [op |-> "Build", ok |-> E.res.ok, verbatim |-> E.res.verbatim, executed |-> E.res.executed]
SBuild == IsEvent("Build") /\ Build /\ last' = Logged
MBuild == IsEvent("Build") /\ last' = Logged /\ UNCHANGED cls
TraceNext == Reset \/ (Strict /\ SBuild) \/ (~Strict /\ MBuild)
TraceSpec == TraceInit /\ [][TraceNext]_tvars
TraceAccepted == TLCGet("stats").diameter - 1 = Len(TraceLog)
=============================================================================
