SPECIFICATION TraceSpec
CONSTANTS Producers = {1}
 PerProducer = 1
 Atomic = TRUE
INVARIANTS MonNoCrash MonExactlyOnce MonPerProducerOrder
POSTCONDITION TraceAccepted
CHECK_DEADLOCK FALSE
