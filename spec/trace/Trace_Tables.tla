---------------------------- MODULE Trace_Tables ----------------------------
(* binds the real agent tables and the handler's behaviour after each callback to Tables.tla *)
EXTENDS Tables, Json, IOUtils
TraceLog == ndJsonDeserialize(IOEnv.VERIF_TRACE)
Strict == IOEnv.VERIF_STRICT = "1"
VARIABLES l, obs
tvars == <<vars, l, obs>>
E == TraceLog[l]
NoObs == [status |-> 200, ok |-> TRUE]
TraceInit == l = 1 /\ Init /\ obs = NoObs
IsEvent(e) == l <= Len(TraceLog) /\ E.ev = e /\ l' = l + 1
Reset == IsEvent("Reset") /\ dls' = <<>> /\ pfs' = <<>> /\ pre' = <<>> /\ last' = [op |-> "none"] /\ hist' = <<>> /\ obs' = NoObs
Ok(o, k) == IF k = "ok" THEN o.ok ELSE o.found
Act(o) == CASE o.op = "DlOpen" -> DlOpen(o.id, o.size) [] o.op = "DlWrite" -> DlWrite(o.id, o.n) [] o.op = "DlClose" -> DlClose(o.id)
            [] o.op = "TrList" -> TrList(o.id, o.size) [] o.op \in {"TrStop", "TrResume", "TrRemove"} -> TrCtl(o.op, o.id, o.found)
            [] o.op = "PfOpen" -> PfOpen(o.id, o.tgt) [] o.op = "PfRead" -> PfRead(o.id, o.ty, o.n) [] o.op = "PfReadFail" -> PfReadFail(o.id, o.ty)
            [] o.op = "PfWrite" -> PfWrite(o.id, o.ok) [] o.op = "PfClose" -> PfClose(o.id, o.ty) [] o.op = "PfConnect" -> PfConnect(o.id, o.ok)
            [] o.op = "Burst" -> Burst(o.width, o.queue) [] o.op = "PfRemove" -> PfRemove(o.id, o.ty) [] o.op = "PfAdd" -> PfAdd(o.id, o.ok) [] o.op = "PfClear" -> PfClear(o.ok)
(* strict: the model's tables are the real tables after the step *)
SStep == IsEvent("Step") /\ Act(E.o) /\ obs' = E.obs /\ dls' = E.dls /\ pfs' = E.pfs
(* monitor: only what was observed *)
MStep == IsEvent("Step") /\ obs' = E.obs /\ UNCHANGED vars
TraceNext == Reset \/ (Strict /\ SStep) \/ (~Strict /\ MStep)
TraceSpec == TraceInit /\ [][TraceNext]_tvars
MonAnswered == Answered(obs)
MonClean == Clean(obs)
TraceAccepted == TLCGet("stats").diameter - 1 = Len(TraceLog)
=============================================================================
