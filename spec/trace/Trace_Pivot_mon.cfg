SPECIFICATION TraceSpec
CONSTANTS
  Agents = {"a1", "a2", "a3", "a4"}
  MaxOps = 1000000
INVARIANTS AtMostOneParent LinksMatch NoDupLinks Acyclic DbMirror DiedDetaches Completes RestartKeeps
POSTCONDITION TraceAccepted
CHECK_DEADLOCK FALSE
