------------------------- MODULE Trace_ThirdParty -------------------------
(* binds what agent-side requests and a real service connection saw to ThirdParty.tla *)
EXTENDS ThirdParty, Json, IOUtils
TraceLog == ndJsonDeserialize(IOEnv.VERIF_TRACE)
Strict == IOEnv.VERIF_STRICT = "1"
VARIABLES l, obs
tvars == <<vars, l, obs>>
E == TraceLog[l]
Obs0 == [state |-> [r \in Reqs |-> "none"], burstok |-> TRUE, alive |-> TRUE, done |-> TRUE]
TraceInit == Init /\ l = 1 /\ obs = Obs0
IsEvent(e) == l <= Len(TraceLog) /\ E.ev = e /\ l' = l + 1
Reset == IsEvent("Reset") /\ obs' = Obs0 /\ svc' = "off" /\ pending' = {} /\ outcome' = [r \in Reqs |-> "none"] /\ burst' = 0 /\ last' = [op |-> "none"] /\ hist' = <<>>
Act == \/ (IsEvent("SvcUp") /\ SvcUp) \/ (IsEvent("SvcDown") /\ SvcDown) \/ (IsEvent("Burst") /\ Burst) \/ (IsEvent("BurstAnswered") /\ BurstAnswered)
       \/ (IsEvent("GiveUp") /\ GiveUp) \/ (IsEvent("Req") /\ Req(E.r)) \/ (IsEvent("Answer") /\ Answer(E.r))
Seen == obs' = E.st
(* a request is waiting ("pending"), has the service's answer, byte for byte ("answer"), or got the decoy ("decoy") *)
StateOf(r) == IF r \in pending THEN "pending" ELSE outcome[r]
Bound == \A r \in Reqs : E.st.state[r] = (IF r \in pending' THEN "pending" ELSE outcome'[r])
TraceNext == Reset \/ (Act /\ Seen /\ (Strict => Bound))
TraceSpec == TraceInit /\ [][TraceNext]_tvars
TraceAccepted == TLCGet("stats").diameter - 1 = Len(TraceLog)
(* C01: every request terminates - with the service's answer or the decoy -, nothing crashes, the teamserver keeps running *)
MonTerminates == \A r \in Reqs : (r \notin pending) => obs.state[r] # "pending"
MonReplyOrDecoy == \A r \in Reqs : obs.state[r] \in {"none", "pending", "answer", "decoy"} /\ (outcome[r] = "answer" => obs.state[r] = "answer")
MonBurstServed == obs.burstok      \* every request of a burst was handed to the service and has ended with a reply or the decoy (none waiting, stuck or crashed)
MonKeepsRunning == obs.alive /\ obs.done
=============================================================================
