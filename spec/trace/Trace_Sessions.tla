-------------------------- MODULE Trace_Sessions --------------------------
(* binds the real session table to Sessions.tla *)
EXTENDS Sessions, Json, IOUtils

TraceLog == ndJsonDeserialize(IOEnv.VERIF_TRACE)
Strict == IOEnv.VERIF_STRICT = "1"
VARIABLES l
tvars == <<vars, l>>
E == TraceLog[l]
TraceInit == Init /\ l = 1
IsEvent(e) == l <= Len(TraceLog) /\ E.ev = e /\ l' = l + 1
Reset == IsEvent("Reset") /\ sess' = <<>> /\ sent' = [i \in Ids |-> NoneRec] /\ last' = [op |-> "none", h |-> "", reply |-> ""] /\ hist' = <<>>

Bind == sess' = E.st.sess /\ last'.reply = E.res.reply
SReg     == IsEvent("Reg")     /\ Reg(E.h, E.j, E.k, E.m)     /\ Bind
SCheckIn == IsEvent("CheckIn") /\ CheckIn(E.h)                 /\ Bind
SRefresh == IsEvent("Refresh") /\ Refresh(E.h, E.j, E.k, E.m) /\ Bind
SKill    == IsEvent("Kill")    /\ Kill(E.h, E.k)             /\ Bind
SRestart == IsEvent("Restart") /\ Restart                    /\ Bind

(* monitor: table from the log; `sent` from the calls alone *)
FirstValidReg == E.ev = "Reg" /\ E.h = E.j /\ sent[E.h] = NoneRec
ValidRefresh == E.ev = "Refresh" /\ E.h = E.j /\ sent[E.h] # NoneRec
MonStep == /\ l <= Len(TraceLog) /\ E.ev # "Reset" /\ l' = l + 1
           /\ sess' = E.st.sess
           /\ sent' = IF FirstValidReg \/ ValidRefresh THEN [sent EXCEPT ![E.h] = [key |-> E.k, meta |-> E.m]]
                      ELSE IF E.ev = "Restart" THEN [i \in Ids |-> IF Alive(i) THEN sent[i] ELSE NoneRec] ELSE sent
           /\ last' = [op |-> E.ev, h |-> E.h, reply |-> E.res.reply]
           /\ UNCHANGED hist
TraceNext == Reset \/ (Strict /\ (SReg \/ SCheckIn \/ SRefresh \/ SKill \/ SRestart)) \/ (~Strict /\ MonStep)
TraceSpec == TraceInit /\ [][TraceNext]_tvars
TraceAccepted == TLCGet("stats").diameter - 1 = Len(TraceLog)
(* the id of an existing session never changes (Reset starts a new server) *)
IdStableT == (l <= Len(TraceLog) /\ E.ev # "Reset") => IdStable
IdImmutableT == [][IdStableT]_tvars
ReplyOK == last.reply # "bad"
=============================================================================
