-------------------------- MODULE Trace_SocksTable --------------------------
EXTENDS SocksTable, Json, IOUtils, SequencesExt
TraceLog == ndJsonDeserialize(IOEnv.VERIF_TRACE)
Strict == IOEnv.VERIF_STRICT = "1"
VARIABLES l, obs
tvars == <<vars, l, obs>>
E == TraceLog[l]
TraceInit == Init /\ l = 1 /\ obs = [listed |-> <<>>, open |-> {}, done |-> TRUE, locked |-> FALSE]
IsEvent(e) == l <= Len(TraceLog) /\ E.ev = e /\ l' = l + 1
Reset == IsEvent("Reset") /\ listed' = <<>> /\ open' = {} /\ last' = [op |-> "none", done |-> TRUE] /\ hist' = <<>> /\ obs' = [listed |-> <<>>, open |-> {}, done |-> TRUE, locked |-> FALSE]
Act == \/ (IsEvent("Add") /\ Add(E.p))
       \/ (IsEvent("Kill") /\ Kill(E.p))
       \/ (IsEvent("Clear") /\ Clear)
       \/ (IsEvent("List") /\ List)
Seen == obs' = [listed |-> E.st.listed, open |-> ToSet(E.st.open), done |-> E.res.done, locked |-> E.st.locked]
Bound == listed' = E.st.listed /\ open' = ToSet(E.st.open) /\ E.res.done /\ ~E.st.locked
TraceNext == Reset \/ (Act /\ Seen /\ (Strict => Bound))
TraceSpec == TraceInit /\ [][TraceNext]_tvars
TraceAccepted == TLCGet("stats").diameter - 1 = Len(TraceLog)
MonNoDuplicates == \A i, j \in 1..Len(obs.listed) : obs.listed[i] = obs.listed[j] => i = j
MonListedIsLive == obs.open = {obs.listed[i] : i \in 1..Len(obs.listed)}
MonTableMatchesCommands == obs.listed = listed      \* what "socks list" shows is what was added and not killed, in order
MonCompletes == obs.done /\ ~obs.locked
=============================================================================
