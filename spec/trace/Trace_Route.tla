---------------------------- MODULE Trace_Route ----------------------------
(* binds recorded routing observations on the real teamserver to Route.tla *)
EXTENDS Route, Json, IOUtils, SequencesExt

TraceLog == ndJsonDeserialize(IOEnv.VERIF_TRACE)
Strict == IOEnv.VERIF_STRICT = "1"
VARIABLES l
tvars == <<vars, l>>
E == TraceLog[l]
HopSet == {Hops[i] : i \in 1..Len(Hops)}

TraceInit == /\ l = 1 /\ chain = <<"h1", "h2">> /\ cls = [h \in HopSet |-> "small"]
             /\ last = [op |-> "none"] /\ hist = <<>>
IsEvent(e) == l <= Len(TraceLog) /\ E.ev = e /\ l' = l + 1

Reset == /\ IsEvent("Reset")
         /\ chain' = E.chain /\ cls' = [h \in HopSet |-> E.cls[h]]
         /\ last' = [op |-> "none"] /\ hist' = <<>>

Logged == [op |-> E.ev, owner |-> E.owner, delivered |-> E.res.delivered, path |-> E.res.path, at |-> E.res.at, ok |-> E.res.ok]

SDown == IsEvent("Down") /\ Down(E.kind) /\ last' = Logged
SUp   == IsEvent("Up") /\ Up(E.owner) /\ last' = Logged
SRehang == IsEvent("Rehang") /\ Rehang(E.owner) /\ last' = Logged
SLate == IsEvent("LateDisconnect") /\ LateDisconnect /\ last' = Logged
SClear == IsEvent("DownClear") /\ DownClear(E.owner) /\ last' = Logged
SRekey == IsEvent("Rekey") /\ Rekey(E.owner) /\ last' = Logged
SRestart == IsEvent("Restart") /\ Restart /\ last' = Logged
MonStep == /\ l <= Len(TraceLog) /\ E.ev # "Reset" /\ l' = l + 1
           /\ last' = Logged /\ UNCHANGED <<cls, hist>>
           /\ chain' = IF E.ev = "Rehang" THEN <<"r2">> \o SubSeq(chain, Idx(E.owner), Len(chain)) ELSE chain

TraceNext == Reset \/ (Strict /\ (SDown \/ SUp \/ SRehang \/ SLate \/ SClear \/ SRekey \/ SRestart)) \/ (~Strict /\ MonStep)
TraceSpec == TraceInit /\ [][TraceNext]_tvars
TraceAccepted == TLCGet("stats").diameter - 1 = Len(TraceLog)
=============================================================================
