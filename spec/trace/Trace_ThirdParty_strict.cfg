SPECIFICATION TraceSpec
CONSTANTS
  Reqs = {"r1", "r2", "r3"}
  MaxOps = 100000
  BurstWidth = 16
INVARIANTS MonTerminates MonReplyOrDecoy MonBurstServed MonKeepsRunning
POSTCONDITION TraceAccepted
CHECK_DEADLOCK FALSE
