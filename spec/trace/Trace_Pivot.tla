---------------------------- MODULE Trace_Pivot ----------------------------
(* binds recorded executions of the real pivot bookkeeping to Pivot.tla *)
EXTENDS Pivot, Json, IOUtils, SequencesExt

TraceLog == ndJsonDeserialize(IOEnv.VERIF_TRACE)
Strict == IOEnv.VERIF_STRICT = "1"
VARIABLES l
tvars == <<vars, l>>
E == TraceLog[l]

TraceInit == Init /\ l = 1
IsEvent(e) == l <= Len(TraceLog) /\ E.ev = e /\ l' = l + 1

Reset == /\ IsEvent("Reset")
         /\ reg' = {} /\ ptr' = [a \in Agents |-> None] /\ links' = [a \in Agents |-> {}]
         /\ dup' = FALSE /\ db' = {} /\ active' = [a \in Agents |-> FALSE]
         /\ last' = [op |-> "none", a |-> None, c |-> None, done |-> TRUE, kept |-> TRUE] /\ hist' = <<>>

Logged == /\ reg' = ToSet(E.st.reg)
          /\ ptr' = [a \in Agents |-> E.st.ptr[a]]
          /\ links' = [a \in Agents |-> ToSet(E.st.links[a])]
          /\ dup' = E.st.dup
          /\ db' = ToSet(E.st.db)
          /\ active' = [a \in Agents |-> E.st.active[a]]

SRegister   == IsEvent("Register")   /\ Register(E.a)        /\ Logged /\ E.res.done
SConnect    == IsEvent("Connect")    /\ Connect(E.a, E.c)    /\ Logged /\ E.res.done
SDisconnect == IsEvent("Disconnect") /\ Disconnect(E.a, E.c) /\ Logged /\ E.res.done
SDied       == IsEvent("Died")       /\ Died(E.a, E.k)       /\ Logged /\ E.res.done
SRestart    == IsEvent("Restart")    /\ Restart             /\ Logged /\ E.res.done

MonStep == /\ l <= Len(TraceLog) /\ E.ev # "Reset" /\ l' = l + 1
           /\ Logged
           /\ last' = [op |-> E.ev, a |-> E.a, c |-> E.c, done |-> E.res.done,
                       kept |-> (E.ev = "Restart" =>          \* unprimed: as logged before the restart, primed: after
                                   /\ reg' = {a \in reg : active[a]}
                                   /\ \A p \in reg', c \in reg' : (c \in links'[p]) <=> (c \in links[p])
                                   /\ \A c \in reg' : ptr'[c] = (IF ptr[c] \in reg' THEN ptr[c] ELSE None))]
           /\ UNCHANGED hist

TraceNext == \/ Reset
             \/ (Strict /\ (SRegister \/ SConnect \/ SDisconnect \/ SDied \/ SRestart))
             \/ (~Strict /\ MonStep)
TraceSpec == TraceInit /\ [][TraceNext]_tvars
TraceAccepted == TLCGet("stats").diameter - 1 = Len(TraceLog)
=============================================================================
