SPECIFICATION TraceSpec
CONSTANTS
  Ids = {"i1", "i2"}
  Keys = {"k1", "k2", "kz"}
  Metas = {"m1", "m2"}
  MaxOps = 1000000
INVARIANTS UniqueIds MetaAsSent RegCreatesOne ReplyOK
PROPERTY IdImmutableT
POSTCONDITION TraceAccepted
CHECK_DEADLOCK FALSE
