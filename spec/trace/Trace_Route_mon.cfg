SPECIFICATION TraceSpec
CONSTANTS
  Classes = {"one", "small", "topbit", "max"}
  MaxLen = 6
  Defects = {}
INVARIANTS RoutedDown RoutedUp
POSTCONDITION TraceAccepted
CHECK_DEADLOCK FALSE
