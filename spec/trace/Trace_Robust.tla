---------------------------- MODULE Trace_Robust ----------------------------
(* binds what the real request handler did with each packet class to Robust.tla *)
EXTENDS Robust, Json, IOUtils
TraceLog == ndJsonDeserialize(IOEnv.VERIF_TRACE)
Strict == IOEnv.VERIF_STRICT = "1"
VARIABLES l
tvars == <<vars, l>>
E == TraceLog[l]
AnyCell == CHOOSE c \in [state : {"fresh"}, service : {TRUE}, hdr : {"full"}, magic : {"demon"}, agent : {"known"}, first : {"getjob"}, cmd : {1}, sub : {0}, shape : {"none"}, key : {"right"}, depth : {0}] : TRUE
TraceInit == l = 1 /\ cell = AnyCell /\ last = [op |-> "none"]
IsEvent(e) == l <= Len(TraceLog) /\ E.ev = e /\ l' = l + 1
Reset == IsEvent("Reset") /\ cell' = E.cell /\ last' = [op |-> "none"]
Logged == [op |-> "Handle", outcome |-> E.res.outcome, ok |-> E.res.ok, touched |-> E.res.touched]
(* strict: also the reply/decoy classification of the model (touched is an upper bound: traffic may, but need not, change state) *)
SHandle == IsEvent("Handle") /\ Handle /\ last'.outcome = E.res.outcome /\ E.res.ok /\ (E.res.touched => last'.touched)
MHandle == IsEvent("Handle") /\ last' = Logged /\ UNCHANGED cell
TraceNext == Reset \/ (Strict /\ SHandle) \/ (~Strict /\ MHandle)
TraceSpec == TraceInit /\ [][TraceNext]_tvars
TraceAccepted == TLCGet("stats").diameter - 1 = Len(TraceLog)
=============================================================================
