SPECIFICATION TraceSpec
CONSTANTS
  Agents = {"a1", "a2", "a3"}
  Metas = {"m1", "m2"}
  Lst = {"l1", "L1", "l-1", "l_1"}
  MaxOps = 1000000
INVARIANTS Quiescent AckedSurvive OnlyKnown DeadStayDead NoDanglingChild
POSTCONDITION TraceAccepted
CHECK_DEADLOCK FALSE
