SPECIFICATION TraceSpec
CONSTANTS
  Names = {"n1", "n2"}
  Svc = {"s1", "s2"}
  Items = {"x1", "x2"}
  MaxOps = 1000000
INVARIANTS MonUniqueNames MonThreeViews MonRemovedStopsAccepting MonEditApplies MonOwnerScopedCleanup MonKeepsRunning MonListenersSurvive
POSTCONDITION TraceAccepted
CHECK_DEADLOCK FALSE
