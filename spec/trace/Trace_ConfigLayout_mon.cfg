SPECIFICATION TraceSpec
INVARIANTS ConfigIsWhatWasChosen UnencodableFails
POSTCONDITION TraceAccepted
CHECK_DEADLOCK FALSE
