SPECIFICATION TraceSpec
CONSTANTS
  MaxFields = 3
  MaxBytes = 3
  MaxResidue = 9
INVARIANTS PreflightExact RoundTrip
POSTCONDITION TraceAccepted
CHECK_DEADLOCK FALSE
