SPECIFICATION TraceSpec
CONSTANTS
  Agents = {"a1", "a2"}
  Limit = 31457280
  Chunk = 31457280
  ChunkOverhead = 16
  OpSize = 8
  WrapOverhead = 32
  UseSize = 32
  RawSizes = {}
  FileSizes = {}
  MaxOps = 100000
INVARIANTS ExactlyOnceInOrder NoJobOnlyIfEmpty Bounded NonEmptyBatch Maximal MonObserved
POSTCONDITION TraceAccepted
CHECK_DEADLOCK FALSE
