------------------------- MODULE Trace_TaskGrammar -------------------------
(* binds check-in replies of the real teamserver, read the way the Demon reads them, to TaskGrammar.tla *)
EXTENDS TaskGrammar, Json, IOUtils
TraceLog == ndJsonDeserialize(IOEnv.VERIF_TRACE)
Strict == IOEnv.VERIF_STRICT = "1"
VARIABLES l
tvars == <<vars, l>>
E == TraceLog[l]
TraceInit == l = 1 /\ batch = <<[row |-> "checkin", pclass |-> "low"]>> /\ looks = 0 /\ key = "zero" /\ params = <<>> /\ last = [op |-> "none"] /\ hist = <<>>
IsEvent(e) == l <= Len(TraceLog) /\ E.ev = e /\ l' = l + 1
Reset == IsEvent("Reset") /\ batch' = E.batch /\ looks' = E.looks /\ key' = E.key /\ params' = <<>> /\ last' = [op |-> "none"] /\ hist' = <<>>
Logged == [op |-> "Deliver", tasks |-> E.res.tasks, clear |-> E.res.clear]
SDeliver == IsEvent("Deliver") /\ Deliver(E.params) /\ last' = Logged
MDeliver == IsEvent("Deliver") /\ params' = E.params /\ last' = Logged /\ hist' = Append(hist, [op |-> "Deliver"]) /\ UNCHANGED <<batch, looks, key>>
TList == IsEvent("List") /\ List
TraceNext == Reset \/ TList \/ (Strict /\ SDeliver) \/ (~Strict /\ MDeliver)
TraceSpec == TraceInit /\ [][TraceNext]_tvars
TraceAccepted == TLCGet("stats").diameter - 1 = Len(TraceLog)
=============================================================================
