------------------------------ MODULE Wire ------------------------------
(***************************************************************************)
(* Reader semantics of the agent->server packet parser.                    *)
(*   code: pkg/common/parser/parser.go  ParseInt32/ParseInt64/ParseBool/   *)
(*         ParseBytes/CanIRead                                             *)
(* A case is: a list of typed fields (as the Demon's Package.c encodes     *)
(* them), r bytes of trailing residue, and a cut point k (the buffer is    *)
(* the first k bytes).  The model says how many bytes each field needs,    *)
(* when the pre-flight check must succeed, and where the cursor ends.      *)
(* Byte values are chosen by the harness (value classes); the decoded      *)
(* values are compared with the encoded ones by the independent encoder.   *)
(***************************************************************************)
EXTENDS Integers, Sequences, FiniteSets, TLC

CONSTANTS MaxFields, MaxBytes, MaxResidue

Kinds == {[t |-> "i32", n |-> 0], [t |-> "i64", n |-> 0], [t |-> "bool", n |-> 0]}
         \cup {[t |-> "bytes", n |-> n] : n \in 0..MaxBytes}
         \cup {[t |-> "str", n |-> n] : n \in {1, 4}}      \* NUL-terminated text of n bytes (terminator included)
         \cup {[t |-> "wstr", n |-> n] : n \in {1, 3}}     \* UTF-16LE text of n code units (terminator included)

Size(f) == CASE f.t = "i32" -> 4 [] f.t = "i64" -> 8 [] f.t = "bool" -> 4 [] f.t = "bytes" -> 4 + f.n
               [] f.t = "str" -> 4 + f.n [] f.t = "wstr" -> 4 + 2 * f.n

RECURSIVE Need(_)
Need(fs) == IF fs = <<>> THEN 0 ELSE Size(Head(fs)) + Need(Tail(fs))

VARIABLES fields, residue, cut, last, hist
vars == <<fields, residue, cut, last, hist>>

FieldLists == UNION {[1..n -> Kinds] : n \in 1..MaxFields}

Init == /\ fields \in FieldLists
        /\ residue \in 0..MaxResidue
        /\ cut \in 0..(Need(fields) + residue)
        /\ last = [op |-> "none"]
        /\ hist = <<>>

(* the pre-flight check: are all fields inside the first `cut` bytes? *)
CanRead == cut >= Need(fields)

Probe ==   \* CanIRead on the cut buffer
    /\ last' = [op |-> "Probe", can |-> CanRead, left |-> cut, ok |-> TRUE]
    /\ hist' = Append(hist, [op |-> "Probe"])
    /\ UNCHANGED <<fields, residue, cut>>

Read ==    \* all fields are there: read them in order
    /\ CanRead
    /\ last' = [op |-> "Read", can |-> TRUE, left |-> cut - Need(fields), ok |-> TRUE]
    /\ hist' = Append(hist, [op |-> "Read"])
    /\ UNCHANGED <<fields, residue, cut>>

Next == Len(hist) < 2 /\ ((hist = <<>> /\ Probe) \/ (Len(hist) = 1 /\ Read))
Spec == Init /\ [][Next]_vars
-----------------------------------------------------------------------------
(* C03, reader clauses *)
PreflightExact == last.op = "Probe" => (last.can <=> cut >= Need(fields))
RoundTrip == last.op = "Read" => last.ok /\ last.left = cut - Need(fields)
=============================================================================
