----------------------------- MODULE SocksTable -----------------------------
(***************************************************************************)
(* The SOCKS proxy table of an agent session under the operator commands   *)
(* "socks add / list / kill / clear".                                      *)
(*   code: pkg/agent/demons.go TaskPrepare COMMAND_SOCKET, pkg/socks/socks.go *)
(***************************************************************************)
EXTENDS Integers, Sequences, FiniteSets, TLC
CONSTANTS Ports, MaxOps
VARIABLES listed,    \* proxies in the table, in order of creation
          open,      \* ports that accept connections
          last, hist
vars == <<listed, open, last, hist>>
view == <<listed, open, last>>
Init == listed = <<>> /\ open = {} /\ last = [op |-> "none", done |-> TRUE] /\ hist = <<>>
Log(op, p) == hist' = Append(hist, [op |-> op, p |-> p]) /\ last' = [op |-> op, done |-> TRUE]
InList(p) == \E i \in 1..Len(listed) : listed[i] = p
Add(p) == /\ IF InList(p) THEN UNCHANGED <<listed, open>> ELSE listed' = Append(listed, p) /\ open' = open \cup {p}
          /\ Log("Add", p)
Kill(p) == /\ listed' = SelectSeq(listed, LAMBDA x : x # p) /\ open' = open \ {p} /\ Log("Kill", p)
Clear == listed' = <<>> /\ open' = {} /\ Log("Clear", "")
List == UNCHANGED <<listed, open>> /\ Log("List", "")
Next == Len(hist) < MaxOps /\ (Clear \/ List \/ \E p \in Ports : Add(p) \/ Kill(p))
Spec == Init /\ [][Next]_vars
NoDuplicates == \A i, j \in 1..Len(listed) : listed[i] = listed[j] => i = j
ListedIsLive == open = {listed[i] : i \in 1..Len(listed)}
Completes == last.done
=============================================================================
