----------------------------- MODULE ThirdParty -----------------------------
(***************************************************************************)
(* C01, the registered third-party half: requests that carry the magic     *)
(* value of an agent type a service has registered are handed to that      *)
(* service over its connection and the handler waits for its answer.       *)
(*   code: pkg/handlers/handlers.go handleServiceAgent,                    *)
(*         pkg/service/agent.go SendResponse (the wait for the answer),    *)
(*         pkg/service/service.go BodyAgentResponse (the answer's way back)*)
(*         pkg/service/service.go ClientClose (the service goes away)      *)
(* Whatever the service does - answers, stays silent, goes away with       *)
(* requests in flight, is hit by many requests at the same moment - every  *)
(* request terminates with the service's answer or the decoy, and the      *)
(* teamserver keeps running.                                               *)
(***************************************************************************)
EXTENDS Integers, Sequences, FiniteSets, TLC
CONSTANTS Reqs, MaxOps, BurstWidth

VARIABLES svc,      \* "off" | "on": a service connection with the agent type registered
          pending,  \* requests handed to the service, waiting for its answer
          outcome,  \* [Reqs -> "none" | "answer" | "decoy"]
          burst,    \* how many simultaneous requests are in flight (all of one burst), 0 = none
          last, hist
vars == <<svc, pending, outcome, burst, last, hist>>

Init == svc = "off" /\ pending = {} /\ outcome = [r \in Reqs |-> "none"] /\ burst = 0 /\ last = [op |-> "none"] /\ hist = <<>>
Log(o) == hist' = Append(hist, o) /\ last' = o /\ Len(hist) < MaxOps

SvcUp == /\ svc = "off" /\ svc' = "on" /\ UNCHANGED <<pending, outcome, burst>> /\ Log([op |-> "SvcUp"])
(* a request with the registered magic value arrives *)
Req(r) == /\ outcome[r] = "none" /\ r \notin pending /\ burst = 0
          /\ IF svc = "on" THEN pending' = pending \cup {r} /\ UNCHANGED outcome
                           ELSE outcome' = [outcome EXCEPT ![r] = "decoy"] /\ UNCHANGED pending      \* nobody has registered that magic value (any more)
          /\ UNCHANGED <<svc, burst>> /\ Log([op |-> "Req", r |-> r])
(* the service answers one of the requests it was handed: the agent gets exactly that answer *)
Answer(r) == /\ r \in pending /\ svc = "on"
             /\ pending' = pending \ {r} /\ outcome' = [outcome EXCEPT ![r] = "answer"]
             /\ UNCHANGED <<svc, burst>> /\ Log([op |-> "Answer", r |-> r])
(* the service goes away: what was waiting for it ends with the decoy; its agent type is gone *)
SvcDown == /\ svc = "on" /\ svc' = "off"
           /\ outcome' = [r \in Reqs |-> IF r \in pending THEN "decoy" ELSE outcome[r]] /\ pending' = {}
           /\ burst' = 0 /\ Log([op |-> "SvcDown"])
(* many requests at the same moment, and the service answers them all *)
Burst == /\ svc = "on" /\ burst = 0 /\ burst' = BurstWidth /\ UNCHANGED <<svc, pending, outcome>> /\ Log([op |-> "Burst", n |-> BurstWidth])
BurstAnswered == /\ svc = "on" /\ burst > 0 /\ burst' = 0 /\ UNCHANGED <<svc, pending, outcome>> /\ Log([op |-> "BurstAnswered"])
(* the service never answers what it was handed: the handler gives up after a while (Wait: the harness lets that while pass) *)
GiveUp == /\ pending # {} /\ svc = "on"
          /\ outcome' = [r \in Reqs |-> IF r \in pending THEN "decoy" ELSE outcome[r]] /\ pending' = {}
          /\ UNCHANGED <<svc, burst>> /\ hist' = Append(hist, [op |-> "GiveUp"]) /\ last' = [op |-> "GiveUp"]       \* (not counted against the bound)
Next == SvcUp \/ SvcDown \/ Burst \/ BurstAnswered \/ GiveUp \/ \E r \in Reqs : Req(r) \/ Answer(r)
Spec == Init /\ [][Next]_vars /\ WF_vars(GiveUp)
-----------------------------------------------------------------------------
TypeOK == svc \in {"off", "on"} /\ pending \subseteq Reqs /\ burst \in {0, BurstWidth}
NothingWaitsForNobody == svc = "off" => pending = {} /\ burst = 0
AnsweredOnce == \A r \in Reqs : r \in pending => outcome[r] = "none"
(* every request terminates *)
Terminates == \A r \in Reqs : (r \in pending) ~> (r \notin pending)
=============================================================================
