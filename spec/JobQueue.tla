--------------------------- MODULE JobQueue ---------------------------
(***************************************************************************)
(* Per-agent task queue of the Havoc teamserver.                           *)
(*   code: teamserver/pkg/agent/agent.go  AddJobToQueue / GetQueuedJobs    *)
(*         teamserver/pkg/agent/demons.go UploadMemFileInChunks,           *)
(*                                        TeamserverTaskPrepare task::clear*)
(*         teamserver/pkg/handlers/handlers.go handleDemonAgent (no-job)   *)
(* Sizes are real byte counts (TLC integers are 32 bit; the pipe limit is  *)
(* 0x1e00000), so the harness logs sizes exactly as GetQueuedJobs counts   *)
(* them and no abstraction function sits between model and code.           *)
(* This is the sequential meaning (each public call atomic); the split     *)
(* statement-level version is JobQueueConc.tla.                            *)
(***************************************************************************)
EXTENDS Integers, Sequences, FiniteSets, TLC, SequencesExt

CONSTANTS Agents,        \* set of strings, e.g. {"a1","a2"}
          Limit,         \* DEMON_MAX_RESPONSE_LENGTH
          Chunk,         \* chunk size of UploadMemFileInChunks (= Limit in the code)
          ChunkOverhead, \* bytes GetQueuedJobs counts for a MEM_FILE job besides the chunk (4+8+4)
          OpSize,        \* counted size of the small operator task (sleep: two ints)
          UseSize,       \* counted size of the FS-upload job that consumes a memfile
          RawSizes,      \* counted sizes of directly queued relay-style jobs
          FileSizes,     \* sizes of files pushed with "upload"
          WrapOverhead,  \* 0 for an agent that talks to the teamserver itself; for an agent behind an SMB pivot its tasks wait in the
                         \* first hop's queue wrapped in a COMMAND_PIVOT job: sub-command, agent id, and what the pivot writes to the pipe (agent id, length, 12 bytes of task header + body): 32 bytes around the body
          MaxOps         \* bound on the length of generated behaviours

VARIABLES queue,      \* [Agents -> Seq(job)]   job = [id, sz, kind, file, len]
          enq,        \* [Agents -> Seq(id)]    ids in the order they were queued and are still owed
          delivered,  \* [Agents -> Seq(Seq(id))] batches handed out
          nextId,     \* next job id
          nextFile,   \* next memfile symbol
          reply,      \* last reply: [kind, a, asks, qlen, batch]
          hist        \* history of operations (generation only)

vars == <<queue, enq, delivered, nextId, nextFile, reply, hist>>
view == <<queue, enq, delivered, nextId, nextFile, reply>>

Ids(q) == [i \in 1..Len(q) |-> q[i].id]
Flat(ss) == FlattenSeq(ss)

Job(id, sz, kind, file, len) == [id |-> id, sz |-> sz, kind |-> kind, file |-> file, len |-> len]

NoReply == [kind |-> "none", a |-> "", asks |-> FALSE, qlen |-> 0, batch |-> <<>>]

Init == /\ queue = [a \in Agents |-> <<>>]
        /\ enq = [a \in Agents |-> <<>>]
        /\ delivered = [a \in Agents |-> <<>>]
        /\ nextId = 1
        /\ nextFile = 1
        /\ reply = NoReply
        /\ hist = <<>>

-----------------------------------------------------------------------------
(* GetQueuedJobs: count leading jobs while the running total stays below the
   limit; a single job that alone reaches the limit is still handed out. *)
RECURSIVE Fit(_, _, _)
Fit(q, i, acc) == IF i > Len(q) THEN 0
                  ELSE IF acc + q[i].sz >= Limit THEN 0
                  ELSE 1 + Fit(q, i + 1, acc + q[i].sz)
Take(q) == LET n == Fit(q, 1, 0) IN IF Len(q) > 0 /\ n = 0 THEN 1 ELSE n

RECURSIVE SumSz(_)
SumSz(s) == IF s = <<>> THEN 0 ELSE Head(s).sz + SumSz(Tail(s))

(* UploadMemFileInChunks: for start := 0; start <= size; start += Chunk *)
RECURSIVE ChunkLens(_, _)
ChunkLens(size, start) == IF start > size THEN <<>>
                          ELSE LET end == IF start + Chunk > size THEN size ELSE start + Chunk
                               IN <<end - start>> \o ChunkLens(size, start + Chunk)

Log(op, a, arg) == hist' = Append(hist, [op |-> op, a |-> a, arg |-> arg])

-----------------------------------------------------------------------------
EnqOp(a) ==   \* an operator queues a small task (DispatchEvent -> TaskPrepare -> AddJobToQueue)
    /\ queue' = [queue EXCEPT ![a] = Append(@, Job(nextId, OpSize + WrapOverhead, "op", 0, 0))]
    /\ enq' = [enq EXCEPT ![a] = Append(@, nextId)]
    /\ nextId' = nextId + 1
    /\ reply' = NoReply
    /\ UNCHANGED <<delivered, nextFile>>
    /\ Log("EnqOp", a, 0)

EnqRaw(a, s) ==   \* a relay-style producer queues a job of counted size s (AddJobToQueue)
    /\ queue' = [queue EXCEPT ![a] = Append(@, Job(nextId, s + WrapOverhead, "raw", 0, 0))]
    /\ enq' = [enq EXCEPT ![a] = Append(@, nextId)]
    /\ nextId' = nextId + 1
    /\ reply' = NoReply
    /\ UNCHANGED <<delivered, nextFile>>
    /\ Log("EnqRaw", a, s)

Upload(a, size) ==   \* operator "upload": chunks first, then the consuming FS job
    LET lens == ChunkLens(size, 0)
        n    == Len(lens)
        chunks == [i \in 1..n |-> Job(nextId + i - 1, lens[i] + ChunkOverhead, "chunk", nextFile, lens[i])]
        use  == Job(nextId + n, UseSize, "use", nextFile, size)
    IN /\ queue' = [queue EXCEPT ![a] = @ \o chunks \o <<use>>]
       /\ enq' = [enq EXCEPT ![a] = @ \o Ids(chunks) \o <<use.id>>]
       /\ nextId' = nextId + n + 1
       /\ nextFile' = nextFile + 1
       /\ reply' = NoReply
       /\ UNCHANGED delivered
       /\ Log("Upload", a, size)

Clear(a) ==   \* operator "task::clear": everything still queued is withdrawn
    /\ queue' = [queue EXCEPT ![a] = <<>>]
    /\ enq' = [enq EXCEPT ![a] = Flat(delivered[a])]
    /\ reply' = NoReply
    /\ UNCHANGED <<delivered, nextId, nextFile>>
    /\ Log("Clear", a, 0)

CheckIn(a, asks) ==   \* one agent request; asks = it contains COMMAND_GET_JOB
    /\ IF ~asks \/ queue[a] = <<>>
       THEN /\ reply' = [kind |-> "nojob", a |-> a, asks |-> asks, qlen |-> Len(queue[a]), batch |-> <<>>]
            /\ UNCHANGED <<queue, delivered>>
       ELSE LET n == Take(queue[a])
                b == SubSeq(queue[a], 1, n)
            IN /\ reply' = [kind |-> "jobs", a |-> a, asks |-> asks, qlen |-> Len(queue[a]), batch |-> b]
               /\ queue' = [queue EXCEPT ![a] = SubSeq(@, n + 1, Len(@))]
               /\ delivered' = [delivered EXCEPT ![a] = Append(@, Ids(b))]
    /\ UNCHANGED <<enq, nextId, nextFile>>
    /\ Log("CheckIn", a, IF asks THEN 1 ELSE 0)

Next == /\ Len(hist) < MaxOps
        /\ \E a \in Agents :
              \/ EnqOp(a)
              \/ \E s \in RawSizes : EnqRaw(a, s)
              \/ \E f \in FileSizes : Upload(a, f)
              \/ Clear(a)
              \/ \E asks \in BOOLEAN : CheckIn(a, asks)

Spec == Init /\ [][Next]_vars
(* the agent behind a pivot: operator tasks and relayed data, handed out at the first hop's check-ins *)
PivotNext == /\ Len(hist) < MaxOps
             /\ \E a \in Agents : EnqOp(a) \/ (\E s \in RawSizes : EnqRaw(a, s)) \/ (\E asks \in BOOLEAN : CheckIn(a, asks))
PivotSpec == Init /\ [][PivotNext]_vars

-----------------------------------------------------------------------------
(* The property (C04), clause by clause. *)

ExactlyOnceInOrder ==   \* handed out exactly once and in the order queued
    \A a \in Agents : Flat(delivered[a]) \o Ids(queue[a]) = enq[a]

NoJobOnlyIfEmpty ==     \* a check-in that asks gets no-job only if nothing is queued
    reply.kind = "nojob" /\ reply.asks => reply.qlen = 0

Bounded ==              \* a reply stops before the data reaches the limit; one larger task goes alone
    reply.kind = "jobs" => Len(reply.batch) = 1 \/ SumSz(reply.batch) < Limit

NonEmptyBatch == reply.kind = "jobs" => Len(reply.batch) >= 1

(* model detail (checked by the strict trace spec only): the batch is the longest such prefix *)
Maximal ==
    reply.kind = "jobs" =>
       LET rest == queue[reply.a] IN
          rest = <<>> \/ SumSz(reply.batch) + rest[1].sz >= Limit

(* chunking: all jobs ever created for one file *)
ChunksPrecedeUse ==   \* within the queue: every "use" job is preceded by its chunks, in order, none after it
    \A a \in Agents : \A i \in 1..Len(queue[a]) :
        queue[a][i].kind = "chunk" =>
            \E j \in (i+1)..Len(queue[a]) : queue[a][j].kind = "use" /\ queue[a][j].file = queue[a][i].file

ChunkLensSumToFile ==   \* as queued: chunk lengths of a file add up to the announced size
    \A size \in FileSizes :
        LET RECURSIVE Sum(_)
            Sum(s) == IF s = <<>> THEN 0 ELSE Head(s) + Sum(Tail(s))
        IN Sum(ChunkLens(size, 0)) = size /\ \A k \in 1..Len(ChunkLens(size, 0)) : ChunkLens(size, 0)[k] <= Chunk

TypeOK == /\ nextId \in Nat /\ nextFile \in Nat
          /\ \A a \in Agents : Len(queue[a]) <= nextId

=============================================================================
