---------------------------- MODULE ConfigLayout ----------------------------
(***************************************************************************)
(* The configuration block compiled into a Demon, field by field in the    *)
(* order DemonConfig() (payloads/Demon/src/Demon.c) reads it, as a         *)
(* function of the operator's build options and the selected listener.     *)
(*   code: pkg/common/builder/builder.go PatchConfig,                      *)
(*         pkg/common/util.go ParseWorkingHours                            *)
(* Numeric codes are the Demon's (include/core/SleepObf.h,                 *)
(* include/common/Defines.h), not the builder's.                           *)
(***************************************************************************)
EXTENDS Integers, Sequences, FiniteSets, TLC

Techs   == {"WaitForSingleObjectEx", "Foliage", "Ekko", "Zilean", "SomethingElse"}
Gadgets == {"None", "jmp rax", "jmp rbx"}
Loads   == {"None (LdrLoadDll)", "RtlRegisterWait", "RtlCreateTimer", "RtlQueueWorkItem", "Other"}
Mems    == {"Win32", "Native/Syscall", "Default"}
Amsis   == {"None", "Hardware breakpoints"}
Sleeps  == {"0", "2", "86400"}
Jitters == {"0", "15", "100"}

TechCode(t) == CASE t = "Ekko" -> 1 [] t = "Zilean" -> 2 [] t = "Foliage" -> 3 [] OTHER -> 0
GadgetCode(g) == CASE g = "jmp rax" -> 1 [] g = "jmp rbx" -> 2 [] OTHER -> 0
LoadCode(p) == CASE p = "RtlRegisterWait" -> 1 [] p = "RtlCreateTimer" -> 2 [] p = "RtlQueueWorkItem" -> 3 [] OTHER -> 0
MemCode(m) == CASE m = "Win32" -> 1 [] m = "Native/Syscall" -> 2 [] OTHER -> 0
AmsiCode(a) == IF a = "Hardware breakpoints" THEN 1 ELSE 0
IntOf(s) == CASE s = "0" -> 0 [] s = "2" -> 2 [] s = "15" -> 15 [] s = "100" -> 100 [] s = "86400" -> 86400

Opts == [tech : Techs, gadget : Gadgets, stack : BOOLEAN, load : Loads, alloc : Mems, exec : Mems, syscall : BOOLEAN, amsi : Amsis, sleep : Sleeps, jitter : Jitters]

(* the option part of the block, as the Demon will read it *)
OptFields(o) ==
    LET tc == TechCode(o.tech) IN
    [sleep |-> IntOf(o.sleep), jitter |-> IntOf(o.jitter), alloc |-> MemCode(o.alloc), exec |-> MemCode(o.exec),
     tech |-> tc,
     gadget |-> IF tc = 0 THEN 0 ELSE GadgetCode(o.gadget),      \* no sleep obfuscation: gadget and stack duplication do not apply
     stack |-> IF tc # 0 /\ o.stack THEN 1 ELSE 0,
     load |-> LoadCode(o.load), syscall |-> IF o.syscall THEN 1 ELSE 0, amsi |-> AmsiCode(o.amsi),
     spawn |-> TRUE]                                             \* both spawn-to paths arrive as given (compared byte-wise by the harness)

-----------------------------------------------------------------------------
(* listener part *)
HostCfgs == {"one", "oneport", "two", "portfirst", "three", "badport", "v6"}
   \* ["a.example"], ["a.example:8080"], ["a.example","b.example:9090"], ["a.example:8443","b.example"], ["a.example","b.example:9090","c.example"], ["a.example:xyz"], ["::1"]
PortConns == {"", "8443", "abc"}
WHs == {"", "8:00-17:00", "0:00-24:00", "9:30-9:60", "18:05-23:59", "17:00-8:00", "9:00-9:00", "25:00-26:00", "8:00", "08:00-17:30", "8:0-17:00",
        "9:00-17:300", "8:00-12:00,13:00-17:00", "8:00-17:00 UTC", " 8:00-17:00", "x8:00-17:00"}      \* a well-formed window with something after / before it
      \* the accepted grammar is H:MM-H:MM with hours written without a leading zero; "08:00-17:30" and "8:0-17:00" are outside it
Methods == {"", "POST", "post", "GET", "get"}
Rots == {"round-robin", "random", "weird"}

Texts == {"ascii", "bmp", "astral"}      \* what the listener's strings are written in: ASCII only, with a character of the basic plane, with one beyond it
Lsts == [kind : {"http", "smb"}, hosts : HostCfgs, portconn : PortConns, nheaders : 0..2, hosthdr : BOOLEAN, nuris : 0..2, proxy : BOOLEAN,
         wh : WHs, method : Methods, rot : Rots, secure : BOOLEAN, kill : BOOLEAN, text : Texts]
(* the character is written symbolically here; the harness puts the real character in and names what the reader finds the same way *)
Sfx(l) == CASE l.text = "bmp" -> "<U+0416>" [] l.text = "astral" -> "<U+1F680>" [] OTHER -> ""

(* working hours: X AAAAA BBBBBB CCCCC DDDDDD  (enabled, start hour, start minute, end hour, end minute) *)
Pack(sh, sm, eh, em) == 4194304 + sh * 131072 + sm * 2048 + eh * 64 + em
WHValue(w) == CASE w = "" -> 0
                [] w = "8:00-17:00" -> Pack(8, 0, 17, 0)
                [] w = "0:00-24:00" -> Pack(0, 0, 24, 0)
                [] w = "9:30-9:60" -> Pack(9, 30, 9, 60)
                [] w = "18:05-23:59" -> Pack(18, 5, 23, 59)
                [] OTHER -> -1                         \* not in the accepted grammar / not a forward interval: the build must fail
HostList(l) == CASE l.hosts = "one" -> <<<<"a.example", -1>>>>
                 [] l.hosts = "oneport" -> <<<<"a.example", 8080>>>>
                 [] l.hosts = "two" -> <<<<"a.example", -1>>, <<"b.example", 9090>>>>
                 [] l.hosts = "portfirst" -> <<<<"a.example", 8443>>, <<"b.example", -1>>>>
                 [] l.hosts = "three" -> <<<<"a.example", -1>>, <<"b.example", 9090>>, <<"c.example", -1>>>>
                 [] OTHER -> <<>>
DefaultPort(l) == IF l.portconn = "8443" THEN 8443 ELSE 4443      \* PortConn when given, else the bind port (4443 in the harness)

Encodable(l) ==
    IF l.kind = "smb" THEN WHValue(l.wh) # -1
    ELSE /\ WHValue(l.wh) # -1
         /\ l.method \notin {"GET", "get"}
         /\ l.portconn # "abc"
         /\ l.hosts \notin {"badport", "v6"}

LstFields(l) ==
    IF l.kind = "smb"
    THEN [kind |-> "smb", pipe |-> "\\\\.\\pipe\\verifpipe" \o Sfx(l), kill |-> IF l.kill THEN 1 ELSE 0, wh |-> WHValue(l.wh)]
    ELSE [kind |-> "http", kill |-> IF l.kill THEN 1 ELSE 0, wh |-> WHValue(l.wh), method |-> "POST",
          rot |-> IF l.rot = "round-robin" THEN 0 ELSE 1,
          hosts |-> [i \in 1..Len(HostList(l)) |-> <<HostList(l)[i][1], IF HostList(l)[i][2] = -1 THEN DefaultPort(l) ELSE HostList(l)[i][2]>>],
          secure |-> IF l.secure THEN 1 ELSE 0, ua |-> "VerifUA/1.0" \o Sfx(l),
          headers |-> (IF l.nheaders = 0 THEN <<"Content-type: */*">> ELSE [i \in 1..l.nheaders |-> IF i = 1 THEN "X-One: 1" \o Sfx(l) ELSE "X-Two: b: c"])
                      \o (IF l.hosthdr THEN <<"Host: front.example" \o Sfx(l)>> ELSE <<>>),
          uris |-> IF l.nuris = 0 THEN <<"/">> ELSE [i \in 1..l.nuris |-> IF i = 1 THEN "/a" \o Sfx(l) ELSE "/b?x=1"],
          proxy |-> IF l.proxy THEN <<"http://proxy.example:3128", "puser" \o Sfx(l), "ppass">> ELSE <<>>]

-----------------------------------------------------------------------------
VARIABLES opt, lst, last, hist
vars == <<opt, lst, last, hist>>
FixedOpt == [tech |-> "Ekko", gadget |-> "jmp rbx", stack |-> TRUE, load |-> "RtlCreateTimer", alloc |-> "Win32", exec |-> "Native/Syscall", syscall |-> TRUE,
             amsi |-> "Hardware breakpoints", sleep |-> "2", jitter |-> "15"]
FixedLst == [kind |-> "http", hosts |-> "two", portconn |-> "", nheaders |-> 1, hosthdr |-> TRUE, nuris |-> 2, proxy |-> TRUE, wh |-> "8:00-17:00",
             method |-> "POST", rot |-> "random", secure |-> TRUE, kill |-> TRUE, text |-> "astral"]
Init == /\ ((opt \in Opts /\ lst = FixedLst) \/ (opt = FixedOpt /\ lst \in Lsts))
        /\ last = [op |-> "none"] /\ hist = <<>>
Patch == /\ hist = <<>>
         /\ last' = IF Encodable(lst) THEN [op |-> "Patch", built |-> TRUE, o |-> OptFields(opt), l |-> LstFields(lst)]
                    ELSE [op |-> "Patch", built |-> FALSE, o |-> <<>>, l |-> <<>>]
         /\ hist' = <<[op |-> "Patch"]>> /\ UNCHANGED <<opt, lst>>
(* building a second payload for the same listener gives the same block: a build does not change the listener *)
Again == /\ Len(hist) = 1 /\ last.op = "Patch"
         /\ last' = [last EXCEPT !.op = "Again"] /\ hist' = Append(hist, [op |-> "Again"]) /\ UNCHANGED <<opt, lst>>
(* the whole build for an output format (executable, service executable, library, shellcode - which compiles a library with
   a nested builder): the block the compiler is handed as CONFIG_BYTES is that same block *)
Formats == {"exe", "svc", "dll", "shellcode"}
Built(f) == /\ Len(hist) = 2 /\ last.op = "Again" /\ f \in Formats
            /\ last' = [last EXCEPT !.op = "Built"] /\ hist' = Append(hist, [op |-> "Built", fmt |-> f]) /\ UNCHANGED <<opt, lst>>
Spec == Init /\ [][Patch \/ Again \/ \E f \in Formats : Built(f)]_vars
(* C13 *)
ConfigIsWhatWasChosen == last.op \in {"Patch", "Again", "Built"} /\ last.built => last.o = OptFields(opt) /\ last.l = LstFields(lst)
UnencodableFails == last.op \in {"Patch", "Again", "Built"} => (last.built <=> Encodable(lst))
=============================================================================
