---------------------------- MODULE Gen_PortFwd ----------------------------
EXTENDS PortFwd, Json
Quiet == \A s \in Socks : ~ReaderEnabled(s)
NVis == Cardinality({i \in 1..Len(hist) : hist[i].op # "Reader"})
Spent == q = <<>> /\ \A s \in Socks : ent[s] = "gone"
Emit == (Quiet /\ (NVis = MaxOps \/ Spent)) => PrintT(<<"BEHAVIOUR", ToJson(hist)>>)
(* long walks spend their steps on callbacks that find their socket (the breadth-first set has all the others) *)
Useful == \/ \E s \in Socks : (ent[s] \in {"none", "listed"} /\ Open(s)) \/ (ent[s] \in {"listed", "open"} /\ Remove(s)) \/ TargetClose(s)
          \/ \E s \in Socks, c \in UpChunks : ent[s] \in {"listed", "open"} /\ Data(s, c)
          \/ \E s \in Socks, c \in DownChunks : TargetWrite(s, c)
          \/ (q # <<>> /\ CheckIn)
SpecUseful == Init /\ [][IF \E s \in Socks : ReaderEnabled(s) THEN \E s \in Socks : Reader(s) ELSE Useful]_vars
(* with the gate in the reader goroutine everything can be scheduled between its read and its act *)
SpecGated == Init /\ [][Useful \/ \E s \in Socks : Reader(s)]_vars
SpecGatedAll == Init /\ [][Next]_vars
=============================================================================
