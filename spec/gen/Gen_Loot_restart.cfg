SPECIFICATION RestartSpec
CONSTANTS
  Agents = {"a1", "a2"}
  Fids = {1, 2}
  Names <- NameSet
  Chunks = {"c1", "c2"}
  MaxOps = 8
INVARIANTS Emit
CHECK_DEADLOCK FALSE
