SPECIFICATION SampleSpec
INVARIANTS Emit
CHECK_DEADLOCK FALSE
