SPECIFICATION CoreSpec
INVARIANTS Emit
CHECK_DEADLOCK FALSE
