---------------------------- MODULE Gen_Profile ----------------------------
(* documents for the profile loader: the specification chooses them (systematic sweeps and seeded random
   documents over the full schema), reads each through its own actions (which fixes the line of every item
   and filters what it does not define) and prints the item list; the harness renders it to text *)
EXTENDS Profile, Json, Randomization
VARIABLE todo
gvars == <<vars, todo>>

Lx(a, s) == [a |-> a, s |-> s]
Q(lx) == [f |-> "q", lx |-> lx]
Zs == Q(<<Lx("z", "raw")>>)
OpenEv(t, labels) == [e |-> "open", t |-> t, labels |-> labels, lay |-> 0]
AttrEv(n, sv) == [e |-> "attr", name |-> n, sv |-> sv, lay |-> 0]
CloseEv == [e |-> "close"]
EndEv == [e |-> "end"]

Apply(ev) == CASE ev.e = "open" -> Open(ev.t, ev.labels, ev.lay)
               [] ev.e = "empty" -> Empty(ev.t, ev.labels, ev.lay)
               [] ev.e = "attr" -> Attr(ev.name, ev.sv, ev.lay)
               [] ev.e = "trivia" -> Trivia(ev.k)
               [] ev.e = "close" -> Close
               [] ev.e = "end" -> End
Play == todo # <<>> /\ Apply(Head(todo)) /\ todo' = Tail(todo)
Emit == done => PrintT(<<"BEHAVIOUR", ToJson(hist)>>)

(* ------------------------------------------------------------------ skeletons *)
ParentOf(t) == CHOOSE p \in Types : t \in BlockNames(p)
DefaultSv(k) == CASE k = "str" -> Zs [] k = "int" -> [f |-> "n", d |-> "7"] [] k = "bool" -> [f |-> "b", v |-> TRUE]
                  [] k = "list" -> [f |-> "l", items |-> <<Zs>>, ml |-> FALSE, tr |-> FALSE]
                  [] k = "map" -> [f |-> "m", pairs |-> <<>>, colon |-> FALSE, ml |-> FALSE]
ReqNames(t) == {a.name : a \in {x \in AttrsOf(t) : x.req}}
ReqAttrs(t, except) == LET ns == SetToSeq(ReqNames(t) \ except) IN [i \in 1..Len(ns) |-> AttrEv(ns[i], DefaultSv(AttrDef(t, ns[i]).kind))]
DefLabels(t) == LET def == BlockDef(ParentOf(t), t) IN [i \in 1..Len(def.labels) |-> Zs]
RECURSIVE Up(_, _)
Up(p, inner) == IF p = "ROOT" THEN inner \o <<EndEv>>
                ELSE Up(ParentOf(p), <<OpenEv(p, DefLabels(p))>> \o ReqAttrs(p, {}) \o inner \o <<CloseEv>>)
(* a document whose innermost block is of type t with the given body *)
DocIn(t, body) == Up(ParentOf(t), <<OpenEv(t, DefLabels(t))>> \o body \o <<CloseEv>>)
RealTypes == Types \ {"ROOT"}

(* ------------------------------------------------------------------ sweep 1: every atom, every spelling, every neighbour *)
SpOf(c, a, nx) == {s \in Spellings \ {"HEX"} : Legal(c, a, s, nx)}
PairAtoms == Atoms \ {"cmb"}
QPairs == {<<Lx(a1, s1), Lx(a2, s2)>> : a1 \in PairAtoms, a2 \in PairAtoms, s1 \in Spellings \ {"HEX"}, s2 \in Spellings \ {"HEX"}}
PairDocs == {DocIn("Service", <<AttrEv("Endpoint", Q(p)), AttrEv("Password", Zs)>>) : p \in {x \in QPairs : LegalLx("q", x)}}
            \cup {DocIn("Service", <<AttrEv("Endpoint", [f |-> "h", lx |-> p, ind |-> FALSE]), AttrEv("Password", Zs)>>) :
                     p \in {x \in QPairs : LegalLx("h", x)}}
SingleDocs == UNION {{DocIn("Service", <<AttrEv("Endpoint", Q(<<Lx("z", "raw"), Lx(a, s), Lx("z", "raw")>>)), AttrEv("Password", Q(<<Lx(a, s)>>))>>) :
                         s \in {x \in Spellings : Legal("q", a, x, "z") /\ Legal("q", a, x, "") /\ (a = "cmb" => x = "raw")}} : a \in Atoms}
              \cup UNION {{DocIn("user", <<AttrEv("Password", [f |-> "h", lx |-> <<Lx("z", "raw"), Lx(a, s), Lx("z", "raw")>>, ind |-> i])>>) :
                         s \in {x \in Spellings : Legal("h", a, x, "z")}, i \in BOOLEAN} : a \in Atoms \ {"sp", "tab", "nl", "cmb"}}
(* numbers and flags in every accepted spelling, lists and maps in every layout *)
ScalarDocs == {DocIn("Demon", <<AttrEv("Sleep", [f |-> ff, d |-> d]), AttrEv("IndirectSyscall", [f |-> bf, v |-> v])>>) :
                     ff \in {"n", "nq"}, d \in DOMAIN GoodInt, bf \in {"b", "bq"}, v \in BOOLEAN}
Strs3 == <<Zs, Q(<<Lx("q", "esc"), Lx("b", "raw")>>), Q(<<>>)>>
CollDocs == {DocIn("Response", <<AttrEv("Headers", [f |-> "l", items |-> SubSeq(Strs3, 1, n), ml |-> ml, tr |-> tr])>>) : n \in 0..3, ml \in BOOLEAN, tr \in BOOLEAN}
            \cup {DocIn("Binary", <<AttrEv("ReplaceStrings-x64", [f |-> "m", colon |-> c, ml |-> ml,
                        pairs |-> SubSeq(<<[k |-> Zs, v |-> Q(<<Lx("b", "raw")>>)], [k |-> [f |-> "id", lx |-> <<Lx("b", "raw"), Lx("x", "raw")>>], v |-> Q(<<>>)]>>, 1, n)])>>) :
                     n \in 0..2, c \in BOOLEAN, ml \in BOOLEAN}
(* heredocs with empty lines, plain and indented *)
Zr == Lx("z", "raw")
Nr == Lx("nl", "raw")
HereDocs == {DocIn("user", <<AttrEv("Password", [f |-> "h", lx |-> lx, ind |-> i])>>) :
                lx \in {<<Zr, Nr, Nr, Zr>>, <<Nr, Zr>>, <<Zr, Nr>>, <<Nr>>, <<Zr, Nr, Zr>>, <<Zr, Nr, Nr, Nr, Lx("q", "raw")>>, <<>>}, i \in BOOLEAN}
SweepDocs == PairDocs \cup SingleDocs \cup ScalarDocs \cup CollDocs \cup HereDocs

(* ------------------------------------------------------------------ sweep 2: every single fault at every place of the schema *)
BadSv(k) == CASE k = "str"  -> {DefaultSv("list"), DefaultSv("map")}
              [] k = "int"  -> {Zs, [f |-> "n", d |-> "1.5"], [f |-> "n", d |-> "9223372036854775808"], [f |-> "nq", d |-> "-9223372036854775809"], DefaultSv("bool"), DefaultSv("list")}
              [] k = "bool" -> {Zs, DefaultSv("int"), DefaultSv("list")}
              [] k = "list" -> {Zs, DefaultSv("int"), [f |-> "l", items |-> <<DefaultSv("list")>>, ml |-> FALSE, tr |-> FALSE]}
              [] k = "map"  -> {Zs, DefaultSv("list"), DefaultSv("int")}
FaultBodies(t) ==
     {ReqAttrs(t, {n}) : n \in ReqNames(t)}                                                                  \* a required attribute omitted
     \cup {ReqAttrs(t, {}) \o <<AttrEv(n, Zs)>> : n \in {"Bogus"} \cup BlockNames(t)}                          \* unknown attribute / block written as attribute
     \cup {ReqAttrs(t, {}) \o <<OpenEv(n, <<>>), CloseEv>> : n \in {"Bogus"} \cup AttrNames(t)}                \* unknown block / attribute written as block
     \cup {ReqAttrs(t, {a.name}) \o <<AttrEv(a.name, DefaultSv(a.kind)), AttrEv(a.name, DefaultSv(a.kind))>> : a \in AttrsOf(t)}   \* set twice
     \cup UNION {{ReqAttrs(t, {a.name}) \o <<AttrEv(a.name, sv)>> : sv \in BadSv(a.kind)} : a \in AttrsOf(t)}                         \* wrong kind
     \cup {ReqAttrs(t, {}) \o <<OpenEv(b.name, DefLabels(b.name))>> \o ReqAttrs(b.name, {}) \o <<CloseEv, OpenEv(b.name, DefLabels(b.name))>> \o ReqAttrs(b.name, {}) \o <<CloseEv>> :
              b \in {x \in BlocksOf(t) : ~x.multi}}                                                           \* a single block repeated
     \cup UNION {{ReqAttrs(t, {}) \o <<OpenEv(b.name, ls)>> \o ReqAttrs(b.name, {}) \o <<CloseEv>> :
              ls \in {x \in {<<>>, <<Zs>>, <<Zs, Zs>>} : Len(x) # Len(b.labels)}} : b \in BlocksOf(t)}           \* wrong number of labels
FaultDocs == UNION {{DocIn(t, body) : body \in FaultBodies(t)} : t \in RealTypes}
             \cup {<<OpenEv("Bogus", <<>>), CloseEv, EndEv>>, <<AttrEv("Teamserver", Zs), EndEv>>,
                   <<OpenEv("Demon", <<>>), CloseEv, OpenEv("Demon", <<>>), CloseEv, EndEv>>}
(* the smallest valid document for every block type, and the empty file *)
MinimalDocs == {DocIn(t, ReqAttrs(t, {})) : t \in RealTypes} \cup {<<EndEv>>}

(* ------------------------------------------------------------------ seeded random documents over the whole schema *)
RandAtoms(c) == IF c = "q" THEN Atoms \ {"cmb"} ELSE Atoms \ {"cmb", "cr", "nul"}
RandLx(c, n) == LET as == [i \in 1..n |-> RandomElement(RandAtoms(c))] \o <<>>    \* (concatenation forces the lazy function into a tuple: one draw per position)
                IN [i \in 1..n |-> Lx(as[i], RandomElement({s \in Spellings : Legal(c, as[i], s, IF i < n THEN as[i + 1] ELSE "")}))] \o <<>>
RandQ == Q(RandLx("q", RandomElement(0..6)))
RandH == LET lx == RandLx("h", RandomElement(0..6))
         IN [f |-> "h", lx |-> lx, ind |-> RandomElement(BOOLEAN) /\ \A i \in 1..Len(lx) : lx[i].a \notin {"sp", "tab"}]
RandSv(k) == CASE k = "str"  -> IF RandomElement(1..4) = 1 THEN RandH ELSE RandQ
               [] k = "int"  -> [f |-> RandomElement({"n", "nq"}), d |-> RandomElement(DOMAIN GoodInt)]
               [] k = "bool" -> [f |-> RandomElement({"b", "bq"}), v |-> RandomElement(BOOLEAN)]
               [] k = "list" -> LET n == RandomElement(0..3) IN [f |-> "l", items |-> [i \in 1..n |-> RandQ], ml |-> RandomElement(BOOLEAN), tr |-> n > 0 /\ RandomElement(BOOLEAN)]
               [] k = "map"  -> LET n == RandomElement(0..2)
                                IN [f |-> "m", colon |-> RandomElement(BOOLEAN), ml |-> RandomElement(BOOLEAN),
                                    pairs |-> [i \in 1..n |-> [k |-> IF RandomElement(BOOLEAN) THEN Q([j \in 1..i |-> Lx("z", RandomElement({"raw", "hex"}))])
                                                                       ELSE [f |-> "id", lx |-> [j \in 1..i |-> Lx("z", "raw")]],
                                                              v |-> RandQ]]]
RECURSIVE Perm(_)
Perm(S) == IF S = {} THEN <<>> ELSE LET e == RandomElement(S) IN <<e>> \o Perm(S \ {e})
RandLabel == IF RandomElement(1..3) = 1 THEN [f |-> "id", lx |-> [j \in 1..RandomElement(1..3) |-> Lx(RandomElement({"z", "b", "x", "n"}), "raw")]]
             ELSE Q(RandLx("q", RandomElement(0..4)))
MaybeTrivia == IF RandomElement(1..4) = 1 THEN <<[e |-> "trivia", k |-> RandomElement(TriviaKinds)]>> ELSE <<>>
RECURSIVE RandContent(_)
RandContent(t) ==
  LET opt == AttrNames(t) \ ReqNames(t)
      names == ReqNames(t) \cup RandomSubset(RandomElement(0..Cardinality(opt)), opt)
      kids == UNION {{<<"b", b.name, i>> : i \in 1..(IF b.multi THEN RandomElement(0..2) ELSE RandomElement(0..1))} : b \in BlocksOf(t)}
      order == Perm({<<"a", n, 0>> : n \in names} \cup kids)
      item(x) == IF x[1] = "a" THEN <<[e |-> "attr", name |-> x[2], sv |-> RandSv(AttrDef(t, x[2]).kind), lay |-> RandomElement(0..11)]>>
                 ELSE LET def == BlockDef(t, x[2])
                          labels == [i \in 1..Len(def.labels) |-> RandLabel]
                          inner == RandContent(x[2])
                      IN IF inner = <<>> /\ RandomElement(BOOLEAN) THEN <<[e |-> "empty", t |-> x[2], labels |-> labels, lay |-> RandomElement(0..3)]>>
                         ELSE <<[e |-> "open", t |-> x[2], labels |-> labels, lay |-> RandomElement(0..3)]>> \o inner \o <<CloseEv>>
  IN FlattenSeq([i \in 1..Len(order) |-> MaybeTrivia \o item(order[i])])
RandDoc(i) == MaybeTrivia \o RandContent("ROOT") \o MaybeTrivia \o <<EndEv>>
(* one random change to a random document; the specification decides whether it is a fault *)
Mutate(doc) ==
  LET i == RandomElement(1..Len(doc))
      k == RandomElement(1..5)
      e == doc[i]
  IN CASE k = 1 /\ e.e = "attr" -> SubSeq(doc, 1, i - 1) \o SubSeq(doc, i + 1, Len(doc))                                     \* an attribute dropped
       [] k = 2 /\ e.e = "attr" -> SubSeq(doc, 1, i) \o <<e>> \o SubSeq(doc, i + 1, Len(doc))                               \* ... written twice
       [] k = 3 /\ e.e = "attr" -> [doc EXCEPT ![i].sv = RandomElement({Zs, DefaultSv("int"), DefaultSv("list"), DefaultSv("map"), DefaultSv("bool")})]   \* ... given some other kind of value
       [] k = 4 /\ e.e \in {"open", "empty"} -> [doc EXCEPT ![i].labels = IF @ = <<>> THEN <<Zs>> ELSE <<>>]                   \* labels added / dropped
       [] k = 5 /\ e.e \in {"open", "attr"} -> SubSeq(doc, 1, i) \o <<RandomElement({AttrEv("Bogus", Zs), [e |-> "empty", t |-> "Bogus", labels |-> <<>>, lay |-> 0]})>> \o SubSeq(doc, i + 1, Len(doc))
       [] OTHER -> doc
RandDocs(n) == {RandDoc(i) : i \in 1..n}
MutDocs(n) == {Mutate(RandDoc(i)) : i \in 1..n}

NotStuck == todo # <<>> => ENABLED Play
GInit(D) == Init /\ todo \in D
SweepSpec == GInit(SweepDocs) /\ [][Play]_gvars
FaultSpec == GInit(FaultDocs \cup MinimalDocs) /\ [][Play]_gvars
RandSpec == GInit(RandDocs(300) \cup MutDocs(300)) /\ [][Play]_gvars
=============================================================================
