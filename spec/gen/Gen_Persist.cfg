SPECIFICATION Spec
CONSTANTS
  Agents = {"a1", "a2", "a3"}
  Metas = {"m1", "m2"}
  Lst = {"l1"}
  MaxOps = 9
INVARIANTS Emit
CHECK_DEADLOCK FALSE
