SPECIFICATION LifeSpec
CONSTANTS
  Agents = {"a1", "a2"}
  Ids = {0, 1, 2}
  SendLogs = FALSE
  MaxOps = 4
INVARIANTS EmitLife
CHECK_DEADLOCK FALSE
