SPECIFICATION EditSpec
CONSTANTS
  Names = {"n1", "n2"}
  Svc = {"s1", "s2"}
  Items = {"x1", "x2"}
  MaxOps = 7
INVARIANTS Emit
CHECK_DEADLOCK FALSE
