SPECIFICATION Spec
CONSTANTS
  Classes = {"one", "small", "topbit", "max"}
  MaxLen = 6
  Defects = {}
INVARIANTS Emit
CHECK_DEADLOCK FALSE
