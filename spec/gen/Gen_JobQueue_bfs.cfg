SPECIFICATION Spec
CONSTANTS
  Agents = {"a1", "a2"}
  Limit = 31457280
  Chunk = 31457280
  ChunkOverhead = 16
  OpSize = 8
  WrapOverhead = 0
  UseSize = 32
  RawSizes = {15728640, 31457279, 31457280}
  FileSizes = {0, 1, 31457280, 31457281}
  MaxOps = 2
INVARIANTS Emit
CHECK_DEADLOCK FALSE
