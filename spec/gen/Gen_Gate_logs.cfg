SPECIFICATION Spec
CONSTANTS
  Agents = {"a1", "a2"}
  Ids = {0, 1, 2}
  SendLogs = TRUE
  MaxOps = 12
INVARIANTS Emit
CHECK_DEADLOCK FALSE
