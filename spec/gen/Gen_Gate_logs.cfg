SPECIFICATION Spec
CONSTANTS
  Agents = {"a1", "a2"}
  Ids = {1, 2, 3}
  SendLogs = TRUE
  MaxOps = 12
INVARIANTS Emit
CHECK_DEADLOCK FALSE
