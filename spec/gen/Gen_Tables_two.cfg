SPECIFICATION Spec
CONSTANTS Ids = {1, 2}
 MaxDl = 2
 MaxPf = 2
 MaxOps = 1000
VIEW view
INVARIANTS Emit
CHECK_DEADLOCK FALSE
