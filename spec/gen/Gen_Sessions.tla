---------------------------- MODULE Gen_Sessions ----------------------------
EXTENDS Sessions, Json
Emit == (Len(hist) = MaxOps) => PrintT(<<"BEHAVIOUR", ToJson(hist)>>)
(* a restart in the middle: three steps, the restart, three more *)
RestartNext == /\ Len(hist) < MaxOps
               /\ \/ (Len(hist) < 3 /\ Next /\ hist'[Len(hist')].op # "Restart")
                  \/ (Len(hist) = 3 /\ Restart)
                  \/ (Len(hist) > 3 /\ Next)
RestartSpec == Init /\ [][RestartNext]_vars
=============================================================================
