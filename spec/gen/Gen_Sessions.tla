---------------------------- MODULE Gen_Sessions ----------------------------
EXTENDS Sessions, Json
Emit == (Len(hist) = MaxOps) => PrintT(<<"BEHAVIOUR", ToJson(hist)>>)
=============================================================================
