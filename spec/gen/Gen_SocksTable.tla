-------------------------- MODULE Gen_SocksTable --------------------------
EXTENDS SocksTable, Json
Emit == (Len(hist) = MaxOps) => PrintT(<<"BEHAVIOUR", ToJson(hist)>>)
=============================================================================
