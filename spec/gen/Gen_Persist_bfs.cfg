SPECIFICATION Spec
CONSTANTS
  Agents = {"a1", "a2", "a3"}
  Metas = {"m1", "m2"}
  Lst = {"l1", "L1", "l-1", "l_1"}
  MaxOps = 3
INVARIANTS Emit
CHECK_DEADLOCK FALSE
