SPECIFICATION Spec
CONSTANTS
  Agents = {"a1", "a2", "a3", "a4"}
  MaxOps = 4
INVARIANTS Emit
CHECK_DEADLOCK FALSE
