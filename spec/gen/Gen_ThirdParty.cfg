SPECIFICATION GenSpec
CONSTANTS
  Reqs = {"r1", "r2", "r3"}
  MaxOps = 8
  BurstWidth = 16
INVARIANTS Emit
CHECK_DEADLOCK FALSE
