---------------------------- MODULE Gen_Wire ----------------------------
EXTENDS Wire, Json
Emit == (hist = <<>>) => PrintT(<<"BEHAVIOUR", ToJson(<<[op |-> "Case", fields |-> fields, residue |-> residue, cut |-> cut]>>)>>)
=============================================================================
