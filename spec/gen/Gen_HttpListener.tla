------------------------- MODULE Gen_HttpListener -------------------------
EXTENDS HttpListener, Json, Randomization
Emit == (hist = <<>>) => PrintT(<<"BEHAVIOUR", ToJson(<<[op |-> "Cell", cfg |-> cfg, req |-> req]>>)>>)
Match == [method |-> "POST", path |-> "/a", plain |-> "ok", multi |-> "full", connOther |-> FALSE, ua |-> "match", peer |-> "v4", xff |-> TRUE]
Fields == {"method", "path", "plain", "multi", "connOther", "ua", "peer", "xff"}
Near == {r \in Reqs : Cardinality({f \in Fields : r[f] # Match[f]}) <= 1}
NearInit == cfg \in Cfgs /\ req \in Near /\ last = [op |-> "none"] /\ hist = <<>>
NearSpec == NearInit /\ [][Serve]_vars
RandInit == cfg \in Cfgs /\ req \in RandomSubset(12, Reqs) /\ last = [op |-> "none"] /\ hist = <<>>
RandSpec == RandInit /\ [][Serve]_vars
=============================================================================
