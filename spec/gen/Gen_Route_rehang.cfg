SPECIFICATION RehangSpec
CONSTANTS
  Classes = {"one", "small", "topbit", "max"}
  MaxLen = 6
  Defects = {}
INVARIANTS EmitRehang
CHECK_DEADLOCK FALSE
