SPECIFICATION RebuildSpec
CONSTANTS
  Agents = {"a1", "a2", "a3"}
  MaxOps = 6
INVARIANTS EmitRebuild
CHECK_DEADLOCK FALSE
