SPECIFICATION NearSpec
INVARIANTS Emit
CHECK_DEADLOCK FALSE
