SPECIFICATION LongSpec
INVARIANTS Emit
CHECK_DEADLOCK FALSE
