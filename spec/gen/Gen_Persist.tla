---------------------------- MODULE Gen_Persist ----------------------------
EXTENDS Persist, Json
Emit == (Len(hist) = MaxOps /\ pend = <<>>) => PrintT(<<"BEHAVIOUR", ToJson(hist)>>)
=============================================================================
