SPECIFICATION MixSpec
INVARIANTS Emit
CHECK_DEADLOCK FALSE
