----------------------------- MODULE Gen_Loot -----------------------------
EXTENDS Loot_MC, Json
Emit == (Len(hist) = MaxOps) => PrintT(<<"BEHAVIOUR", ToJson(hist)>>)
(* every name of the alphabet once: open, two chunks, close, a stray chunk, and the same name through the service path *)
NamesNext == \/ hist = <<>> /\ \E n \in NameSet : Open("a1", 1, n, "ample")
             \/ Len(hist) = 1 /\ Write("a1", 1, "c1")
             \/ Len(hist) = 2 /\ Write("a1", 1, "c2")
             \/ Len(hist) = 3 /\ Close("a1", 1)
             \/ Len(hist) = 4 /\ Write("a1", 1, "c1")
NamesSpec == Init /\ [][NamesNext]_vars
(* a restart in the middle: a transfer in progress, the restart, then every small name for either restored session (short
   announced size), a chunk, a chunk for the transfer that was in progress before (written nowhere), close, a service file *)
RestartNext == \/ hist = <<>> /\ Open("a1", 1, <<"f">>, "ample")
               \/ Len(hist) = 1 /\ Write("a1", 1, "c1")
               \/ Len(hist) = 2 /\ Restart
               \/ Len(hist) = 3 /\ \E a \in Agents, n \in SmallNames : Open(a, 2, n, "short")
               \/ Len(hist) = 4 /\ Write(hist[4].a, 2, "c2")
               \/ Len(hist) = 5 /\ Write("a1", 1, "c1")
               \/ Len(hist) = 6 /\ Close(hist[4].a, 2)
               \/ Len(hist) = 7 /\ \E a \in Agents : ServiceFile(a, <<"f">>, "c1")
RestartSpec == Init /\ [][RestartNext]_vars
SvcNext == \/ hist = <<>> /\ \E n \in NameSet, a \in Agents : ServiceFile(a, n, "c1")
           \/ hist = <<>> /\ \E a \in Agents, cls \in CraftedIds : CraftedFile(a, cls)
SvcSpec == Init /\ [][SvcNext]_vars
=============================================================================
