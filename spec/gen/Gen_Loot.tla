----------------------------- MODULE Gen_Loot -----------------------------
EXTENDS Loot_MC, Json
Emit == (Len(hist) = MaxOps) => PrintT(<<"BEHAVIOUR", ToJson(hist)>>)
(* every name of the alphabet once: open, two chunks, close, a stray chunk, and the same name through the service path *)
NamesNext == \/ hist = <<>> /\ \E n \in NameSet : Open("a1", 1, n)
             \/ Len(hist) = 1 /\ Write("a1", 1, "c1")
             \/ Len(hist) = 2 /\ Write("a1", 1, "c2")
             \/ Len(hist) = 3 /\ Close("a1", 1)
             \/ Len(hist) = 4 /\ Write("a1", 1, "c1")
NamesSpec == Init /\ [][NamesNext]_vars
SvcNext == \/ hist = <<>> /\ \E n \in NameSet, a \in Agents : ServiceFile(a, n, "c1")
           \/ hist = <<>> /\ \E a \in Agents, cls \in CraftedIds : CraftedFile(a, cls)
SvcSpec == Init /\ [][SvcNext]_vars
=============================================================================
