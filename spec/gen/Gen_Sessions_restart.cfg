SPECIFICATION RestartSpec
CONSTANTS
  Ids = {"i1", "i2"}
  Keys = {"k1", "k2", "kz"}
  Metas = {"m1", "m2"}
  MaxOps = 7
INVARIANTS Emit
CHECK_DEADLOCK FALSE
