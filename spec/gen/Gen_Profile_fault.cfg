SPECIFICATION FaultSpec
INVARIANTS Emit
CHECK_DEADLOCK FALSE
