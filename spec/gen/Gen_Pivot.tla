---------------------------- MODULE Gen_Pivot ----------------------------
EXTENDS Pivot, Json
Emit == (Len(hist) = MaxOps) => PrintT(<<"BEHAVIOUR", ToJson(hist)>>)
=============================================================================
