---------------------------- MODULE Gen_Pivot ----------------------------
EXTENDS Pivot, Json
Emit == (Len(hist) = MaxOps) => PrintT(<<"BEHAVIOUR", ToJson(hist)>>)
(* a restart in the middle: a forest is built first (three or four steps that register and link), then the restart, then three more steps *)
Building == \/ \E a \in Agents : Register(a)
            \/ \E p, c \in Agents : (p # c /\ Connect(p, c))
RestartNext == /\ Len(hist) < MaxOps
               /\ \/ (Len(hist) < 4 /\ Building)
                  \/ (Len(hist) \in {3, 4} /\ Restart /\ \A i \in 1..Len(hist) : hist[i].op # "Restart")
                  \/ ((\E i \in 1..Len(hist) : hist[i].op = "Restart") /\ Next)
RestartSpec == Init /\ [][RestartNext]_vars
(* every way to build a forest in up to four register / connect steps (also re-parenting to an agent that registered later),
   then the restart *)
RebuildNext == \/ (Len(hist) < 4 /\ (\A i \in 1..Len(hist) : hist[i].op # "Restart") /\ Building /\ last'.op # "none"
                    /\ (vars' # vars) /\ <<reg, ptr, links>>' # <<reg, ptr, links>>)
               \/ (Len(hist) \in 2..4 /\ Restart /\ \A i \in 1..Len(hist) : hist[i].op # "Restart")
RebuildSpec == Init /\ [][RebuildNext]_vars
EmitRebuild == (Len(hist) >= 3 /\ hist[Len(hist)].op = "Restart") => PrintT(<<"BEHAVIOUR", ToJson(hist)>>)
=============================================================================
