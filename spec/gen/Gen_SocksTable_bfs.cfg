SPECIFICATION Spec
CONSTANTS
  Ports = {"p1", "p2", "p3"}
  MaxOps = 4
INVARIANTS Emit
CHECK_DEADLOCK FALSE
