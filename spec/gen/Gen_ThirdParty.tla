-------------------------- MODULE Gen_ThirdParty --------------------------
EXTENDS ThirdParty, Json
Emit == (Len(hist) = MaxOps \/ (Len(hist) >= 3 /\ \A r \in Reqs : outcome[r] # "none")) => PrintT(<<"BEHAVIOUR", ToJson(hist)>>)
(* giving up costs the handler's whole patience: at most once per history, and only at its end *)
GenNext == \/ (SvcUp \/ SvcDown \/ Burst \/ BurstAnswered \/ \E r \in Reqs : Req(r) \/ Answer(r)) /\ (\A i \in 1..Len(hist) : hist[i].op # "GiveUp")
           \/ (GiveUp /\ Len(hist) >= MaxOps - 2 /\ \A i \in 1..Len(hist) : hist[i].op # "GiveUp")
GenSpec == Init /\ [][GenNext]_vars
=============================================================================
