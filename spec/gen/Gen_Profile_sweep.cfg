SPECIFICATION SweepSpec
INVARIANTS Emit
CHECK_DEADLOCK FALSE
