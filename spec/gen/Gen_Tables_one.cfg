SPECIFICATION Spec
CONSTANTS Ids = {1}
 MaxDl = 2
 MaxPf = 1
 MaxOps = 1000
VIEW view
INVARIANTS Emit
CHECK_DEADLOCK FALSE
