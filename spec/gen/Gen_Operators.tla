--------------------------- MODULE Gen_Operators ---------------------------
EXTENDS Operators, Json
Emit == (Len(hist) = MaxOps) => PrintT(<<"BEHAVIOUR", ToJson(hist)>>)
(* every first-message kind x every timing of a broadcast relative to the handshake, with one authenticated witness *)
HsNext == \/ hist = <<>> /\ Connect("c1")
          \/ Len(hist) = 1 /\ Auth("c1", "good")
          \/ Len(hist) = 2 /\ Register("a1")
          \/ Len(hist) \in 3..8 /\ (\/ (phase["c2"] = "absent" /\ Connect("c2"))
                                    \/ (\E k \in Kinds : Auth("c2", k))
                                    \/ FollowUp("c2")
                                    \/ ((\A i \in 1..Len(hist) : hist[i].op # "Chat" \/ Len(hist) < 8) /\ Chat("c1"))
                                    \/ Beacon("a1"))
HsSpec == Init /\ [][HsNext]_vars
(* a listener added (by the server or by an operator) and removed again must not be replayed to the next operator *)
LsnNext == \/ hist = <<>> /\ Connect("c1")
           \/ Len(hist) = 1 /\ Auth("c1", "good")
           \/ Len(hist) = 2 /\ (AddLsn("l1") \/ AddLsnOp("c1", "l1"))
           \/ Len(hist) = 3 /\ (Chat("c1") \/ RmLsn("c1", "l1"))
           \/ Len(hist) = 4 /\ (RmLsn("c1", "l1") \/ Chat("c1"))
           \/ Len(hist) = 5 /\ Connect("c2")
           \/ Len(hist) = 6 /\ Auth("c2", "good")
LsnSpec == Init /\ [][LsnNext]_vars
(* a newcomer whose replay is overtaken by a live event, with zero, one or two operators already present *)
RaceNext == \/ hist = <<>> /\ (Connect("c1") \/ Connect("c2"))
            \/ Len(hist) = 1 /\ (\E c \in Clients : Auth(c, "good") \/ AuthRace(c))
            \/ Len(hist) = 2 /\ (Chat("c1") \/ Register("a1") \/ AddLsn("l1") \/ Connect("c2") \/ Connect("c3"))
            \/ Len(hist) = 3 /\ (\E c \in Clients : Connect(c) \/ AuthRace(c) \/ Chat(c) \/ \E d \in Clients : AuthRaceRm(c, d))
            \/ Len(hist) = 4 /\ (\E c \in Clients : AuthRace(c) \/ Chat(c) \/ Connect(c))
            \/ Len(hist) = 5 /\ (\E c \in Clients : AuthRace(c) \/ Auth(c, "good") \/ \E d \in Clients : AuthRaceRm(c, d))
RaceSpec == Init /\ [][RaceNext]_vars
(* bursts of refused strangers around authenticated operators *)
StrNext == \/ hist = <<>> /\ Connect("c1")
           \/ Len(hist) = 1 /\ Auth("c1", "good")
           \/ Len(hist) = 2 /\ Strangers
           \/ Len(hist) = 3 /\ (Chat("c1") \/ Register("a1"))
           \/ Len(hist) = 4 /\ Strangers
           \/ Len(hist) = 5 /\ Connect("c2")
           \/ Len(hist) = 6 /\ Auth("c2", "good")
           \/ Len(hist) = 7 /\ Chat("c2")
StrSpec == Init /\ [][StrNext]_vars
=============================================================================
