SPECIFICATION RestartSpec
CONSTANTS
  Agents = {"a1", "a2", "a3", "a4"}
  MaxOps = 8
INVARIANTS Emit
CHECK_DEADLOCK FALSE
