SPECIFICATION RandSpec
INVARIANTS Emit
CHECK_DEADLOCK FALSE
