SPECIFICATION Spec
CONSTANTS
  Agents = {"a1", "a2"}
  Ids = {0, 1, 2}
  SendLogs = FALSE
  MaxOps = 2
INVARIANTS Emit
CHECK_DEADLOCK FALSE
