-------------------------- MODULE Gen_TaskGrammar --------------------------
EXTENDS TaskGrammar, Json, Randomization
Emit == (hist = <<>>) => PrintT(<<"BEHAVIOUR", ToJson(<<[op |-> "Cell", key |-> key,
            batch |-> [i \in 1..Len(batch) |-> [row |-> batch[i].row, pclass |-> batch[i].pclass, cmd |-> Row(batch[i].row).cmd, extra |-> Row(batch[i].row).extra,
                                                 fields |-> Row(batch[i].row).fields]]]>>)>>)
Task == [row : RowNames, pclass : PClasses]
MixInit == /\ batch \in RandomSubset(400, [1..2 -> Task]) \cup RandomSubset(400, [1..3 -> Task])
           /\ key \in KeyClasses /\ params = <<>> /\ last = [op |-> "none"] /\ hist = <<>>
MixSpec == MixInit /\ [][Next]_vars
=============================================================================
