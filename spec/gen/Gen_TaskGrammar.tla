-------------------------- MODULE Gen_TaskGrammar --------------------------
EXTENDS TaskGrammar, Json, Randomization
Emit == (hist = <<>> /\ last.op = "none") => PrintT(<<"BEHAVIOUR", ToJson(<<[op |-> "Cell", key |-> key, looks |-> looks,
            batch |-> [i \in 1..Len(batch) |-> [row |-> batch[i].row, pclass |-> batch[i].pclass, cmd |-> Row(batch[i].row).cmd, extra |-> Row(batch[i].row).extra,
                                                 fields |-> Row(batch[i].row).fields]]]>>)>>)
Task == [row : RowNames, pclass : PClasses]
MixInit == /\ batch \in RandomSubset(100, [1..2 -> Task]) \cup RandomSubset(100, [1..3 -> Task])
           /\ looks \in 0..2
           /\ key \in KeyClasses /\ params = <<>> /\ last = [op |-> "none"] /\ hist = <<>>
MixSpec == MixInit /\ [][Next]_vars
(* batches above one answer: byte parameters of 8 MiB each ("giant"), two or three tasks that do not fit the 30 MB one check-in hands out; Deliver then
   stands for the agent checking in until nothing is left - every task once, in order, each exactly as issued *)
LongInit == /\ batch \in UNION {[1..n -> [row : {"shellcode_spawn", "kerberos_ptt", "shellcode_inject"}, pclass : {"giant"}]] : n \in 2..3}
            /\ looks = 0 /\ key \in {"nonzero", "wrap"} /\ params = <<>> /\ last = [op |-> "none"] /\ hist = <<>>
LongSpec == LongInit /\ [][Next]_vars
=============================================================================
