----------------------------- MODULE Gen_Robust -----------------------------
EXTENDS Robust, Json, Randomization
Emit == (last.op = "none") => PrintT(<<"BEHAVIOUR", ToJson(<<[op |-> "Cell", cell |-> cell]>>)>>)
(* every (command, sub-command, body shape) straight into the callback dispatcher of a known, tasked agent *)
CoreCells == {[state |-> "tasked", service |-> TRUE, hdr |-> "full", magic |-> "demon", agent |-> "known", first |-> "callback", cmd |-> c, sub |-> s, shape |-> sh, key |-> "right", depth |-> 0]
              : c \in Cmds, s \in Subs, sh \in Shapes}
CoreInit == cell \in CoreCells /\ last = [op |-> "none"]
CoreSpec == CoreInit /\ [][Handle]_vars
(* seeded random cells of the full product *)
RandCell(i) == [state |-> RandomElement(States), service |-> RandomElement(Service), hdr |-> RandomElement(HdrLens \cup {"full", "full", "full"}), magic |-> RandomElement(Magics),
                agent |-> RandomElement(Agents), first |-> RandomElement(Firsts), cmd |-> RandomElement(Cmds), sub |-> RandomElement(Subs), shape |-> RandomElement(Shapes),
                key |-> RandomElement(Keys), depth |-> RandomElement(Depths)]
RandInit == cell \in {RandCell(i) : i \in 1..6000} /\ last = [op |-> "none"]
RandSpec == RandInit /\ [][Handle]_vars
=============================================================================
