----------------------------- MODULE Gen_Socks -----------------------------
EXTENDS Socks, Json, Randomization
Terminal == phase \in {"closed", "refused", "rejected"}
Emit == Terminal => PrintT(<<"BEHAVIOUR", ToJson(<<[op |-> "Scenario", sc |-> sc]>> \o hist)>>)
SampleInit == sc \in RandomSubset(420, Scen) /\ phase = "start" /\ toClient = <<>> /\ toAgent = <<>> /\ table = FALSE /\ last = [op |-> "none"] /\ hist = <<>>
SampleSpec == SampleInit /\ [][Next]_vars
(* every scenario in which a CONNECT actually goes through to the agent *)
CoreInit == /\ sc \in {x \in Scen : x.cut = "full" /\ x.cmd = 1 /\ x.methods = "m02"}
            /\ phase = "start" /\ toClient = <<>> /\ toAgent = <<>> /\ table = FALSE /\ last = [op |-> "none"] /\ hist = <<>>
CoreSpec == CoreInit /\ [][Next]_vars
(* a pause in the middle of a connection's life *)
SlowInit == /\ sc \in {x \in Scen : x.cut = "full" /\ x.cmd = 1 /\ x.methods = "m02" /\ x.atyp \in {1, 3} /\ x.dlen = 1 /\ x.seg = "separate" /\ x.answer \in {"ok", "refused"}}
            /\ phase = "start" /\ toClient = <<>> /\ toAgent = <<>> /\ table = FALSE /\ last = [op |-> "none"] /\ hist = <<>>
SlowSpec == SlowInit /\ [][Next \/ Wait]_vars
EmitSlow == (Terminal /\ \E i \in 1..Len(hist) : hist[i].op = "Wait") => PrintT(<<"BEHAVIOUR", ToJson(<<[op |-> "Scenario", sc |-> sc]>> \o hist)>>)
=============================================================================
