SPECIFICATION SpecGated
CONSTANTS
  Socks = {"s1", "s2", "s3"}
  UpChunks = {"a", "B"}
  DownChunks = {"x", "Y"}
  MaxOps = 12
INVARIANTS Emit
CHECK_DEADLOCK FALSE
