------------------------------ MODULE Gen_Stall ------------------------------
(* histories with exactly one stall, at least one big broadcast after it, an agent request and a closing small line *)
EXTENDS Stall, Json
Ops(h) == [i \in 1..Len(h) |-> h[i].op]
Interesting == /\ Len(hist) = MaxOps
               /\ \E i \in 1..Len(hist) : hist[i].op = "Stall" /\ \E j \in (i + 1)..Len(hist) : hist[j].op = "Chat" /\ hist[j].big
               /\ \E i \in 1..Len(hist) : hist[i].op = "AgentRequest" /\ \E j \in 1..(i - 1) : hist[j].op = "Stall"
               /\ hist[Len(hist)].op = "Chat" /\ ~hist[Len(hist)].big
Emit == Interesting => PrintT(<<"BEHAVIOUR", ToJson(hist)>>)
=============================================================================
