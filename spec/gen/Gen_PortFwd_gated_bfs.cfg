SPECIFICATION SpecGatedAll
CONSTANTS
  Socks = {"s1", "s2"}
  UpChunks = {"a", "B"}
  DownChunks = {"x", "Y"}
  MaxOps = 4
INVARIANTS Emit
CHECK_DEADLOCK FALSE
