---------------------------- MODULE Gen_Gate ----------------------------
EXTENDS Gate, Json
Emit == (Len(hist) = MaxOps) => PrintT(<<"BEHAVIOUR", ToJson(hist)>>)
=============================================================================
