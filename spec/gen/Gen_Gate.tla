---------------------------- MODULE Gen_Gate ----------------------------
EXTENDS Gate, Json
Emit == (Len(hist) = MaxOps) => PrintT(<<"BEHAVIOUR", ToJson(hist)>>)
(* the life of one task in every order of its events: issued, (handed out | answered with a callback of class c1) in either
   order or only one of them, then any callback c2 with the same id from the same or the other agent, and with id 0 *)
LifeNext == \/ hist = <<>> /\ \E a \in Agents : Issue(a, 1)
            \/ Len(hist) \in {1, 2} /\ (\A i \in 1..Len(hist) : hist[i].op # "HandOut") /\ HandOut(hist[1].a)
            \/ Len(hist) \in {1, 2} /\ (\A i \in 1..Len(hist) : hist[i].op # "Callback") /\ \E c \in Classes : Callback(hist[1].a, 1, c)
            \/ Len(hist) \in {2, 3} /\ hist[Len(hist)].op # "Issue" /\ (Len(hist) = 3 \/ hist[2].op = "Callback")
                 /\ (\E i \in 1..Len(hist) : hist[i].op = "Callback") /\ Len(hist) < MaxOps
                 /\ \E a \in Agents, r \in {0, 1}, c \in Classes : Callback(a, r, c) /\ hist'[Len(hist')].op = "Callback" /\ Len(hist) >= 2
LifeSpec == Init /\ [][LifeNext]_vars
EmitLife == (Len(hist) >= 3 /\ hist[Len(hist)].op = "Callback" /\ Cardinality({i \in 1..Len(hist) : hist[i].op = "Callback"}) = 2) => PrintT(<<"BEHAVIOUR", ToJson(hist)>>)
=============================================================================
