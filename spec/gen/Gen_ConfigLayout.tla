------------------------- MODULE Gen_ConfigLayout -------------------------
EXTENDS ConfigLayout, Json, Randomization
Emit == (hist = <<>>) => PrintT(<<"BEHAVIOUR", ToJson(<<[op |-> "Cell", opt |-> opt, lst |-> lst]>>)>>)
SampleInit == /\ ((opt \in RandomSubset(2500, Opts) /\ lst = FixedLst) \/ (opt = FixedOpt /\ lst \in RandomSubset(6000, Lsts)))
              /\ last = [op |-> "none"] /\ hist = <<>>
SampleSpec == SampleInit /\ [][Patch]_vars
=============================================================================
