SPECIFICATION ChurnSpec
CONSTANTS
  Names = {"n1", "n2"}
  Svc = {"s1", "s2"}
  Items = {"x1", "x2"}
  MaxOps = 8
INVARIANTS Emit
CHECK_DEADLOCK FALSE
