SPECIFICATION SlowSpec
INVARIANTS EmitSlow
CHECK_DEADLOCK FALSE
