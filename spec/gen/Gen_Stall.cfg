SPECIFICATION Spec
CONSTANTS Clients = {"c1", "c2", "c3"}
 MaxOps = 5
INVARIANTS Emit
CHECK_DEADLOCK FALSE
