---------------------------- MODULE Gen_Registry ----------------------------
EXTENDS Registry, Json
Emit == (Len(hist) = MaxOps) => PrintT(<<"BEHAVIOUR", ToJson(hist)>>)
(* generation variants: HTTP listeners are expensive to stop (5 s each), so the listener walks use at most two HTTP adds *)
HttpAdds == Cardinality({i \in 1..Len(hist) : hist[i].op = "Add" /\ hist[i].b \in {"http", "busy"}})
LsnNext == /\ Len(hist) < MaxOps
           /\ \/ \E n \in Names, k \in {"smb", "ext"} : Add(n, k)
              \/ (HttpAdds < 2 /\ \E n \in Names, k \in {"http", "busy"} : Add(n, k))
              \/ \E n \in Names : Rm(n) \/ Edit(n)
              \/ \E n \in Names, v \in 0..1 : Serve(n, v)
LsnSpec == Init /\ [][LsnNext]_vars
SvcNext == /\ Len(hist) < MaxOps
           /\ \/ \E s \in Svc, g \in BOOLEAN : SvcConnect(s, g)
              \/ \E s \in Svc, w \in {"agent", "listener", "exc2"}, x \in Items : SvcReg(s, w, x)
              \/ \E s \in Svc : SvcDisconnect(s)
              \/ \E n \in Names, x \in Items : AddSvcType(n, x)
              \/ \E n \in Names : Add(n, "ext")
SvcSpec == Init /\ [][SvcNext]_vars
(* two connections, one registers, the other tries the same or another name, then they leave in either order *)
(* connections come and go: one leaves while another stays, a new one arrives, then both leave in either order *)
ChurnNext == \/ hist = <<>> /\ SvcConnect("s1", TRUE)
             \/ Len(hist) = 1 /\ SvcConnect("s2", TRUE)
             \/ Len(hist) = 2 /\ \E w \in {"agent", "listener", "exc2"} : SvcReg("s2", w, "x1")
             \/ Len(hist) = 3 /\ SvcDisconnect("s1")
             \/ Len(hist) = 4 /\ SvcConnect("s1", TRUE)
             \/ Len(hist) = 5 /\ \E w \in {"agent", "listener", "exc2"}, x \in Items : SvcReg("s1", w, x)
             \/ Len(hist) = 6 /\ \E s \in Svc : SvcDisconnect(s)
             \/ Len(hist) = 7 /\ \E s \in Svc : SvcDisconnect(s)
ChurnSpec == Init /\ [][ChurnNext]_vars
(* both connections register something and leave at the same moment, six times over *)
TogetherNext == LET ph == Len(hist) % 5 IN
                /\ Len(hist) < MaxOps
                /\ \/ ph = 0 /\ SvcConnect("s1", TRUE)
                   \/ ph = 1 /\ SvcConnect("s2", TRUE)
                   \/ ph = 2 /\ \E w \in {"agent", "listener", "exc2"} : (IF Len(hist) = 2 THEN TRUE ELSE hist[3].b = w \o ":x1") /\ SvcReg("s1", w, "x1")
                   \/ ph = 3 /\ \E w \in {"agent", "exc2"} : (IF Len(hist) = 3 THEN TRUE ELSE hist[4].b = w \o ":x2") /\ SvcReg("s2", w, "x2")
                   \/ ph = 4 /\ SvcLeaveTogether
TogetherSpec == Init /\ [][TogetherNext]_vars
(* listeners across restarts: one that cannot bind while the teamserver starts, then a clean start *)
RestartNext == \/ hist = <<>> /\ Add("n1", "http")
               \/ Len(hist) = 1 /\ \E k \in {"smb", "ext"} : Add("n2", k)
               \/ Len(hist) = 2 /\ ((\E b \in BOOLEAN : Restart(b)) \/ Rm("n1") \/ Rm("n2"))      \* (a removal acknowledged just before the stop)
               \/ Len(hist) = 3 /\ Restart(FALSE)
               \/ Len(hist) = 4 /\ IF run["n1"] = "http" THEN Serve("n1", 0) ELSE Add("n1", "http")
RestartSpec == Init /\ [][RestartNext]_vars
(* two External listeners on one endpoint: the second is kept like any other, and adding it again is a duplicate name *)
SharedNext == \/ hist = <<>> /\ Add("n1", "ext")
              \/ Len(hist) = 1 /\ Add("n2", "extsame")
              \/ Len(hist) = 2 /\ (Add("n2", "extsame") \/ Add("n2", "ext") \/ Add("n1", "ext"))
SharedSpec == Init /\ [][SharedNext]_vars
DupNext == \/ hist = <<>> /\ SvcConnect("s1", TRUE)
           \/ Len(hist) = 1 /\ SvcConnect("s2", TRUE)
           \/ Len(hist) = 2 /\ \E w \in {"agent", "listener", "exc2"} : SvcReg("s1", w, "x1")
           \/ Len(hist) = 3 /\ \E w \in {"agent", "listener", "exc2"}, x \in Items : SvcReg("s2", w, x)
           \/ Len(hist) = 4 /\ \E w \in {"agent", "listener", "exc2"}, x \in Items : SvcReg("s1", w, x) \/ SvcReg("s2", w, x)
           \/ Len(hist) = 5 /\ \E s \in Svc : SvcDisconnect(s)
           \/ Len(hist) = 6 /\ \E s \in Svc : SvcDisconnect(s)
DupSpec == Init /\ [][DupNext]_vars
(* edit back and forth with requests for both versions in between *)
EditNext == \/ hist = <<>> /\ Add("n1", "http")
            \/ Len(hist) \in 1..6 /\ (Edit("n1") \/ \E v \in 0..1 : Serve("n1", v))
EditSpec == Init /\ [][EditNext]_vars
=============================================================================
