---------------------------- MODULE Gen_Registry ----------------------------
EXTENDS Registry, Json
Emit == (Len(hist) = MaxOps) => PrintT(<<"BEHAVIOUR", ToJson(hist)>>)
(* generation variants: HTTP listeners are expensive to stop (5 s each), so the listener walks use at most two HTTP adds *)
HttpAdds == Cardinality({i \in 1..Len(hist) : hist[i].op = "Add" /\ hist[i].b \in {"http", "busy"}})
LsnNext == /\ Len(hist) < MaxOps
           /\ \/ \E n \in Names, k \in {"smb", "ext"} : Add(n, k)
              \/ (HttpAdds < 2 /\ \E n \in Names, k \in {"http", "busy"} : Add(n, k))
              \/ \E n \in Names : Rm(n) \/ Edit(n)
              \/ \E n \in Names, v \in 0..1 : Serve(n, v)
LsnSpec == Init /\ [][LsnNext]_vars
SvcNext == /\ Len(hist) < MaxOps
           /\ \/ \E s \in Svc, g \in BOOLEAN : SvcConnect(s, g)
              \/ \E s \in Svc, w \in {"agent", "listener", "exc2"}, x \in Items : SvcReg(s, w, x)
              \/ \E s \in Svc : SvcDisconnect(s)
              \/ \E n \in Names, x \in Items : AddSvcType(n, x)
              \/ \E n \in Names : Add(n, "ext")
SvcSpec == Init /\ [][SvcNext]_vars
=============================================================================
