SPECIFICATION StrSpec
CONSTANTS
  Clients = {"c1", "c2", "c3"}
  Agents = {"a1", "a2"}
  Lst = {"l1"}
  MaxOps = 8
INVARIANTS Emit
CHECK_DEADLOCK FALSE
