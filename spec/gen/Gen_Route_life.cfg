SPECIFICATION LifeSpec
CONSTANTS
  Classes = {"one", "small", "topbit", "max"}
  MaxLen = 6
  Defects = {}
INVARIANTS EmitLife
CHECK_DEADLOCK FALSE
