SPECIFICATION SharedSpec
CONSTANTS
  Names = {"n1", "n2"}
  Svc = {"s1", "s2"}
  Items = {"x1", "x2"}
  MaxOps = 3
INVARIANTS Emit
CHECK_DEADLOCK FALSE
