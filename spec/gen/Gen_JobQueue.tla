------------------------- MODULE Gen_JobQueue -------------------------
(* behaviour generation: prints every history of length MaxOps as JSON *)
EXTENDS JobQueue, Json
Emit == (Len(hist) = MaxOps) => PrintT(<<"BEHAVIOUR", ToJson(hist)>>)
=============================================================================
