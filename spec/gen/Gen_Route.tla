---------------------------- MODULE Gen_Route ----------------------------
EXTENDS Route, Json
Emit == (Len(hist) = 3) => PrintT(<<"BEHAVIOUR", ToJson(<<[op |-> "Setup", chain |-> chain, cls |-> cls]>> \o hist)>>)
(* traffic, the chain re-hung at one of its hops, the former parent's late report, traffic again *)
RehangNext == \/ hist = <<>> /\ Down("cmd")
              \/ Len(hist) = 1 /\ \E i \in 2..Len(chain) : Rehang(chain[i])
              \/ Len(hist) = 2 /\ LateDisconnect
              \/ Len(hist) = 3 /\ \E k \in Kinds : Down(k)
              \/ Len(hist) = 4 /\ \E o \in {chain[Len(chain)], chain[1], "nobody"} : Up(o)
RehangInit == /\ \E n \in 2..4 : chain = SubSeq(Hops, 1, n)
              /\ cls \in [{Hops[i] : i \in 1..Len(Hops)} -> {"small", "topbit"}] /\ \A i \in 5..6 : cls[Hops[i]] = "small"
              /\ last = [op |-> "none"] /\ hist = <<>>
RehangSpec == RehangInit /\ [][RehangNext]_vars
EmitRehang == (Len(hist) = 5) => PrintT(<<"BEHAVIOUR", ToJson(<<[op |-> "Setup", chain |-> SubSeq(Hops, 1, Len(chain) - 2 + (CHOOSE i \in 1..Len(Hops) : Hops[i] = hist[2].owner)), cls |-> cls]>> \o hist)>>)
(* a hop re-keys, the teamserver restarts or the operator clears a middle hop's queue, traffic in both directions *)
LifeNext == \/ hist = <<>> /\ \E i \in 1..Len(chain) : Rekey(chain[i])
            \/ Len(hist) = 1 /\ (Restart \/ \E i \in 2..(Len(chain) - 1) : DownClear(chain[i]))
            \/ Len(hist) = 2 /\ ((\E k \in Kinds : Down(k)) \/ \E i \in 2..(Len(chain) - 1) : DownClear(chain[i]))
            \/ Len(hist) = 3 /\ \E o \in {chain[Len(chain)], chain[1], "nobody"} : Up(o)
LifeInit == /\ \E n \in 2..4 : chain = SubSeq(Hops, 1, n)
            /\ cls = [h \in {Hops[i] : i \in 1..Len(Hops)} |-> "small"]
            /\ last = [op |-> "none"] /\ hist = <<>>
LifeSpec == LifeInit /\ [][LifeNext]_vars
EmitLife == (Len(hist) = 4) => PrintT(<<"BEHAVIOUR", ToJson(<<[op |-> "Setup", chain |-> chain, cls |-> cls]>> \o hist)>>)
=============================================================================
