---------------------------- MODULE Gen_Route ----------------------------
EXTENDS Route, Json
Emit == (Len(hist) = 3) => PrintT(<<"BEHAVIOUR", ToJson(<<[op |-> "Setup", chain |-> chain, cls |-> cls]>> \o hist)>>)
=============================================================================
