----------------------------- MODULE Gen_Tables -----------------------------
(* one behaviour per reachable (tables, last callback): the shortest history that gets there *)
EXTENDS Tables, Json
Emit == (last.op # "none") => PrintT(<<"BEHAVIOUR", ToJson(hist)>>)
=============================================================================
