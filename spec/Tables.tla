------------------------------ MODULE Tables ------------------------------
(* C01, the "whatever sessions, tasks and downloads already exist" half: the per-agent resource tables
   (open downloads, reverse port forwards) under histories of well-formed callbacks carrying boundary
   values (empty file, file id / socket id known or unknown, forward target up or down, success flags).
     code: pkg/agent/demons.go TaskDispatch COMMAND_FS download open/write/close, COMMAND_TRANSFER
           list/stop/resume/remove, COMMAND_SOCKET open/read/write/close/connect/rportfwd add/remove/clear;
           pkg/agent/agent.go Download* and PortFwd* (tables and PortFwdsMtx)
   Every step is valid Demon traffic: it must be answered (200), must not panic or hang and must leave
   every table mutex free, whatever the tables hold. *)
EXTENDS Integers, Sequences, FiniteSets, TLC, SequencesExt
CONSTANTS Ids, MaxDl, MaxPf, MaxOps
VARIABLES dls,   \* open downloads, in table order: sequence of [id, size]
          pfs,   \* reverse port forwards, in table order: sequence of [id, tgt ("up"/"down"), conn]
          pre,   \* the tables before the last callback (so that every transition, not only every state, is distinct)
          last, hist
vars == <<dls, pfs, pre, last, hist>>
view == <<dls, pfs, pre, last>>
Sizes == {0, 5}
Tgts == {"up", "down"}
Init == dls = <<>> /\ pfs = <<>> /\ pre = <<>> /\ last = [op |-> "none"] /\ hist = <<>>
Has(seq, i) == \E k \in 1..Len(seq) : seq[k].id = i
First(seq, i) == CHOOSE k \in 1..Len(seq) : seq[k].id = i /\ \A j \in 1..(k - 1) : seq[j].id # i
DropFirst(seq, i) == IF Has(seq, i) THEN LET k == First(seq, i) IN SubSeq(seq, 1, k - 1) \o SubSeq(seq, k + 1, Len(seq)) ELSE seq
Step(o) == last' = o /\ pre' = <<dls, pfs>> /\ hist' = Append(hist, o) /\ Len(hist) < MaxOps

(* download announced with a size (0 = empty file); a second announcement of the same id adds a second entry *)
DlOpen(f, sz) == /\ Len(dls) < MaxDl /\ dls' = Append(dls, [id |-> f, size |-> sz]) /\ UNCHANGED pfs
                 /\ Step([op |-> "DlOpen", id |-> f, size |-> sz])
DlWrite(f, n) == UNCHANGED <<dls, pfs>> /\ Step([op |-> "DlWrite", id |-> f, n |-> n])
DlClose(f) == dls' = DropFirst(dls, f) /\ UNCHANGED pfs /\ Step([op |-> "DlClose", id |-> f])
(* transfer list / stop / resume / remove replies only report *)
TrList(f, sz) == UNCHANGED <<dls, pfs>> /\ Step([op |-> "TrList", id |-> f, size |-> sz])
TrCtl(k, f, found) == UNCHANGED <<dls, pfs>> /\ Step([op |-> k, id |-> f, found |-> found])
(* socket opened by the agent's reverse port forward: remembered once, dialled on first data *)
PfOpen(s, tgt) == /\ Len(pfs) < MaxPf \/ Has(pfs, s)
                  /\ pfs' = IF Has(pfs, s) THEN pfs ELSE Append(pfs, [id |-> s, tgt |-> tgt, conn |-> FALSE])
                  /\ UNCHANGED dls /\ Step([op |-> "PfOpen", id |-> s, tgt |-> tgt])
PfRead(s, ty, n) == /\ pfs' = IF ty = "client" /\ Has(pfs, s) /\ pfs[First(pfs, s)].tgt = "up"
                               THEN [pfs EXCEPT ![First(pfs, s)].conn = TRUE] ELSE pfs
                    /\ UNCHANGED dls /\ Step([op |-> "PfRead", id |-> s, ty |-> ty, n |-> n])
PfReadFail(s, ty) == UNCHANGED <<dls, pfs>> /\ Step([op |-> "PfReadFail", id |-> s, ty |-> ty])
PfWrite(s, ok) == UNCHANGED <<dls, pfs>> /\ Step([op |-> "PfWrite", id |-> s, ok |-> ok])
PfClose(s, ty) == UNCHANGED <<dls, pfs>> /\ Step([op |-> "PfClose", id |-> s, ty |-> ty])
PfConnect(s, ok) == UNCHANGED <<dls, pfs>> /\ Step([op |-> "PfConnect", id |-> s, ok |-> ok])
PfRemove(s, ty) == pfs' = DropFirst(pfs, s) /\ UNCHANGED dls /\ Step([op |-> "PfRemove", id |-> s, ty |-> ty])
PfAdd(s, ok) == UNCHANGED <<dls, pfs>> /\ Step([op |-> "PfAdd", id |-> s, ok |-> ok])
PfClear(ok) == UNCHANGED <<dls, pfs>> /\ Step([op |-> "PfClear", ok |-> ok])
(* many requests for the session at the same moment (simultaneous check-ins against a queue with or without a task):
   no table changes; every request is answered and no mutex of the session stays locked *)
Burst(w, q) == UNCHANGED <<dls, pfs>> /\ Step([op |-> "Burst", width |-> w, queue |-> q])
Types == {"portfwd", "proxy", "client"}
Next == \/ \E f \in Ids : \/ \E sz \in Sizes : DlOpen(f, sz) \/ TrList(f, sz)
                          \/ \E n \in {0, 3} : DlWrite(f, n)
                          \/ DlClose(f)
                          \/ \E k \in {"TrStop", "TrResume", "TrRemove"}, fd \in BOOLEAN : TrCtl(k, f, fd)
        \/ \E s \in Ids : \/ \E t \in Tgts : PfOpen(s, t)
                          \/ \E ty \in Types : PfRead(s, ty, 3) \/ PfReadFail(s, ty) \/ PfClose(s, ty) \/ PfRemove(s, ty)
                          \/ PfRead(s, "client", 0)
                          \/ \E ok \in BOOLEAN : PfWrite(s, ok) \/ PfConnect(s, ok) \/ PfAdd(s, ok)
        \/ \E ok \in BOOLEAN : PfClear(ok)
        \/ \E q \in {"none", "one", "alternate"} : Burst(16, q)
Spec == Init /\ [][Next]_vars
(* model-level sanity *)
TypeOK == /\ \A k \in 1..Len(dls) : dls[k].id \in Ids /\ dls[k].size \in Sizes
          /\ \A k \in 1..Len(pfs) : pfs[k].id \in Ids /\ (pfs[k].conn => pfs[k].tgt = "up")
OneForwardPerSocket == \A j, k \in 1..Len(pfs) : pfs[j].id = pfs[k].id => j = k
(* what the code owes at every step; obs = [status, ok] *)
Answered(obs) == obs.status = 200
Clean(obs) == obs.ok
=============================================================================
