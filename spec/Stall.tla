-------------------------------- MODULE Stall --------------------------------
(* C11, the "or stalls" half: an operator connection that stays open but stops reading.
     code: cmd/server/teamserver.go EventBroadcast (one client after the other) / SendEvent (client mutex around
           Connection.WriteMessage)
   Clients are authenticated operators; Stall(c) makes c stop reading for good.  Every later broadcast, agent
   request and send must still complete for everybody else: each live operator gets every broadcast exactly once
   and in order, within the bound the harness measures against (the stalled one may be dropped). *)
EXTENDS Integers, Sequences, FiniteSets, TLC
CONSTANTS Clients, MaxOps
VARIABLES stalled,   \* set of clients that no longer read
          sent,      \* broadcasts so far: sequence of message numbers
          got,       \* per client: the message numbers it has received, in order
          agentOK,   \* did the last agent request return?
          hist
vars == <<stalled, sent, got, agentOK, hist>>
Init == stalled = {} /\ sent = <<>> /\ got = [c \in Clients |-> <<>>] /\ agentOK = TRUE /\ hist = <<>>
Live == Clients \ stalled
Step(o) == hist' = Append(hist, o) /\ Len(hist) < MaxOps
Stall(c) == c \in Live /\ Cardinality(Live) > 2 /\ stalled' = stalled \cup {c} /\ UNCHANGED <<sent, got, agentOK>> /\ Step([op |-> "Stall", c |-> c])
(* d says something (big = a frame larger than any socket buffer): every live operator, d included, receives it *)
Chat(d, big) == /\ d \in Live
                /\ LET n == Len(sent) + 1 IN
                   /\ sent' = Append(sent, n)
                   /\ got' = [c \in Clients |-> IF c \in Live THEN Append(got[c], n) ELSE got[c]]
                /\ UNCHANGED <<stalled, agentOK>> /\ Step([op |-> "Chat", c |-> d, big |-> big])
(* an agent registers: the request is answered (the new session is announced to the operators on the way) *)
AgentRequest == agentOK' = TRUE /\ UNCHANGED <<stalled, sent, got>> /\ Step([op |-> "AgentRequest"])
Next == (\E c \in Clients : Stall(c)) \/ (\E d \in Clients, b \in BOOLEAN : Chat(d, b)) \/ AgentRequest
Spec == Init /\ [][Next]_vars
(* what must hold in every state *)
LiveSeeEverything == \A c \in Live : got[c] = sent
AgentsServed == agentOK
(* the same on observations: obs = [got : client -> sequence of numbers, agent_ok, live : set] *)
ObsLiveSeeEverything(o, expected) == \A c \in DOMAIN o.got : c \in o.live => o.got[c] = expected
=============================================================================
