------------------------------- MODULE Loot -------------------------------
(***************************************************************************)
(* Where agent-supplied files land and what they contain.                  *)
(*   code: pkg/agent/agent.go DownloadAdd/DownloadWrite/DownloadClose,      *)
(*         pkg/agent/demons.go COMMAND_FS download open/write/close,        *)
(*         pkg/logr/demon.go DemonAddDownloadedFile (third-party service)   *)
(* A file name is a sequence of components (already split at / and \).     *)
(* Paths are sequences of components relative to the loot tree:            *)
(*     <<"agents", id, "Download", ...>>                                    *)
(***************************************************************************)
EXTENDS Integers, Sequences, FiniteSets, TLC, SequencesExt

CONSTANTS Agents, Fids, Names, Chunks, MaxOps
(* Names: set of component sequences, e.g. <<"..", "Download_x", "f">> - supplied through NameSet below *)

VARIABLES fs,      \* function: path (sequence of components) -> sequence of chunk symbols
          open,    \* [Agents -> [Fids -> path or <<>>]]  (<<>> = not open)
          last, hist
vars == <<fs, open, last, hist>>
view == <<fs, open, last>>

Special == {"..", ".", ""}
Base(a) == <<"agents", a, "Download">>

(* lexical clean of a component sequence appended to a base that is already clean *)
RECURSIVE CleanOn(_, _)
CleanOn(stack, comps) ==
    IF comps = <<>> THEN stack
    ELSE LET c == Head(comps) IN
         IF c = "" \/ c = "." THEN CleanOn(stack, Tail(comps))
         ELSE IF c = ".." THEN CleanOn(IF stack = <<>> THEN <<>> ELSE SubSeq(stack, 1, Len(stack) - 1), Tail(comps))
         ELSE CleanOn(Append(stack, c), Tail(comps))

(* directories MkdirAll makes while walking the (unclean) directory part of a name *)
RECURSIVE WalkDirs(_, _)
WalkDirs(stack, comps) ==
    IF comps = <<>> THEN {}
    ELSE LET c == Head(comps) IN
         IF c = "" \/ c = "." THEN WalkDirs(stack, Tail(comps))
         ELSE IF c = ".." THEN WalkDirs(IF stack = <<>> THEN <<>> ELSE SubSeq(stack, 1, Len(stack) - 1), Tail(comps))
         ELSE {Append(stack, c)} \cup WalkDirs(Append(stack, c), Tail(comps))

Dirs(n) == SubSeq(n, 1, Len(n) - 1)
File(n) == n[Len(n)]
TargetDir(a, n) == CleanOn(Base(a), Dirs(n))
Inside(a, n) == IsPrefix(Base(a), TargetDir(a, n))          \* component-wise: a sibling like Download_x is NOT inside
Creatable(n) == File(n) \notin Special                       \* "..", "." and "" name directories: nothing to create
Clash(a, n) == Append(TargetDir(a, n), File(n)) \in WalkDirs(Base(a), Dirs(n))   \* f\..\f: "f" was just made a directory
Target(a, n) == Append(TargetDir(a, n), File(n))

Init == fs = <<>> /\ open = [a \in Agents |-> [f \in Fids |-> <<>>]] /\ last = [op |-> "none", ok |-> TRUE] /\ hist = <<>>
Log(op, a, f, n, c) == hist' = Append(hist, [op |-> op, a |-> a, f |-> f, n |-> n, c |-> c])

(* two writers holding the same target file at once are outside the property (content is defined per file id) *)
Busy(p) == \E a \in Agents, f \in Fids : open[a][f] = p
Put(p, v) == [q \in (DOMAIN fs) \cup {p} |-> IF q = p THEN v ELSE fs[q]]

Announced == {"zero", "short", "ample"}    \* the size the agent announces: 0, less than it is going to send, more
Open(a, f, n, sz) ==   \* download-open callback for file id f with the agent-supplied name n; the announced size decides nothing:
                       \* the content is what arrives between open and close
    /\ open[a][f] = <<>>
    /\ ~Busy(Target(a, n))
    /\ IF Inside(a, n) /\ Creatable(n) /\ ~Clash(a, n)
       THEN /\ fs' = Put(Target(a, n), <<>>)
            /\ open' = [open EXCEPT ![a][f] = Target(a, n)]
            /\ last' = [op |-> "Open", ok |-> TRUE]
       ELSE /\ UNCHANGED <<fs, open>> /\ last' = [op |-> "Open", ok |-> FALSE]
    /\ Log("Open", a, f, n, sz)

Write(a, f, c) ==  \* a chunk for file id f: appended if f is open, written nowhere otherwise
    /\ IF open[a][f] # <<>>
       THEN fs' = Put(open[a][f], Append(fs[open[a][f]], c)) /\ last' = [op |-> "Write", ok |-> TRUE]
       ELSE UNCHANGED fs /\ last' = [op |-> "Write", ok |-> FALSE]
    /\ UNCHANGED open
    /\ Log("Write", a, f, <<>>, c)

Close(a, f) ==
    /\ open' = [open EXCEPT ![a][f] = <<>>] /\ UNCHANGED fs
    /\ last' = [op |-> "Close", ok |-> open[a][f] # <<>>]
    /\ Log("Close", a, f, <<>>, "")

(* a third-party service hands over a complete file for agent id a *)
ServiceFile(a, n, c) ==   \* (no sub-directories are made on this path: only names that resolve to the download directory itself)
    /\ (Len(n) = 1 \/ n[1] = "..")
    /\ ~Busy(Target(a, n))
    /\ IF Inside(a, n) /\ Creatable(n) /\ TargetDir(a, n) = Base(a)
       THEN fs' = Put(Target(a, n), <<c>>) /\ last' = [op |-> "ServiceFile", ok |-> TRUE]
       ELSE UNCHANGED fs /\ last' = [op |-> "ServiceFile", ok |-> FALSE]
    /\ UNCHANGED open
    /\ Log("ServiceFile", a, 0, n, c)

(* a third-party service names the agent itself: an id that is not one plain path component ("..", "../x",
   ".", "<known id>/sub", "x/../../y", an absolute path) must never make the teamserver write anything *)
CraftedIds == {"dotdot", "up", "dot", "nested", "deep", "abs"}
CraftedFile(a, cls) ==
    /\ UNCHANGED <<fs, open>> /\ last' = [op |-> "CraftedFile", ok |-> FALSE]
    /\ Log("CraftedFile", a, 0, <<>>, cls)

(* the teamserver stops and starts again on its database: the sessions come back, the new run has a loot tree of its own
   (fs is the current tree: empty again), transfers that were in progress are forgotten.  Afterwards everything above holds
   as before - the restored sessions' files land in their own directories of the current tree *)
Restart == /\ fs' = <<>> /\ open' = [a \in Agents |-> [f \in Fids |-> <<>>]]
           /\ last' = [op |-> "Restart", ok |-> TRUE]
           /\ Log("Restart", "", 0, <<>>, "")
Next == /\ Len(hist) < MaxOps
        /\ \E a \in Agents :
             \/ \E f \in Fids, n \in Names, sz \in Announced : Open(a, f, n, sz)
             \/ \E f \in Fids, c \in Chunks : Write(a, f, c)
             \/ \E f \in Fids : Close(a, f)
             \/ \E n \in Names, c \in Chunks : ServiceFile(a, n, c)
             \/ \E cls \in CraftedIds : CraftedFile(a, cls)
             \/ (Restart /\ \A i \in 1..Len(hist) : hist[i].op # "Restart")        \* (once per history)
Spec == Init /\ [][Next]_vars
-----------------------------------------------------------------------------
(* C07 *)
OwnFolderOnly ==   \* every file lies inside some agent's own download directory
    \A p \in DOMAIN fs : \E a \in Agents : IsPrefix(Base(a), p) /\ Len(p) > 3
OpenTargetsExist == \A a \in Agents, f \in Fids : open[a][f] # <<>> => open[a][f] \in DOMAIN fs
=============================================================================
