----------------------------- MODULE Persist -----------------------------
(***************************************************************************)
(* Persistence of sessions, pivot links and listeners in SQLite, statement *)
(* by statement, with a crash possible between any two statements.         *)
(*   code: pkg/db/{agents,links,listeners}.go (every write statement is    *)
(*         one step), cmd/server/agent.go AgentAdd/AgentUpdate/LinkAdd/    *)
(*         LinkRemove/Died, pkg/agent/demons.go SMB connect, dispatch.go,  *)
(*         cmd/server/listener.go ListenerAdd/ListenerRemove;              *)
(*         restore = teamserver.go Start: AgentAll, ParentOf, LinksOf,     *)
(*         ListenerAll.                                                    *)
(* Every reachable state is a possible crash point: the invariants below   *)
(* say what reopening the database may show there.                         *)
(***************************************************************************)
EXTENDS Integers, Sequences, FiniteSets, TLC

CONSTANTS Agents, Metas, Lst, MaxOps
None == "none"

VARIABLES live,    \* [Agents -> {"none","active","dead"}]  the running server's view
          meta,    \* [Agents -> Metas \cup {None}]
          par,     \* [Agents -> Agents \cup {None}]
          lsn,     \* listeners running
          acked,   \* registrations whose reply went out
          dbA,     \* [Agents -> [st, meta]]   TS_Agents
          dbL,     \* set of <<parent, child>> TS_Links
          dbS,     \* TS_Listeners (names)
          pend,    \* write statements of the operation in flight, in program order
          infl,    \* agents the operation in flight touches
          toAck,   \* agents acknowledged when it completes
          hist

vars == <<live, meta, par, lsn, acked, dbA, dbL, dbS, pend, infl, toAck, hist>>
view == <<live, meta, par, lsn, acked, dbA, dbL, dbS, pend, infl, toAck>>

Init == /\ live = [a \in Agents |-> "none"] /\ meta = [a \in Agents |-> None] /\ par = [a \in Agents |-> None]
        /\ lsn = {} /\ acked = {}
        /\ dbA = [a \in Agents |-> [st |-> "none", meta |-> None]] /\ dbL = {} /\ dbS = {}
        /\ pend = <<>> /\ infl = {} /\ toAck = {} /\ hist = <<>>

InsA(a, m) == [k |-> "insA", a |-> a, b |-> None, st |-> "active", m |-> m]
UpdA(a, st, m) == [k |-> "updA", a |-> a, b |-> None, st |-> st, m |-> m]
InsL(p, c) == [k |-> "insL", a |-> p, b |-> c, st |-> "", m |-> None]
DelL(p, c) == [k |-> "delL", a |-> p, b |-> c, st |-> "", m |-> None]
InsS(n) == [k |-> "insS", a |-> n, b |-> None, st |-> "", m |-> None]
DelS(n) == [k |-> "delS", a |-> n, b |-> None, st |-> "", m |-> None]

Kids(a) == {c \in Agents : par[c] = a}
RECURSIVE Anc(_, _)
Anc(a, n) == IF n = 0 \/ par[a] = None THEN {} ELSE {par[a]} \cup Anc(par[a], n - 1)

Begin(op, a, b, m, stmts, touched, ack) ==
    /\ pend = <<>>
    /\ pend' = stmts /\ infl' = touched /\ toAck' = ack
    /\ hist' = Append(hist, [op |-> op, a |-> a, b |-> b, m |-> m])
    /\ UNCHANGED <<dbA, dbL, dbS, acked>>

Register(a, m) ==
    /\ live[a] = "none"
    /\ live' = [live EXCEPT ![a] = "active"] /\ meta' = [meta EXCEPT ![a] = m]
    /\ UNCHANGED <<par, lsn>>
    /\ Begin("Register", a, None, m, <<InsA(a, m)>>, {a}, {a})

Update(a, m) ==   \* metadata refresh
    /\ live[a] = "active"
    /\ meta' = [meta EXCEPT ![a] = m] /\ UNCHANGED <<live, par, lsn>>
    /\ Begin("Update", a, None, m, <<UpdA(a, "active", m)>>, {a}, {})

ConnectNew(p, c, m) ==   \* new agent behind p: the session row first, then the link
    /\ live[p] = "active" /\ live[c] = "none"
    /\ live' = [live EXCEPT ![c] = "active"] /\ meta' = [meta EXCEPT ![c] = m] /\ par' = [par EXCEPT ![c] = p]
    /\ UNCHANGED lsn
    /\ Begin("ConnectNew", p, c, m, <<InsA(c, m), InsL(p, c)>>, {c}, {c})

Reparent(p, c) ==   \* a known agent (re)connects under p
    /\ live[p] = "active" /\ live[c] # "none" /\ c # p /\ c \notin Anc(p, Cardinality(Agents))
    /\ LET q == par[c]
           detach == IF q # None THEN <<DelL(q, c), UpdA(c, "dead", meta[c])>> ELSE <<>>   \* LinkRemove marks it disconnected
           attach == <<UpdA(c, "active", meta[c]), InsL(p, c)>>                                   \* session row first, then the link
       IN Begin("Reparent", p, c, None, detach \o attach, {c}, {})
    /\ live' = [live EXCEPT ![c] = "active"] /\ par' = [par EXCEPT ![c] = p]
    /\ UNCHANGED <<meta, lsn>>

Disconnect(p, c) ==
    /\ live[p] # "none" /\ par[c] = p
    /\ live' = [live EXCEPT ![c] = "dead"] /\ par' = [par EXCEPT ![c] = None]
    /\ UNCHANGED <<meta, lsn>>
    /\ Begin("Disconnect", p, c, None, <<DelL(p, c), UpdA(c, "dead", meta[c])>>, {c}, {})

RECURSIVE KidStmts(_, _)
KidStmts(a, ks) == IF ks = <<>> THEN <<>> ELSE <<DelL(a, Head(ks)), UpdA(Head(ks), "dead", meta[Head(ks)])>> \o KidStmts(a, Tail(ks))

Orders(S) == {s \in [1..Cardinality(S) -> S] : \A i, j \in 1..Cardinality(S) : i # j => s[i] # s[j]}

Died(a) ==   \* exit / kill date / operator mark
    /\ live[a] = "active"
    /\ \E ord \in Orders(Kids(a)) :
         LET up == IF par[a] # None THEN <<DelL(par[a], a), UpdA(a, "dead", meta[a])>> ELSE <<>>
         IN Begin("Died", a, None, None, KidStmts(a, ord) \o up \o <<UpdA(a, "dead", meta[a])>>, {a} \cup Kids(a), {})
    /\ live' = [x \in Agents |-> IF x = a \/ par[x] = a THEN "dead" ELSE live[x]]
    /\ par' = [x \in Agents |-> IF x = a \/ par[x] = a THEN None ELSE par[x]]
    /\ UNCHANGED <<meta, lsn>>

AddListener(n) == /\ n \notin lsn /\ lsn' = lsn \cup {n} /\ UNCHANGED <<live, meta, par>>
                  /\ Begin("AddListener", n, None, None, <<InsS(n)>>, {}, {})
RemoveListener(n) == /\ n \in lsn /\ lsn' = lsn \ {n} /\ UNCHANGED <<live, meta, par>>
                     /\ Begin("RemoveListener", n, None, None, <<DelS(n)>>, {}, {})

Step ==   \* the next write statement reaches the database file
    /\ pend # <<>>
    /\ LET s == Head(pend) IN
         /\ dbA' = IF s.k \in {"insA", "updA"} THEN [dbA EXCEPT ![s.a] = [st |-> s.st, meta |-> s.m]] ELSE dbA
         /\ dbL' = IF s.k = "insL" THEN dbL \cup {<<s.a, s.b>>} ELSE IF s.k = "delL" THEN dbL \ {<<s.a, s.b>>} ELSE dbL
         /\ dbS' = IF s.k = "insS" THEN dbS \cup {s.a} ELSE IF s.k = "delS" THEN dbS \ {s.a} ELSE dbS
    /\ pend' = Tail(pend)
    /\ acked' = IF Len(pend) = 1 THEN acked \cup toAck ELSE acked
    /\ infl' = IF Len(pend) = 1 THEN {} ELSE infl
    /\ UNCHANGED <<live, meta, par, lsn, toAck, hist>>

Next == \/ Step
        \/ /\ Len(hist) < MaxOps
           /\ \/ \E a \in Agents, m \in Metas : Register(a, m) \/ Update(a, m)
              \/ \E p, c \in Agents, m \in Metas : ConnectNew(p, c, m)
              \/ \E p, c \in Agents : Reparent(p, c) \/ Disconnect(p, c)
              \/ \E a \in Agents : Died(a)
              \/ \E n \in Lst : AddListener(n) \/ RemoveListener(n)
Spec == Init /\ [][Next]_vars
-----------------------------------------------------------------------------
(* C10: what reopening the database shows, at every crash point *)
R == {a \in Agents : dbA[a].st = "active"}          \* restored sessions (AgentAll: WHERE Active = 1)

Quiescent == pend = <<>> =>
    /\ R = {a \in Agents : live[a] = "active"}
    /\ \A a \in R : dbA[a].meta = meta[a]
    /\ {l \in dbL : l[1] \in R /\ l[2] \in R} = {<<par[c], c>> : c \in {x \in R : par[x] # None /\ par[x] \in R}}
    /\ dbS = lsn
AckedSurvive == \A a \in acked : live[a] = "active" /\ a \notin infl => a \in R /\ dbA[a].meta = meta[a]
OnlyKnown == \A a \in R : a \in acked \cup infl
DeadStayDead == \A a \in Agents : live[a] = "dead" /\ a \notin infl => a \notin R
NoDanglingChild == \A l \in dbL : l[1] \in R => l[2] \in R    \* a restored parent never lists a session that is not restored
=============================================================================
