---------------------------- MODULE Sessions ----------------------------
(***************************************************************************)
(* The session table: registration, re-registration, check-in, metadata    *)
(* refresh (COMMAND_CHECKIN callback).                                      *)
(*   code: pkg/handlers/handlers.go handleDemonAgent, pkg/agent/agent.go    *)
(*         ParseDemonRegisterRequest, demons.go COMMAND_CHECKIN,            *)
(*         cmd/server/agent.go AgentExist/AgentAdd                          *)
(* sess is the table in creation order; the code can in principle hold two *)
(* records with one id, so uniqueness is an invariant, not a type.         *)
(***************************************************************************)
EXTENDS Integers, Sequences, FiniteSets, TLC

CONSTANTS Ids, Keys, Metas, MaxOps
Zero == "zero"            \* header agent id 0

VARIABLES sess,     \* Seq([id, key, meta])
          sent,     \* [Ids -> [key, meta] or "none"]: what the owner of an id last legitimately sent
          last, hist
vars == <<sess, sent, last, hist>>
view == <<sess, sent, last>>

Has(i) == \E n \in 1..Len(sess) : sess[n].id = i
NoneRec == [key |-> "none", meta |-> "none"]

Init == sess = <<>> /\ sent = [i \in Ids |-> NoneRec] /\ last = [op |-> "none", h |-> "", reply |-> ""] /\ hist = <<>>
Log(op, h, j, k, m) == hist' = Append(hist, [op |-> op, h |-> h, j |-> j, k |-> k, m |-> m])

(* DEMON_INIT with header id h, encrypted inner id j, key k, metadata m *)
Reg(h, j, k, m) ==
    /\ IF h # Zero /\ Has(h)
       THEN /\ last' = [op |-> "Reg", h |-> h, reply |-> "reconnect"] /\ UNCHANGED <<sess, sent>>
       ELSE IF h # j
       THEN /\ last' = [op |-> "Reg", h |-> h, reply |-> "404"] /\ UNCHANGED <<sess, sent>>
       ELSE /\ sess' = Append(sess, [id |-> h, key |-> k, meta |-> m, active |-> TRUE])
            /\ sent' = [sent EXCEPT ![h] = [key |-> k, meta |-> m]]
            /\ last' = [op |-> "Reg", h |-> h, reply |-> "registered"]
    /\ Log("Reg", h, j, k, m)

CheckIn(h) ==
    /\ last' = [op |-> "CheckIn", h |-> h, reply |-> IF h # Zero /\ Has(h) THEN "nojob" ELSE "404"]
    /\ UNCHANGED <<sess, sent>>
    /\ Log("CheckIn", h, "", "", "")

(* COMMAND_CHECKIN callback of a tasked agent: refreshes key and metadata; an inner id that is
   not the sender's own id is ignored *)
Refresh(h, j, k, m) ==
    /\ h # Zero /\ Has(h)
    /\ IF j = h
       THEN /\ sess' = [n \in 1..Len(sess) |-> IF sess[n].id = h THEN [id |-> h, key |-> k, meta |-> m, active |-> TRUE] ELSE sess[n]]
            /\ sent' = [sent EXCEPT ![h] = [key |-> k, meta |-> m]]
       ELSE UNCHANGED <<sess, sent>>
    /\ last' = [op |-> "Refresh", h |-> h, reply |-> "nojob"]
    /\ Log("Refresh", h, j, k, m)

(* the session dies (operator mark or exit callback): it stays in the table, inactive, and its id stays taken *)
Kill(h, how) ==
    /\ h # Zero /\ Has(h)
    /\ sess' = [n \in 1..Len(sess) |-> IF sess[n].id = h THEN [sess[n] EXCEPT !.active = FALSE] ELSE sess[n]]
    /\ UNCHANGED sent
    /\ last' = [op |-> "Kill", h |-> h, reply |-> "nojob"]
    /\ Log("Kill", h, "", how, "")

(* the teamserver stops and starts again on its database: the sessions that were alive come back with the id, key, IV and
   recorded metadata they had; dead ones do not, their ids are free again *)
Alive(i) == \E n \in 1..Len(sess) : sess[n].id = i /\ sess[n].active
Restart ==
    /\ sess' = SelectSeq(sess, LAMBDA x : x.active)
    /\ sent' = [i \in Ids |-> IF Alive(i) THEN sent[i] ELSE NoneRec]
    /\ last' = [op |-> "Restart", h |-> "", reply |-> "nojob"]
    /\ Log("Restart", "", "", "", "")
Next == /\ Len(hist) < MaxOps
        /\ \/ \E h \in Ids \cup {Zero}, j \in Ids, k \in Keys, m \in Metas : Reg(h, j, k, m)
           \/ \E h \in Ids \cup {Zero} : CheckIn(h)
           \/ \E h \in Ids, j \in Ids, k \in Keys, m \in Metas : Refresh(h, j, k, m)
           \/ \E h \in Ids, how \in {"mark", "exit"} : Kill(h, how)
           \/ (Restart /\ \A i \in 1..Len(hist) : hist[i].op # "Restart")
Spec == Init /\ [][Next]_vars
-----------------------------------------------------------------------------
(* C03, session clauses *)
UniqueIds == \A a, b \in 1..Len(sess) : sess[a].id = sess[b].id => a = b
MetaAsSent == \A n \in 1..Len(sess) : sess[n].id \in Ids /\ sess[n].key = sent[sess[n].id].key /\ sess[n].meta = sent[sess[n].id].meta
RegCreatesOne == \A i \in Ids : sent[i] # NoneRec => Cardinality({n \in 1..Len(sess) : sess[n].id = i}) = 1
IdStable == (last'.op # "Restart") => \A n \in 1..Len(sess) : n <= Len(sess') /\ sess'[n].id = sess[n].id      \* (a restart drops the dead sessions)
IdImmutable == [][IdStable]_vars
=============================================================================
