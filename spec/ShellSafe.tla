------------------------------ MODULE ShellSafe ------------------------------
(***************************************************************************)
(* Operator-supplied build strings (the service name) reach the compiler   *)
(* as data.  code: pkg/common/builder/builder.go PatchConfig (SERVICE_NAME *)
(* define), Build / Cmd (command line run through sh -c).                  *)
(***************************************************************************)
EXTENDS Integers, Sequences, TLC
Classes == {"plain", "space", "dollar", "backtick", "semicolon", "dquote", "squote", "backslash", "amp", "pipe"}
VARIABLES cls, last
vars == <<cls, last>>
Init == cls \in Classes /\ last = [op |-> "none"]
Build == last.op = "none" /\ last' = [op |-> "Build", ok |-> TRUE, verbatim |-> TRUE, executed |-> FALSE] /\ UNCHANGED cls
Spec == Init /\ [][Build]_vars
PassedAsData == last.op = "Build" => last.verbatim /\ last.ok
NothingElseRuns == last.op = "Build" => ~last.executed
=============================================================================
