------------------------------ MODULE Pivot ------------------------------
(***************************************************************************)
(* The SMB pivot graph of the teamserver and its mirror in TS_Links.       *)
(*   code: pkg/agent/demons.go  COMMAND_PIVOT / DEMON_PIVOT_SMB_CONNECT,   *)
(*         DEMON_PIVOT_SMB_DISCONNECT, COMMAND_EXIT, COMMAND_KILL_DATE     *)
(*         cmd/server/agent.go  LinkAdd / LinkRemove / Died / UnlinkFromAll*)
(*         cmd/server/dispatch.go Session.MarkAsDead; pkg/db/links.go      *)
(* Two projections of the code's pointers are kept apart on purpose:       *)
(* links[p] (the parent's Links list) and ptr[c] (the child's Parent       *)
(* pointer) - the property says they must agree.                           *)
(***************************************************************************)
EXTENDS Integers, Sequences, FiniteSets, TLC

CONSTANTS Agents, MaxOps
None == "none"

VARIABLES reg,      \* registered agents
          ptr,      \* [Agents -> Agents \cup {None}]   child's parent pointer
          links,    \* [Agents -> SUBSET Agents]         parent's link list (as a set)
          dup,      \* TRUE iff some link list holds an agent twice
          db,       \* set of <<parent, child>> rows of TS_Links
          active,   \* [Agents -> BOOLEAN]
          last,     \* last operation and whether it completed
          hist

vars == <<reg, ptr, links, dup, db, active, last, hist>>
view == <<reg, ptr, links, dup, db, active, last>>

Init == /\ reg = {} /\ ptr = [a \in Agents |-> None] /\ links = [a \in Agents |-> {}]
        /\ dup = FALSE /\ db = {} /\ active = [a \in Agents |-> FALSE]
        /\ last = [op |-> "none", a |-> None, c |-> None, done |-> TRUE, kept |-> TRUE]
        /\ hist = <<>>

Log(op, a, c, k) == hist' = Append(hist, [op |-> op, a |-> a, c |-> c, k |-> k])
Did(op, a, c) == last' = [op |-> op, a |-> a, c |-> c, done |-> TRUE, kept |-> TRUE]

RECURSIVE Ancestors(_, _)
Ancestors(a, n) == IF n = 0 \/ ptr[a] = None THEN {} ELSE {ptr[a]} \cup Ancestors(ptr[a], n - 1)
Anc(a) == Ancestors(a, Cardinality(Agents))

Register(a) ==   \* direct registration over a listener
    /\ a \notin reg
    /\ reg' = reg \cup {a} /\ active' = [active EXCEPT ![a] = TRUE]
    /\ UNCHANGED <<ptr, links, dup, db>>
    /\ Did("Register", a, None) /\ Log("Register", a, None, "")

(* p reports a successful SMB connect carrying c's registration request *)
Connect(p, c) ==
    /\ p \in reg
    /\ IF c \notin reg
       THEN \* new agent behind p
            /\ reg' = reg \cup {c} /\ active' = [active EXCEPT ![c] = TRUE]
            /\ ptr' = [ptr EXCEPT ![c] = p] /\ links' = [links EXCEPT ![p] = @ \cup {c}]
            /\ db' = db \cup {<<p, c>>}
       ELSE IF c = p \/ c \in Anc(p)
       THEN \* would make c its own ancestor: refused, nothing changes
            UNCHANGED <<reg, active, ptr, links, db>>
       ELSE \* reconnect: c leaves its previous parent (if any) and hangs under p
            /\ reg' = reg /\ active' = [active EXCEPT ![c] = TRUE]
            /\ ptr' = [ptr EXCEPT ![c] = p]
            /\ links' = [q \in Agents |-> IF q = p THEN links[q] \cup {c} ELSE links[q] \ {c}]
            /\ db' = {r \in db : r[2] # c} \cup {<<p, c>>}
    /\ UNCHANGED dup
    /\ Did("Connect", p, c) /\ Log("Connect", p, c, "")

(* p reports that its link to c is gone *)
Disconnect(p, c) ==
    /\ p \in reg /\ c \in reg
    /\ IF c \in links[p]
       THEN /\ links' = [links EXCEPT ![p] = @ \ {c}] /\ ptr' = [ptr EXCEPT ![c] = None]
            /\ db' = db \ {<<p, c>>}
       ELSE UNCHANGED <<links, ptr, db>>
    /\ active' = [active EXCEPT ![c] = FALSE]     \* the code marks the named agent inactive either way
    /\ UNCHANGED <<reg, dup>>
    /\ Did("Disconnect", p, c) /\ Log("Disconnect", p, c, "")

(* a dies: exit callback, kill-date callback or operator "mark as dead" *)
Died(a, k) ==
    /\ a \in reg
    /\ links' = [q \in Agents |-> IF q = a THEN {} ELSE links[q] \ {a}]
    /\ ptr' = [q \in Agents |-> IF q = a \/ ptr[q] = a THEN None ELSE ptr[q]]
    /\ db' = {r \in db : r[1] # a /\ r[2] # a}
    /\ active' = [q \in Agents |-> IF q = a \/ q \in links[a] THEN FALSE ELSE active[q]]
    /\ UNCHANGED <<reg, dup>>
    /\ Did("Died", a, None) /\ Log("Died", a, None, k)

(* the teamserver stops and starts again on its database: the sessions that were active come back (dead and disconnected ones do
   not), the forest is rebuilt from TS_Links.  What comes back is the forest as it was, among the sessions that came back *)
Restart ==
    /\ \A p \in reg : (links[p] # {} \/ ptr[p] # None) => active[p]      \* (a disconnected pivot that still holds its subtree: what a restart makes of
                                                      \*  that subtree - the sessions come back without their parent - is left open here)
    /\ reg' = {a \in reg : active[a]}
    /\ links' = [p \in Agents |-> IF p \in reg' THEN {c \in links[p] : c \in reg'} ELSE {}]
    /\ ptr' = [c \in Agents |-> IF c \in reg' /\ ptr[c] # None /\ ptr[c] \in reg' THEN ptr[c] ELSE None]
    /\ active' = [a \in Agents |-> a \in reg']
    /\ dup' = FALSE /\ UNCHANGED db
    /\ Did("Restart", None, None) /\ Log("Restart", None, None, "")
Next == /\ Len(hist) < MaxOps
        /\ \/ \E a \in Agents : Register(a)
           \/ \E p, c \in Agents : Connect(p, c) \/ Disconnect(p, c)
           \/ \E a \in Agents, k \in {"exit", "killdate", "mark"} : Died(a, k)
           \/ (Restart /\ \A i \in 1..Len(hist) : hist[i].op # "Restart")

Spec == Init /\ [][Next]_vars
-----------------------------------------------------------------------------
(* C09 *)
AtMostOneParent == \A c \in Agents : Cardinality({p \in Agents : c \in links[p]}) <= 1
LinksMatch == \A p, c \in Agents : (c \in links[p]) <=> (ptr[c] = p)
NoDupLinks == ~dup
RECURSIVE Reach(_, _, _)
Reach(a, b, n) == n > 0 /\ ptr[a] # None /\ (ptr[a] = b \/ Reach(ptr[a], b, n - 1))
Acyclic == \A a \in Agents : ~Reach(a, a, Cardinality(Agents) + 1)
                              /\ a \notin links[a]
DbMirror == db = {<<p, c>> \in Agents \X Agents : c \in links[p]}
DiedDetaches == last.op = "Died" => /\ last.done
                                    /\ links[last.a] = {}
                                    /\ \A p \in Agents : last.a \notin links[p]
                                    /\ ptr[last.a] = None
Completes == last.done
RestartKeeps == last.kept       \* (trace side: the restored forest is the forest before, among the restored sessions)
TypeOK == /\ reg \subseteq Agents /\ \A a \in Agents : ptr[a] \in Agents \cup {None} /\ links[a] \subseteq Agents
=============================================================================
